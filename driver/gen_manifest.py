#!/usr/bin/env python3
"""Regenerate /verif/MANIFEST.json from driver/props.py + driver/manifest_text.py."""
import json
import os
import sys

VERIF = os.path.dirname(os.path.dirname(os.path.abspath(__file__)))
sys.path.insert(0, os.path.join(VERIF, "driver"))
import props  # noqa
import manifest_text as mt  # noqa

# Checks the coordinator has reviewed, run on the unchanged tree and triaged (a harness
# that merely exists is not claimed).
CLAIMED = open(os.path.join(VERIF, "driver", "claimed.txt")).read().split()

ids = [json.loads(l)["id"] for l in open(os.path.join(VERIF, "properties.jsonl"))]
checks = []
na = []
for pid in ids:
    if pid in props.PROPS and pid in mt.TEXT and pid in CLAIMED:
        t = mt.TEXT[pid]
        checks.append({
            "property_id": pid,
            "quick_cmd": "./check %s --tier quick" % pid,
            "thorough_cmd": "./check %s --tier thorough" % pid,
            "evidence_file": "evidence/%s.json" % pid,
            "replay_cmd_template": "./check %s --replay {path}" % pid,
            "engine": "vpbt",
            "level_claimed": {"category": "exploration", "text": t["level"],
                              "design_ref": "DESIGN.md §5 " + pid},
            "level_note": t["note"],
            "technique": t["technique"],
        })
    else:
        na.append({"property_id": pid, "reason": mt.NOT_APPLICABLE.get(
            pid, "check not built yet in this session (planned, see DESIGN.md §5 %s); not claimed until it exists" % pid)})

manifest = {
    "version": 1,
    "setup_cmd": "./check setup",
    "hooks": {
        "guard": "MIRMIK_IGRIS_VERIF",
        "enable": "none needed: harnesses include /repo headers and compile the anchored /repo sources directly (compat/libc objects are symbol-prefixed with objcopy at build time); no guarded hook exists in /repo",
        "baseline_off_cmd": "cmake --build /repo/_build && ctest --test-dir /repo/_build -j8 --timeout 900",
        "source_commits": [],
        "add_only": True,
    },
    "engines": [{
        "name": "vpbt",
        "path": "engine/vpbt.h engine/vpbt_main.cpp driver/vpdriver.py",
        "serves_properties": [c["property_id"] for c in checks],
        "kind_free_text": "choice-sequence property-based testing: random generation in forked ASan/UBSan workers with watchdog, bounded exhaustive enumeration, out-of-process byte shrinking to a replay file, and the same targets behind libFuzzer (thorough tier)",
    }],
    "checks": checks,
    "not_applicable": na,
    "notes": "Genuine defects found are listed in known_findings.json (fixed: entries name the fix: commit in /repo). See DESIGN.md.",
}
with open(os.path.join(VERIF, "MANIFEST.json"), "w") as f:
    json.dump(manifest, f, indent=1)
    f.write("\n")
print("MANIFEST.json: %d checks, %d not_applicable" % (len(checks), len(na)))
