"""vpbt driver: build harnesses from the current /repo tree, run targets,
apply the known-findings protocol, write evidence."""
import concurrent.futures as cf
import glob
import hashlib
import json
import os
import shutil
import subprocess
import sys
import time

VERIF = os.path.dirname(os.path.dirname(os.path.abspath(__file__)))
REPO = os.environ.get("VERIF_REPO", "/repo")
BUILD = os.path.join(VERIF, "build")
NPROC = int(os.environ.get("VERIF_JOBS", os.cpu_count() or 16))

CXX = "clang++"
CC = "clang"
SAN = ["-fsanitize=address,undefined", "-fno-sanitize-recover=undefined",
       "-fno-sanitize=function,vptr"]
COMMON = ["-g", "-O1", "-fno-omit-frame-pointer", "-fno-optimize-sibling-calls"]


def log(*a):
    print(*a, file=sys.stderr, flush=True)


def sh(cmd, **kw):
    return subprocess.run(cmd, stdout=subprocess.PIPE, stderr=subprocess.STDOUT,
                          text=True, **kw)


class BuildError(Exception):
    pass


LIBC_FLAGS = ["-D_GNU_SOURCE", "-fno-builtin", "-I{VERIF}/harness/libc_shadow",
              "-DIGC_REPO_CTYPE=\"{REPO}/compat/libc/include/ctype.h\"",
              "-include", "{VERIF}/harness/libc_protos.h", "-D__weak_alias(a,b)=",
              "-Wno-everything"]


def libc_units(files, extra_flags=()):
    """Units for /repo/compat/libc sources: compiled against the host headers,
    then symbol-prefixed igc_ (see build())."""
    # -O0: the shim sources are small C files; without optimisation no load or store of theirs is deleted as dead code
    # before the sanitizers see it (a one-byte over-read whose value is not used, for instance)
    return [{"src": "R:compat/libc/" + f, "group": "igc_", "flags": LIBC_FLAGS + list(extra_flags), "opt": "-O0"}
            for f in files]


def resolve(path):
    if path.startswith("R:"):
        return os.path.join(REPO, path[2:])
    if path.startswith("V:"):
        return os.path.join(VERIF, path[2:])
    return path


def expand_flags(flags):
    out = []
    for f in flags:
        out.append(f.replace("{REPO}", REPO).replace("{VERIF}", VERIF))
    return out


def compile_unit(unit, outdir, san, extra):
    src = resolve(unit["src"])
    lang = unit.get("lang") or ("c" if src.endswith(".c") else "cxx")
    tag = hashlib.sha1((unit["src"] + unit.get("tag", "")).encode()).hexdigest()[:8]
    obj = os.path.join(outdir, os.path.basename(src).replace(".", "_") + "_" + tag + ".o")
    opt = unit.get("opt")
    if opt is None and unit["src"].startswith("R:"):
        # translation units of the library itself are compiled without optimisation: no load or store of theirs is
        # deleted as dead code before the sanitizers see it (the harness and the headers it includes stay at -O1;
        # a propdef says "opt": "-O1" where an exhaustive sweep needs the speed)
        opt = "-O0"
    common = [x for x in COMMON if not (opt and x.startswith("-O"))]
    if opt:
        common.append(opt)
    if lang == "c":
        cmd = [CC, "-std=gnu11"]
    else:
        cmd = [CXX, "-std=" + unit.get("std", "gnu++20")]
    cmd += common + (san if not unit.get("nosan") else []) + extra
    cmd += ["-I" + os.path.join(VERIF, "engine"), "-I" + os.path.join(VERIF, "harness")]
    if not unit.get("no_repo_inc"):
        cmd += ["-I" + REPO]
    cmd += expand_flags(unit.get("flags", []))
    cmd += ["-c", src, "-o", obj]
    r = sh(cmd)
    if r.returncode != 0:
        raise BuildError("compile failed: %s\n%s" % (" ".join(cmd), r.stdout[-6000:]))
    post = unit.get("post")
    if post:
        post(obj)
    return obj


def build(prop_id, cfg, fuzz=False, variant=None, cov=False):
    """Compile everything the property needs from the current tree.
    variant: a dict from cfg["variants"] (own harness/units/sanitizer set, own executable)."""
    if variant:
        cfg = dict(cfg, **{k: v for k, v in variant.items() if k in ("harness", "units", "ldflags", "harness_flags")})
    outdir = os.path.join(BUILD, prop_id, ("obj-" + variant["name"]) if variant else ("fuzz" if fuzz else ("obj-cov" if cov else "obj")))
    shutil.rmtree(outdir, ignore_errors=True)
    os.makedirs(outdir, exist_ok=True)
    san = list(SAN) + cfg.get("san_extra", [])
    if variant and variant.get("san"):
        san = list(variant["san"])
    extra = []
    if fuzz:
        san = ["-fsanitize=fuzzer-no-link,address,undefined",
               "-fno-sanitize-recover=undefined", "-fno-sanitize=function,vptr"] + cfg.get("san_extra", [])
        extra = ["-DVPBT_LIBFUZZER"]
    if cov:
        san = san + ["-fprofile-instr-generate", "-fcoverage-mapping"]
        extra = ["-DVPBT_COVERAGE"]
    units = [{"src": "V:engine/vpbt_main.cpp", "no_repo_inc": True}]
    for h in cfg["harness"]:
        u = {"src": "V:" + h} if isinstance(h, str) else dict(h)
        u.setdefault("flags", [])
        u["flags"] = list(u["flags"]) + cfg.get("harness_flags", [])
        units.append(u)
    units += cfg.get("units", [])
    objs = []
    with cf.ThreadPoolExecutor(max_workers=NPROC) as ex:
        futs = [ex.submit(compile_unit, u, outdir, san, extra) for u in units]
        for f in futs:
            objs.append(f.result())
    # symbol-prefix groups (compat/libc objects -> igc_<name>): every global
    # symbol *defined* in the group is renamed in all objects of the group, so
    # their cross-calls stay inside the shim while malloc/free/sanitizer
    # callbacks keep pointing at the host.
    groups = {}
    for u, o in zip(units, objs):
        if u.get("group"):
            groups.setdefault(u["group"], []).append(o)
    for prefix, gobjs in groups.items():
        r = sh(["nm", "--defined-only", "-g"] + gobjs)
        names = set()
        for line in r.stdout.splitlines():
            parts = line.split()
            if len(parts) == 3 and parts[1] in "TWDBRVC" and not parts[2].startswith(("__asan", "__ubsan", "__odr", "asan.", "__sancov", "__llvm", "__prof", "__covrec")):
                names.add(parts[2])
        mapf = os.path.join(outdir, "redefine-%s.txt" % prefix)
        with open(mapf, "w") as f:
            for n in sorted(names):
                f.write("%s %s%s\n" % (n, prefix, n))
        for o in gobjs:
            r = sh(["objcopy", "--redefine-syms=" + mapf, o])
            if r.returncode != 0:
                raise BuildError("objcopy failed on %s\n%s" % (o, r.stdout))
    exe = os.path.join(BUILD, prop_id, ("harness-" + variant["name"]) if variant else ("fuzzer" if fuzz else ("harness-cov" if cov else "harness")))
    link_san = ["-fsanitize=fuzzer,address,undefined"] if fuzz else SAN[:1]
    if cov:
        link_san = link_san + ["-fprofile-instr-generate"]
    if variant and variant.get("san"):
        link_san = [x for x in variant["san"] if x.startswith("-fsanitize=")]
    link = [CXX] + link_san + objs + \
        ["-o", exe] + expand_flags(cfg.get("ldflags", []))
    r = sh(link)
    if r.returncode != 0:
        raise BuildError("link failed: %s\n%s" % (" ".join(link), r.stdout[-6000:]))
    return exe


# ------------------------------------------------------------ known findings
def load_known(prop_id):
    path = os.path.join(VERIF, "known_findings.json")
    if not os.path.exists(path):
        return [], []
    with open(path) as f:
        data = json.load(f)
    known = [e for e in data.get("entries", [])
             if e.get("property") == prop_id and e.get("status") == "known"]
    fixed = [e for e in data.get("entries", [])
             if e.get("property") == prop_id and e.get("status") == "fixed"]
    return known, fixed


VARIANT_EXE = {}  # (prop_id, target name) -> executable of the variant that owns the target


def run_replay(exe, prop_id, path, known_ids, errdir):
    for line in open(path, errors="replace"):
        if line.startswith("target "):
            exe = VARIANT_EXE.get((prop_id, line.split(" ", 1)[1].strip()), exe)
            break
    cmd = [exe, "--prop", prop_id, "--replay", path, "--errdir", errdir]
    if known_ids:
        cmd += ["--known", ",".join(known_ids)]
    r = sh(cmd, timeout=300)
    return r.returncode, r.stdout


def run_target(exe, prop_id, tgt, tier, seed, known_ids, outdir, replay_dir):
    name = tgt["name"]
    mode = tgt.get("mode", "random")
    out = os.path.join(outdir, "result-%s-%s.json" % (name, mode))
    errdir = os.path.join(outdir, "err-" + name)
    os.makedirs(errdir, exist_ok=True)
    cmd = [exe, "--prop", prop_id, "--target", name, "--mode", mode, "--seed", str(seed),
           "--workers", str(tgt.get("workers", NPROC)), "--out", out,
           "--replay-dir", replay_dir, "--errdir", errdir,
           "--tier", "1" if tier == "thorough" else "0",
           "--maxlen", str(tgt.get("maxlen", 512)),
           "--hang-s", str(tgt.get("hang_s", 10))]
    if mode == "random":
        cmd += ["--count", str(tgt[tier])]
    elif tgt.get("enum_limit_" + tier):
        cmd += ["--enum-limit", str(tgt["enum_limit_" + tier])]
    if known_ids:
        cmd += ["--known", ",".join(known_ids)]
    t0 = time.time()
    r = sh(cmd)
    if not os.path.exists(out):
        raise BuildError("harness produced no result for %s: rc=%d\n%s" %
                         (name, r.returncode, r.stdout[-3000:]))
    with open(out) as f:
        res = json.load(f)
    res["cmd_wall_s"] = time.time() - t0
    return res


def run_fuzz(prop_id, cfg, fz, seed, known_ids, outdir, replay_dir):
    """libFuzzer campaign over the same target function. Only crash-* artifacts and
    oracle failures count; each is re-run through the plain harness by the caller."""
    exe = os.path.join(BUILD, prop_id, "fuzzer")
    name = fz["name"]
    corpus = os.path.join(outdir, "corpus-" + name)
    art = os.path.join(outdir, "artifacts-" + name) + "/"
    shutil.rmtree(corpus, ignore_errors=True)
    shutil.rmtree(art, ignore_errors=True)
    os.makedirs(corpus)
    os.makedirs(art)
    # seed corpus: empty input + saved replays of this target
    with open(os.path.join(corpus, "empty"), "wb"):
        pass
    for p in glob.glob(os.path.join(VERIF, "replays", "*", prop_id + "-" + name + "-*.case")):
        data = None
        for line in open(p, errors="replace"):
            if line.startswith("data ") and "mode bytes" in open(p, errors="replace").read():
                data = line.split(" ", 1)[1].strip()
        if data:
            try:
                with open(os.path.join(corpus, os.path.basename(p) + ".bin"), "wb") as f:
                    f.write(bytes.fromhex(data))
            except ValueError:
                pass
    stats = os.path.join(outdir, "fuzzstats-" + name)
    for old in glob.glob(stats + ".*"):
        os.unlink(old)
    env = dict(os.environ, VPBT_TARGET=name, VPBT_PROP=prop_id, VPBT_REPLAY_DIR=replay_dir,
               VPBT_FUZZ_STATS=stats, VPBT_KNOWN=",".join(known_ids), VPBT_TIER="1")
    jobs = fz.get("jobs", NPROC)
    secs = fz.get("secs", 60)
    cmd = [exe, corpus, "-artifact_prefix=" + art, "-seed=%d" % (seed or 1),
           "-max_total_time=%d" % secs, "-max_len=%d" % fz.get("maxlen", 512),
           "-timeout=%d" % fz.get("timeout", 25), "-rss_limit_mb=3000",
           "-jobs=%d" % jobs, "-workers=%d" % jobs, "-print_final_stats=1",
           "-use_value_profile=1"]
    t0 = time.time()
    r = sh(cmd, env=env, cwd=outdir)
    execs = 0
    nontriv = 0
    hashes = set()
    labels = {}
    samples = []
    for sp in glob.glob(stats + ".*"):
        try:
            with open(sp) as f:
                d = json.load(f)
        except Exception:
            continue
        execs += d.get("execs", 0)
        nontriv += d.get("nontrivial", 0)
        hashes.update(d.get("hashes", []))
        for k, v in d.get("labels", {}).items():
            labels[k] = labels.get(k, 0) + v
        samples += d.get("samples", [])[:1]
    arts = sorted(glob.glob(art + "crash-*"))
    noise = sorted(glob.glob(art + "timeout-*") + glob.glob(art + "oom-*") + glob.glob(art + "slow-unit-*"))
    for lf in glob.glob(os.path.join(outdir, "fuzz-*.log")):
        os.unlink(lf)
    return {"target": name, "mode": "fuzz", "evaluations": execs, "nontrivial": nontriv,
            "distinct_hashes": hashes, "labels": labels, "samples": samples[:2],
            "crash_artifacts": arts, "noise_artifacts": noise,
            "wall_s": time.time() - t0, "rc": r.returncode}


def bytes_replay_file(prop_id, target, data, path, sig):
    with open(path, "w") as f:
        f.write("vpbt-replay 1\nproperty %s\ntarget %s\nmode bytes\ndata %s\nkind fuzz\nsignature %s\n--- message\n\n--- decoded case\n\n"
                % (prop_id, target, data.hex(), sig))


def check_property(prop_id, tier, seed, props):
    cfg = props[prop_id]
    t_start = time.time()
    outdir = os.path.join(BUILD, prop_id, "run")
    shutil.rmtree(outdir, ignore_errors=True)
    os.makedirs(outdir, exist_ok=True)
    replay_dir = os.environ.get("VERIF_REPLAY_NEW") or os.path.join(VERIF, "replays", "new")
    os.makedirs(replay_dir, exist_ok=True)

    known, fixed = load_known(prop_id)
    known_ids = [e["id"] for e in known]
    # development aid only (never set by MANIFEST commands): treat extra ids as known
    known_ids += [x for x in os.environ.get("VERIF_KNOWN_EXTRA", "").split(",") if x]
    violations = []       # (replay path, text)
    known_lines = []
    notes = []

    exe = build(prop_id, cfg)
    for var in cfg.get("variants", []):
        if any(tier in t.get("tiers", ["quick", "thorough"]) and t.get(tier) for t in var["targets"]):
            var["_exe"] = build(prop_id, cfg, variant=var)
            for t in var["targets"]:
                VARIANT_EXE[(prop_id, t["name"])] = var["_exe"]
    t_built = time.time()

    # 1. regression tier: fixed findings and earlier minimal cases must pass;
    #    known findings must still be recognised as such.
    regress = []
    for e in fixed:
        for p in e.get("replays", []):
            regress.append((os.path.join(VERIF, p), e))
    for p in sorted(glob.glob(os.path.join(VERIF, "replays", "regress", prop_id + "-*.case"))):
        regress.append((p, None))
    n_regress = 0
    for p, e in regress:
        if not os.path.exists(p):
            continue
        n_regress += 1
        rc, out = run_replay(exe, prop_id, p, known_ids, outdir)
        if rc == 1:
            # confirm 3x
            again = [run_replay(exe, prop_id, p, known_ids, outdir)[0] for _ in range(2)]
            if all(a == 1 for a in again):
                violations.append((p, "regression replay fails again" +
                                   (": fixed finding %s has returned" % e["id"] if e else "")))
    for e in known:
        hit = False
        for p in e.get("replays", []):
            ap = os.path.join(VERIF, p)
            others = [k for k in known_ids if k != e["id"]]
            rc, out = run_replay(exe, prop_id, ap, others, outdir)
            if rc == 1:
                hit = True
        e["_probe_hit"] = hit

    # 2. generated tiers
    results = []
    for tgt in cfg["targets"]:
        if tier not in tgt.get("tiers", ["quick", "thorough"]):
            continue
        if tgt.get("mode", "random") == "random" and not tgt.get(tier):
            continue
        res = run_target(exe, prop_id, tgt, tier, seed, known_ids, outdir, replay_dir)
        results.append(res)
        for f in res["failures"]:
            if f["confirmed"]:
                violations.append((f["replay"], "%s %s %s" % (res["target"], f["kind"], f["signature"])))
            else:
                notes.append("unconfirmed %s in %s (%s): not reproducible 3x in isolation, treated as noise; replay %s"
                             % (f["kind"], res["target"], f["signature"], f["replay"]))

    # 2b. variants: the same engine with another sanitizer set / other sources (e.g. ThreadSanitizer)
    for var in cfg.get("variants", []):
        vtargets = [t for t in var["targets"] if tier in t.get("tiers", ["quick", "thorough"]) and t.get(tier)]
        if not vtargets:
            continue
        vexe = var.get("_exe") or build(prop_id, cfg, variant=var)
        for tgt in vtargets:
            res = run_target(vexe, prop_id, tgt, tier, seed, known_ids, outdir, replay_dir)
            if "@" not in res["target"]:
                res["target"] = res["target"] + "@" + var["name"]
            results.append(res)
            for f in res["failures"]:
                if f["confirmed"]:
                    violations.append((f["replay"], "%s %s %s" % (res["target"], f["kind"], f["signature"])))
                else:
                    notes.append("unconfirmed %s in %s (%s): not reproducible 3x in isolation, treated as noise; replay %s"
                                 % (f["kind"], res["target"], f["signature"], f["replay"]))

    # 3. coverage-guided tier (thorough only)
    fuzz_results = []
    if tier == "thorough" and cfg.get("fuzz") and not os.environ.get("VERIF_NO_FUZZ"):
        build(prop_id, cfg, fuzz=True)
        for fz in cfg["fuzz"]:
            fr = run_fuzz(prop_id, cfg, fz, seed, known_ids, outdir, replay_dir)
            # every crash artifact is re-run 3x through the plain harness
            for a in fr["crash_artifacts"]:
                data = open(a, "rb").read()
                rp = os.path.join(replay_dir, "%s-%s-fuzz-%s.case" % (prop_id, fz["name"], os.path.basename(a)[6:18]))
                bytes_replay_file(prop_id, fz["name"], data, rp, "fuzz-artifact")
                rcs = [run_replay(exe, prop_id, rp, known_ids, outdir)[0] for _ in range(3)]
                if all(x == 1 for x in rcs):
                    violations.append((rp, "%s libFuzzer artifact reproduces in the plain harness" % fz["name"]))
                else:
                    notes.append("libFuzzer artifact %s does not reproduce in the plain harness (rc %s)" % (a, rcs))
            if fr["noise_artifacts"]:
                notes.append("%d timeout/oom/slow-unit artifacts ignored as load noise for %s" %
                             (len(fr["noise_artifacts"]), fz["name"]))
            fuzz_results.append(fr)

    # 4. known-finding lines
    hits = {}
    for res in results:
        for k, v in res.get("known_hits", {}).items():
            hits[k] = hits.get(k, 0) + v
    for e in known:
        if e.get("_probe_hit") or hits.get(e["id"], 0) > 0:
            known_lines.append("KNOWN-FINDING: property=%s %s [%s]" % (prop_id, e["what"], e["id"]))
        else:
            notes.append("known finding %s did not reproduce in this run (stale entry?)" % e["id"])

    # 5. evidence
    evaluations = sum(r["evaluations"] for r in results) + sum(r["evaluations"] for r in fuzz_results) + n_regress
    distinct = sum(r["distinct_nontrivial"] for r in results) + sum(len(r["distinct_hashes"]) for r in fuzz_results)
    samples = []
    rules = []
    tdetail = []
    exhaustive_parts = []
    for r in results:
        for s in r["samples"][:3]:
            samples.append({"target": r["target"], "mode": r["mode"], "case": s[:1200]})
        rules.append("%s: %s" % (r["target"], r["nt_rule"]))
        tdetail.append({k: r.get(k, 0) for k in ("target", "mode", "evaluations", "requested", "discards", "work_units",
                                          "nontrivial", "distinct_nontrivial", "exhaustive", "labels",
                                          "known_hits", "slowest_case_us", "wall_s", "incomplete",
                                          "incomplete_why", "failure_events")})
        if r["mode"] == "enum" and r["exhaustive"]:
            exhaustive_parts.append("%s: %d cases (whole bounded space)" % (r["target"], r["evaluations"]))
    for r in fuzz_results:
        for s in r["samples"][:1]:
            samples.append({"target": r["target"], "mode": "fuzz", "case": s[:1200]})
        tdetail.append({"target": r["target"], "mode": "fuzz", "evaluations": r["evaluations"],
                        "nontrivial": r["nontrivial"], "distinct_nontrivial": len(r["distinct_hashes"]),
                        "labels": r["labels"], "wall_s": r["wall_s"],
                        "crash_artifacts": len(r["crash_artifacts"]),
                        "noise_artifacts": len(r["noise_artifacts"])})
    ev = {
        "property_id": prop_id,
        "tier": tier,
        "seed": seed,
        "level": "exploration",
        "coverage": {
            "evaluations": evaluations,
            "distinct_nontrivial": distinct,
            "rule": "Cases are decoded from choice sequences (random: counter-based PRNG keyed by "
                    "VERIF_SEED/property/target/index; enum: mixed-radix index; fuzz: libFuzzer inputs). "
                    "distinct = distinct hash of the decoded case text; non-trivial per target -- " +
                    " || ".join(rules),
            "samples": samples[:24],
            "exhaustive": False,
            "exhaustive_subspaces": exhaustive_parts,
            "targets": tdetail,
            "regression_replays": n_regress,
            "known_finding_hits": hits,
            "known_findings_reported": [l for l in known_lines],
            "notes": notes,
            "repo": REPO,
        },
        "assumptions": cfg.get("assumptions", []) + [
            "host glibc / libstdc++ are the reference where the oracle is differential",
            "AddressSanitizer/UBSan (clang 14) detect the out-of-bounds and lifetime errors the property names",
        ],
        "wall_s": round(time.time() - t_start, 2),
        "violations": len(violations),
        "build_s": round(t_built - t_start, 2),
    }
    # evidence/<ID>.json describes runs against /repo itself; a run against a scratch copy
    # (VERIF_REPO: sensitivity experiments, seeded changes) must not overwrite it
    evdir = os.path.join(VERIF, "evidence") if os.path.realpath(REPO) == "/repo" else os.path.join(BUILD, prop_id, "evidence-scratch")
    os.makedirs(evdir, exist_ok=True)
    with open(os.path.join(evdir, prop_id + ".json"), "w") as f:
        json.dump(ev, f, indent=1)
        f.write("\n")

    for l in known_lines:
        print(l)
    for n in notes:
        log("note: " + n)
    for r in results:
        log("%s/%s %s: %d cases, %d distinct non-trivial, %.1fs%s" %
            (prop_id, r["target"], r["mode"], r["evaluations"], r["distinct_nontrivial"], r["wall_s"],
             " INCOMPLETE(" + r["incomplete_why"] + ")" if r["incomplete"] else ""))
    for r in fuzz_results:
        log("%s/%s fuzz: %d execs, %d distinct non-trivial, %.1fs" %
            (prop_id, r["target"], r["evaluations"], len(r["distinct_hashes"]), r["wall_s"]))
    if violations:
        for p, txt in violations:
            print("VIOLATION property=%s replay=%s" % (prop_id, p))
            log("  " + txt)
        return 1
    # clean run: drop replays/new leftovers of this property that are not violations
    print("OK property=%s tier=%s seed=%d evaluations=%d distinct_nontrivial=%d wall=%.1fs" %
          (prop_id, tier, seed, evaluations, distinct, time.time() - t_start))
    return 0


def coverage(prop_id, props, seed):
    """Measurement, not a check: line/function coverage of the property's anchored files reached by
    the quick tier's generators (at 1/10 of the quick case count), from a separate
    -fprofile-instr-generate build of the same harness. Writes build/<ID>/coverage.txt and prints it."""
    if prop_id not in props:
        print("usage: check coverage <ID>")
        return 2
    cfg = props[prop_id]
    exe = build(prop_id, cfg, cov=True)
    covdir = os.path.join(BUILD, prop_id, "cov")
    shutil.rmtree(covdir, ignore_errors=True)
    os.makedirs(covdir)
    outdir = os.path.join(BUILD, prop_id, "run-cov")
    shutil.rmtree(outdir, ignore_errors=True)
    os.makedirs(outdir)
    os.environ["VPBT_COV_DIR"] = covdir
    for tgt in cfg["targets"]:
        t = dict(tgt)
        if t.get("mode", "random") == "random":
            t["quick"] = max(2000, int(t["quick"]) // 10)
        else:
            t["enum_limit_quick"] = min(int(t.get("enum_limit_quick") or 200000), 200000)
        res = run_target(exe, prop_id, t, "quick", seed, [], outdir, os.path.join(outdir, "replays"))
        log("coverage run %s: %d evaluations" % (t["name"], res.get("evaluations", 0)))
    prof = os.path.join(covdir, "merged.profdata")
    raws = glob.glob(os.path.join(covdir, "*.profraw"))
    if not raws:
        print("no profiles written")
        return 2
    r = sh(["llvm-profdata", "merge", "-sparse", "-o", prof] + raws)
    if r.returncode != 0:
        print(r.stdout)
        return 2
    for x in raws:
        os.unlink(x)
    anchors = []
    for line in open(os.path.join(VERIF, "properties.jsonl")):
        rec = json.loads(line)
        if rec["id"] == prop_id:
            anchors = rec["anchors"].get("files", [])
    files = [os.path.join(REPO, a) for a in anchors if os.path.exists(os.path.join(REPO, a))]
    rep = sh(["llvm-cov", "report", exe, "-instr-profile=" + prof] + files).stdout
    # functions of the anchored files that were never entered
    fn = sh(["llvm-cov", "report", exe, "-instr-profile=" + prof, "-show-functions", "-Xdemangler=c++filt"] + files).stdout
    never = []
    cur = ""
    for line in fn.splitlines():
        if line.startswith("File '"):
            cur = line[6:].rstrip("':")
            continue
        parts = line.split()
        if len(parts) >= 7 and parts[-1].endswith("%") and parts[-2].isdigit():
            # name regions miss cover lines miss cover ...
            name = " ".join(parts[:-6]) if len(parts) > 7 else parts[0]
            try:
                lines_total, lines_miss = int(parts[-3]), int(parts[-2])
            except ValueError:
                continue
            if lines_total and lines_miss == lines_total and name != "TOTAL":
                never.append("%s: %s" % (os.path.relpath(cur, REPO), name))
    text = rep + "\nfunctions of the anchored files never entered by the generators (%d):\n" % len(never) + "\n".join(sorted(set(never))) + "\n"
    with open(os.path.join(BUILD, prop_id, "coverage.txt"), "w") as f:
        f.write(text)
    print(text)
    return 0



def main(argv):
    import props as propmod
    props = propmod.PROPS
    if not argv:
        print(__doc__ or "usage: check <ID> [--tier quick|thorough] [--seed N] [--replay file]")
        return 2
    what = argv[0]
    tier = os.environ.get("VERIF_TIER", "quick")
    seed = int(os.environ.get("VERIF_SEED", "1") or "1")
    replay = None
    i = 1
    while i < len(argv):
        if argv[i] == "--tier":
            tier = argv[i + 1]
            i += 2
        elif argv[i] == "--seed":
            seed = int(argv[i + 1])
            i += 2
        elif argv[i] == "--replay":
            replay = argv[i + 1]
            i += 2
        elif what in ("selftest", "coverage") and i == 1:
            i += 1  # optional property id
        else:
            print("unknown argument", argv[i])
            return 2
    if tier not in ("quick", "thorough"):
        tier = "quick"
    if what == "setup":
        for tool in (CXX, CC, "objcopy", "llvm-symbolizer"):
            if not shutil.which(tool) and not shutil.which(tool + "-14"):
                print("missing tool", tool)
                return 1
        os.makedirs(BUILD, exist_ok=True)
        print("setup ok")
        return 0
    if what == "selftest":
        # sensitivity self-test: every confirmed seeded change under seeded/ (optionally of one
        # property) is applied to a scratch worktree of /repo and the property's quick check must
        # report a VIOLATION there; the worktree is removed again.
        only = argv[1] if len(argv) > 1 and not argv[1].startswith("--") else None
        import tempfile
        missed = []
        total = 0
        for d in sorted(glob.glob(os.path.join(VERIF, "seeded", "*"))):
            pid = os.path.basename(d).split("-")[0]
            patch = os.path.join(d, "patch.diff")
            if (only and pid != only) or not os.path.exists(patch) or pid not in props:
                continue
            total += 1
            w = tempfile.mkdtemp(prefix="igris-selftest-", dir="/tmp")
            os.rmdir(w)
            subprocess.check_call(["git", "-C", "/repo", "worktree", "add", "--detach", "-q", w, "HEAD"])
            try:
                if sh(["git", "-C", w, "apply", patch]).returncode != 0:
                    print("selftest %s: patch no longer applies (skipped)" % os.path.basename(d))
                    total -= 1
                    continue
                rdir = tempfile.mkdtemp(prefix="vr-", dir="/tmp")
                env = dict(os.environ, VERIF_REPO=w, VERIF_REPLAY_NEW=rdir)
                r = sh([os.path.join(VERIF, "check"), pid, "--tier", tier, "--seed", str(seed)], env=env, cwd=VERIF)
                shutil.rmtree(rdir, ignore_errors=True)
                ok = r.returncode == 1 and "VIOLATION" in r.stdout
                print("selftest %s: %s" % (os.path.basename(d), "caught" if ok else "NOT CAUGHT (exit %d)" % r.returncode))
                if not ok:
                    missed.append(os.path.basename(d))
            finally:
                subprocess.call(["git", "-C", "/repo", "worktree", "remove", "--force", w])
        print("selftest: %d seeded changes, %d caught, %d missed %s" % (total, total - len(missed), len(missed), missed))
        return 1 if missed else 0
    if what == "coverage":
        return coverage(argv[1] if len(argv) > 1 else "", props, seed)
    if what == "all":
        rc = 0
        for pid in sorted(props):
            try:
                rc |= check_property(pid, tier, seed, props)
            except BuildError as e:
                print("BUILD-ERROR property=%s\n%s" % (pid, e))
                rc |= 2
        return rc
    if what not in props:
        print("unknown property", what)
        return 2
    if replay:
        tname = ""
        for line in open(replay, errors="replace"):
            if line.startswith("target "):
                tname = line.split(" ", 1)[1].strip()
                break
        var = None
        for v in props[what].get("variants", []):
            if any(t["name"] == tname for t in v["targets"]):
                var = v
        exe = build(what, props[what], variant=var)
        known, _ = load_known(what)
        os.makedirs(os.path.join(BUILD, what, "run"), exist_ok=True)
        rc, out = run_replay(exe, what, replay, [e["id"] for e in known], os.path.join(BUILD, what, "run"))
        print(out)
        return rc
    try:
        return check_property(what, tier, seed, props)
    except BuildError as e:
        # the tree no longer builds against the harness: not a property verdict
        print("BUILD-ERROR property=%s\n%s" % (what, e))
        return 2
