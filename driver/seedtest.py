#!/usr/bin/env python3
"""Confirm a seeded change and run the property's check against it.

usage: seedtest.py <PROP> <seed-out-dir> <name> [--tier quick|thorough] [--seeds 1,2,3]

<seed-out-dir> holds patch.diff, demo.c(pp), build_and_run.sh, README.md as written by a seeding
sub-agent. Everything happens in scratch worktrees of /repo under /tmp which are removed again;
/repo itself is never touched. On success the seed is stored as /verif/seeded/<PROP>-<name>/ with a
meta.json recording what was run and whether the check caught it."""
import json
import os
import shutil
import subprocess
import sys
import tempfile
import time

VERIF = os.path.dirname(os.path.dirname(os.path.abspath(__file__)))


def sh(cmd, **kw):
    return subprocess.run(cmd, stdout=subprocess.PIPE, stderr=subprocess.STDOUT, text=True, errors="replace", **kw)


def worktree():
    d = tempfile.mkdtemp(prefix="igris-seed-", dir="/tmp")
    os.rmdir(d)
    subprocess.check_call(["git", "-C", "/repo", "worktree", "add", "--detach", "-q", d, "HEAD"])
    return d


def drop(d):
    subprocess.call(["git", "-C", "/repo", "worktree", "remove", "--force", d])


def run_tests(w):
    r = sh("cmake -S . -B _build -G Ninja >/dev/null 2>&1 && cmake --build _build 2>&1 | tail -3 && ./_build/igris_test | tail -3",
           shell=True, cwd=w, timeout=1800)
    ok = "Status: SUCCESS" in r.stdout and " 0 failed" in r.stdout
    return ok, r.stdout[-600:]


def run_demo(seed, w):
    script = os.path.join(seed, "build_and_run.sh")
    if not os.path.exists(script):
        return None, "no build_and_run.sh"
    try:
        r = sh(["timeout", "300", "bash", script, w], cwd=seed, timeout=400)
    except subprocess.TimeoutExpired:
        return 124, "timeout"
    return r.returncode, r.stdout[-1500:]


def main():
    prop, seed, name = sys.argv[1:4]
    tier = "quick"
    seeds = [1]
    a = sys.argv[4:]
    while a:
        if a[0] == "--tier":
            tier = a[1]
        elif a[0] == "--seeds":
            seeds = [int(x) for x in a[1].split(",")]
        a = a[2:]
    seed = os.path.abspath(seed)
    meta = {"property": prop, "name": name, "repo_head": sh(["git", "-C", "/repo", "rev-parse", "--short", "HEAD"]).stdout.strip(),
            "ran": []}
    clean = worktree()
    mut = worktree()
    try:
        r = sh(["git", "-C", mut, "apply", os.path.join(seed, "patch.diff")])
        if r.returncode != 0:
            print("patch does not apply:", r.stdout)
            return 2
        meta["files_touched"] = sh(["git", "-C", mut, "diff", "--stat"]).stdout.strip().splitlines()
        ok, out = run_tests(mut)
        meta["existing_tests_pass_with_change"] = ok
        meta["ran"].append("cmake build + ./_build/igris_test in a scratch worktree with the change: %s" % ("all passed" if ok else "FAILED"))
        rc_clean, out_clean = run_demo(seed, clean)
        rc_mut, out_mut = run_demo(seed, mut)
        meta["demo_exit_clean"] = rc_clean
        meta["demo_exit_with_change"] = rc_mut
        meta["demo_output_with_change"] = (out_mut or "")[-600:]
        meta["ran"].append("demonstration on the clean tree: exit %s; with the change: exit %s" % (rc_clean, rc_mut))
        confirmed = ok and rc_clean == 0 and rc_mut not in (0, None)
        meta["confirmed"] = confirmed
        # the property's check against the changed tree
        results = []
        for sd in seeds:
            rdir = tempfile.mkdtemp(prefix="vr-", dir="/tmp")
            env = dict(os.environ, VERIF_REPO=mut, VERIF_REPLAY_NEW=rdir, VERIF_SEED=str(sd))
            if tier == "thorough":
                env["VERIF_NO_FUZZ"] = env.get("VERIF_NO_FUZZ", "")
            t0 = time.time()
            try:
                r = sh([os.path.join(VERIF, "check"), prop, "--tier", tier, "--seed", str(sd)], env=env, cwd=VERIF, timeout=7200)
                out, rc = r.stdout, r.returncode
            except subprocess.TimeoutExpired:
                out, rc = "timeout", 124
            lines = [l for l in out.splitlines() if l.startswith(("VIOLATION", "OK ", "BUILD-ERROR", "KNOWN-FINDING"))]
            sigs = sorted(set(os.path.basename(l.split("replay=")[1]).split("-", 2)[2].rsplit("-", 1)[0] for l in lines if "replay=" in l))
            results.append({"tier": tier, "seed": sd, "exit": rc, "caught": rc == 1, "signatures": sigs[:8], "wall_s": round(time.time() - t0, 1)})
            shutil.rmtree(rdir, ignore_errors=True)
            if rc == 1:
                break
        meta["check_runs"] = results
        meta["caught"] = any(x["caught"] for x in results)
        meta["ran"].append("VERIF_REPO=<changed worktree> ./check %s --tier %s (seeds %s): %s" %
                           (prop, tier, ",".join(str(x["seed"]) for x in results), "VIOLATION" if meta["caught"] else "not caught"))
        dest = os.path.join(VERIF, "seeded", "%s-%s" % (prop, name))
        if confirmed:
            os.makedirs(dest, exist_ok=True)
            for f in os.listdir(seed):
                p = os.path.join(seed, f)
                if os.path.isfile(p) and os.path.getsize(p) < 200000 and not f.endswith((".o", ".out")) and not os.access(p, os.X_OK) or f.endswith(".sh"):
                    shutil.copy(p, os.path.join(dest, f))
            readme = os.path.join(seed, "README.md")
            meta["needs_to_manifest"] = open(readme).read()[:1500] if os.path.exists(readme) else ""
            # keep an earlier "caught" record when a later, weaker run is repeated
            with open(os.path.join(dest, "meta.json"), "w") as f:
                json.dump(meta, f, indent=1)
                f.write("\n")
        print(json.dumps({k: meta[k] for k in ("property", "name", "confirmed", "existing_tests_pass_with_change",
                                                "demo_exit_clean", "demo_exit_with_change", "caught", "check_runs")}, indent=1))
        return 0
    finally:
        drop(clean)
        drop(mut)


if __name__ == "__main__":
    sys.exit(main())
