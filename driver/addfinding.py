#!/usr/bin/env python3
"""Record a finding in known_findings.json (development-time tool; never run by a check).
usage: addfinding.py fixed|known <id> <property> <target> <commit-or-> <what> <replay>..."""
import json, os, shutil, sys
VERIF = os.path.dirname(os.path.dirname(os.path.abspath(__file__)))
status, fid, prop, target, commit, what = sys.argv[1:7]
replays = sys.argv[7:]
path = os.path.join(VERIF, "known_findings.json")
data = json.load(open(path))
dest = os.path.join(VERIF, "replays", status)
os.makedirs(dest, exist_ok=True)
rel = []
for i, r in enumerate(replays):
    name = "%s%s.case" % (fid, "" if len(replays) == 1 else "-%d" % (i + 1))
    shutil.copy(r, os.path.join(dest, name))
    rel.append("replays/%s/%s" % (status, name))
data["entries"] = [e for e in data["entries"] if e["id"] != fid]
e = {"id": fid, "property": prop, "target": target, "status": status, "what": what, "replays": rel}
if status == "fixed":
    e["commit"] = commit
    e["line"] = "fixed: property=%s %s %s" % (prop, commit, what)
data["entries"].append(e)
json.dump(data, open(path, "w"), indent=1)
open(path, "a").write("\n")
print("recorded", fid, rel)
