import vpdriver

PROP = {
    "ready": True,
    "harness": ["harness/C11.cpp"],
    "units": vpdriver.libc_units(["stdlib/strtol.c", "stdlib/strtoul.c", "stdlib/strtoll.c", "stdlib/strtoull.c",
                                  "inttypes/strtoimax.c", "stdlib/atol.c", "stdlib/qsort.c", "stdlib/bsearch.c",
                                  "stdlib/rand.c"])
             + vpdriver.libc_units(["inttypes/strtoumax.c"], ["-include", "{REPO}/igris/util/errno.h"]),
    "targets": [
        {"name": "strto", "quick": 3000000, "thorough": 40000000, "maxlen": 96},
        {"name": "strto_seq", "quick": 1500000, "thorough": 15000000, "maxlen": 200},
        {"name": "qsort", "quick": 400000, "thorough": 6000000, "maxlen": 200},
        {"name": "bsearch", "quick": 1000000, "thorough": 15000000, "maxlen": 160},
        {"name": "qsort_diffcmp", "quick": 400000, "thorough": 5000000, "maxlen": 200},
        {"name": "qsort_large", "quick": 8000, "thorough": 150000, "maxlen": 40},
        {"name": "bsearch_large", "quick": 20000, "thorough": 300000, "maxlen": 40},
    ],
    "uchar": ["strto"],
    "fuzz": [{"name": "strto", "secs": 60, "maxlen": 96}, {"name": "qsort", "secs": 30, "maxlen": 200}],
}

TEXT = {
    "technique": "property-based testing: differential against host glibc strto*/ato* over a numeral grammar steered to prefixes and overflow boundaries; qsort checked by sorted-and-permutation, bsearch by found-iff-present with a heterogeneous comparator; ASan/UBSan; libFuzzer in thorough",
    "level": "Generated-input exploration: millions of numeral texts (white space, sign, 0x/0 prefixes, digits around every base's alphabet, magnitudes within +-40 of each type limit and far beyond, arbitrary tails) for bases 0 and 2..36 are parsed by the six strto* shims, atoi and atol and compared with the host functions on value and end pointer; qsort over arrays 0..80 x element sizes 1..32 with duplicate-rich keys must leave an ordered permutation; bsearch over sorted arrays (including the empty, zero-size one) must return an equal element iff one exists, call compar(key, element) and never hand out a pointer outside the array.  Separate targets sort / search arrays of 250..262, 81..1100 and 65530..65545 elements and elements of 250..262 bytes (random, ascending, descending, all-equal keys). Nothing is established beyond the explored inputs.",
    "note": "Trusted: host glibc 2.36 strto*/atoi/atol as the ISO C reference; errno is not compared; atoi/atol are only given representable values (ISO leaves the rest undefined); clang ASan/UBSan.",
}
