PROP = {
    "harness": ["harness/C20.cpp"],
    "units": [{"src": "R:igris/container/dlist.cpp"}, {"src": "R:igris/sync/syslock_mutex.cpp"},
              {"src": "R:igris/osinter/wait.cpp"}, {"src": "R:igris/osinter/wait-linux.cpp"}],
    "san_extra": ["-fno-sanitize=null,object-size"],  # offsetof idiom in member.h / memberxx.h
    "ldflags": ["-rdynamic", "-ldl", "-lpthread"],
    "targets": [
        {"name": "sched_enum", "mode": "enum", "hang_s": 300},
        {"name": "sched", "quick": 60000, "thorough": 2000000, "maxlen": 200, "hang_s": 30},
    ],
}
