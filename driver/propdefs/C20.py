PROP = {
    "harness": ["harness/C20.cpp"],
    "units": [{"src": "R:igris/container/dlist.cpp"}, {"src": "R:igris/sync/syslock_mutex.cpp"},
              {"src": "R:igris/osinter/wait.cpp"}, {"src": "R:igris/osinter/wait-linux.cpp"}],
    "san_extra": ["-fno-sanitize=null,object-size"],  # offsetof idiom in member.h / memberxx.h
    "ldflags": ["-rdynamic", "-ldl", "-lpthread"],
    "targets": [
        {"name": "sched_enum", "mode": "enum", "hang_s": 300},
        {"name": "event_timed", "quick": 3000, "thorough": 20000, "maxlen": 8, "workers": 4},
        {"name": "sched", "quick": 60000, "thorough": 2000000, "maxlen": 200, "hang_s": 30},
        {"name": "sched_events", "quick": 40000, "thorough": 1000000, "maxlen": 200, "hang_s": 30},
    ],
    # race-detector tier: same programs, free-running threads, ThreadSanitizer instead of ASan/UBSan
    "variants": [{
        "name": "tsan",
        "harness": ["harness/C20_tsan.cpp"],
        "san": ["-fsanitize=thread"],
        # the race detector instruments every access anyway: -O1 keeps the free-running runs fast
        "units": [{"src": "R:igris/container/dlist.cpp", "opt": "-O1"}, {"src": "R:igris/sync/syslock_mutex.cpp", "opt": "-O1"},
                  {"src": "R:igris/osinter/wait.cpp", "opt": "-O1"}, {"src": "R:igris/osinter/wait-linux.cpp", "opt": "-O1"}],
        "ldflags": ["-lpthread"],
        "targets": [{"name": "tsan", "quick": 40000, "thorough": 600000, "maxlen": 200, "hang_s": 20, "workers": 8}],
    }],
}

TEXT = {
    "technique": "schedule exploration with a controlled scheduler: the harness interposes the pthread mutex/condvar and POSIX semaphore functions, runs one thread at a time and takes every scheduling decision from the generated choice sequence (random with few pre-emptions) or from a stateless depth-first search (every schedule of small programs within a pre-emption bound); history invariants checked at every scheduling point; plus a ThreadSanitizer tier on free-running threads",
    "level": "Schedule exploration: (1) 16 small programs (2-3 threads x <= 5 operations: wait/unwait_one/unwait_all with and without priority, nested system_lock/unlock, system_lock_save/restore, safe_queue push and size()+pop()) are run under EVERY schedule with <= 3 pre-emptions (<= 4 in thorough; 1 / 2 for the two programs with three threads of which two park) and <= 1 injected spurious condition-variable wake-up, tens of thousands of schedules, at the granularity of synchronisation operations; (2) tens of thousands of random programs (2-4 threads x <= 6 operations, mixed / queue- / wait- / lock-focused) under random schedules. The scheduler models mutexes, condition variables (wake-ups only by signal/broadcast, plus up to one or two deliberately injected spurious returns per execution, as POSIX allows) and semaphores exactly, so blocking is exact: after everything still queued has been woken, any unfinished thread is a detected lost wake-up or deadlock. At every scheduling point the wait queues may only have changed by the running thread's own enqueue (back, or front with priority) or by its unwait taking the front; a waiter must return iff an unwait removed it, once, with that call's future; unwait_one removes at most one; the system lock has one owner at a time across nesting and save/restore and its counter equals the nesting depth; nothing may be notified after its owner destroyed it; safe_queue pops equal pushes with per-producer order. (3) The same random programs run on free-running threads under ThreadSanitizer (3-6 runs each with generated yields); any report is a failure. Schedules beyond the explored bound and interleavings finer than synchronisation operations are only sampled (tier 3). No liveness claim beyond deadlock-at-quiescence. A further target schedules threads over igris::event (wait(), wait(1 h), signal()) and a safe_queue built from an initializer list; the scheduler counts the threads between sem_wait and sem_post of the queue's semaphore (more than one is a violation). The event programs also park waiters through waiter_delegate_init with an object of the caller's.",
    "note": "Trusted: the scheduler's model of pthread mutex / condvar / semaphore semantics (FIFO choice of the signalled waiter, spurious wake-ups only where injected, no timeouts), libstdc++'s std::mutex / std::condition_variable mapping onto those calls, ThreadSanitizer. wait_current_schedee is only called with the system lock released (parking while holding it can never be woken); size()+pop() only from a single consumer thread.",
}
