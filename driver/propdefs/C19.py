PROP = {
    "ready": True,
    "harness": [
        "harness/C19.cpp",
        # pathops.h is header-only; -O0 keeps path_is_single_dot's unconditional
        # load of path[1] where the source has it (an optimiser may sink it)
        {"src": "V:harness/C19_path.cpp", "opt": "-O0"},
    ],
    "units": [
        {"src": "R:igris/util/string.cpp"},
        {"src": "R:igris/string/replace.cpp"},
        {"src": "R:igris/string/replace_substrings.c"},
        {"src": "R:igris/string/memmem.c"},
        {"src": "R:igris/shell/mshell.c"},
        {"src": "R:igris/shell/rshell.c"},
    ],
    "targets": [
        {"name": "split_enum", "mode": "enum"},
        {"name": "ws_enum", "mode": "enum"},
        {"name": "cmdargs_enum", "mode": "enum"},
        {"name": "search_enum", "mode": "enum"},
        {"name": "shell_enum", "mode": "enum"},
        {"name": "path_enum", "mode": "enum"},
        {"name": "split", "quick": 1200000, "thorough": 12000000, "maxlen": 160},
        {"name": "join", "quick": 400000, "thorough": 4000000, "maxlen": 96},
        {"name": "trim", "quick": 500000, "thorough": 5000000, "maxlen": 128},
        {"name": "replace", "quick": 1000000, "thorough": 10000000, "maxlen": 128},
        {"name": "memmem", "quick": 800000, "thorough": 8000000, "maxlen": 128},
        {"name": "cmdargs", "quick": 1000000, "thorough": 10000000, "maxlen": 128},
        {"name": "argvc", "quick": 1200000, "thorough": 12000000, "maxlen": 160},
        {"name": "argvc_bytes", "quick": 600000, "thorough": 6000000, "maxlen": 200},
        {"name": "memmem_bytes", "quick": 500000, "thorough": 5000000, "maxlen": 120},
        {"name": "shell", "quick": 1200000, "thorough": 12000000, "maxlen": 128},
        {"name": "shell_nested", "quick": 300000, "thorough": 3000000, "maxlen": 64},
        {"name": "creader", "quick": 600000, "thorough": 6000000, "maxlen": 160},
        {"name": "path", "quick": 1200000, "thorough": 12000000, "maxlen": 96},
        {"name": "path_long", "quick": 200000, "thorough": 2000000, "maxlen": 96},
        {"name": "text_long", "quick": 600000, "thorough": 6000000, "maxlen": 256},
    ],
    "uchar": ["split", "trim", "argvc", "argvc_bytes", "memmem_bytes", "cmdargs", "shell", "memmem", "replace"],
    "fuzz": [
        {"name": "cmdargs", "secs": 40, "maxlen": 128},
        {"name": "shell", "secs": 40, "maxlen": 128},
        {"name": "path", "secs": 40, "maxlen": 96},
    ],
}

TEXT = {
    "technique": "property-based testing against definitional references (maximal-run split, split(join(t))==t, "
                 "strip-{SP,TAB,CR,LF} trim, left-to-right non-overlapping replace, std::search, white-space "
                 "word lists for argvc and the four shell dispatchers with recording handlers, node-list model "
                 "for the path helpers), bounded exhaustive enumeration of all short strings over reduced "
                 "alphabets, ASan/UBSan on exactly-sized heap blocks for the bounds clauses, libFuzzer in thorough",
    "level": "Generated-input exploration: each routine is compared with a reference written from the property "
             "statement on random strings up to 64 bytes over alphabets that contain the delimiters, quotes, "
             "slashes, dots and NUL, and on every string up to length 6 (quick) / 8 (thorough) over a reduced "
             "alphabet per function; (ptr,size) interfaces get an exactly-sized non-terminated heap block and "
             "C-string interfaces one that ends with the terminator, so one byte read or written outside is a "
             "sanitizer failure. The shells run with recording handlers, tables of 0..4 commands and lines that "
             "are empty, blank, hit, miss, prefix-of-command and longer than 10 words. A separate target runs split / trim / replace / memmem / split_cmdargs / argvc / creader on strings of 250..1100 characters. Absence of defects beyond "
             "the explored inputs is not established. The argv splitters are also given words of arbitrary bytes 0x01..0xFF, and a quarter of the shell dispatches pass no place for the handler's return value. join(first, last, delim, prefix, postfix) and igris_memmem over all byte values are exercised as well.",
    "note": "Trusted: the harness' reference implementations, clang ASan/UBSan, and a stack pre-fill that makes the "
            "dispatchers' read of a never-written argv[0] fault deterministically (no MemorySanitizer build). "
            "split_cmdargs is compared exactly only on inputs whose quoting the shipped tests define; creader is "
            "checked for bounds only. Known findings (see known_findings.json) are excluded by giving the routine "
            "one readable byte after the buffer, or by skipping the call, for exactly the failing input class.",
}
