import vpdriver

STRING = ["memchr", "memcmp", "memcpy", "memmove", "memrchr", "memset", "strcasecmp", "strcasestr", "strcat",
          "strchr", "strchrnul", "strcmp", "strcpy", "strcspn", "strdup", "strlcpy", "strlen", "strlwr",
          "strncasecmp", "strncat", "strncmp", "strncpy", "strndup", "strnlen", "strpbrk", "strrchr", "strspn",
          "strstr", "strtok", "strupr"]

# one random target per function (strtok.c holds strtok and strtok_r)
FUNCS = ["memcpy", "memmove", "memset", "memcmp", "memchr", "memrchr", "strlen", "strnlen", "strcpy", "strncpy",
         "strlcpy", "strcat", "strncat", "strcmp", "strncmp", "strcasecmp", "strncasecmp", "strchr", "strrchr",
         "strchrnul", "strstr", "strcasestr", "strspn", "strcspn", "strpbrk", "strtok", "strtok_r", "strdup",
         "strndup", "strlwr", "strupr"]

QUICK = 350000
THOROUGH = 1000000

PROP = {
    "ready": True,
    "harness": ["harness/C08.cpp"],
    "units": vpdriver.libc_units(["string/%s.c" % f for f in STRING]) + [
        # the header route: compiled against the bundled headers, bound to the shim's functions through the igc_ group
        {"src": "V:harness/C08_hdr.c", "group": "igc_", "opt": "-O0", "no_repo_inc": True,
         "flags": ["-fno-builtin", "-I{REPO}/compat/libc/include", "-I{REPO}", "-Wno-everything"]}],
    "targets": [{"name": "str_enum", "mode": "enum"}]
               + [{"name": f, "quick": QUICK, "thorough": THOROUGH, "maxlen": 400} for f in FUNCS]
               + [{"name": "all", "quick": 0, "thorough": 2000000, "maxlen": 400},
                  {"name": "via_header", "quick": 400000, "thorough": 4000000, "maxlen": 96},
                  {"name": "needle_scan", "quick": 300000, "thorough": 3000000, "maxlen": 64},
                  {"name": "span_soak", "quick": 400, "thorough": 5000, "maxlen": 64},
                  {"name": "all_long", "quick": 600000, "thorough": 6000000, "maxlen": 400}],
    "uchar": ["all_long"],
    "fuzz": [{"name": "all", "secs": 90, "maxlen": 400}],
}

TEXT = {
    "technique": "property-based testing: differential against host glibc (definitional references for strlcpy, "
                 "strlwr, strupr, strdup, strndup), one generator per function, exhaustive enumeration of all array "
                 "pairs over {00,'a','A',FF}, ASan/UBSan with exactly-sized blocks for read/write bounds, libFuzzer "
                 "over the multiplexed target in thorough",
    "level": "Generated-input exploration: each of the 31 functions of compat/libc/string is called through its "
             "igc_-prefixed object on tens of thousands (thorough: a million) generated argument tuples - contents "
             "over 0..255 with 00/7F/80/FF and both letter cases over-weighted, lengths 0..96 (1k thorough), every "
             "start offset 0..15, every memmove overlap distance, n below/equal/above the string length, "
             "unterminated n-byte arrays, strtok(_r) call sequences with changing delimiter sets - and compared with "
             "the host function (return value normalised to sign / offset, destination compared byte for byte with "
             "32-byte canaries on both sides). Read-only operands end exactly at the end (backward scanners: also "
             "start at the start) of their heap block, so one byte of over-read is a sanitizer failure. All pairs of "
             "5-byte arrays over {00,'a','A',FF} (6-byte in thorough) are enumerated through every function and "
             "every n. A separate target runs all functions with operand lengths 250..262 / 0..300 / 508..520 / 0..1100. Absence of defects beyond the explored inputs is not established. A further target calls 27 of the functions through the names the bundled <string.h> / <strings.h> provide (a C unit compiled against compat/libc/include), with side-effecting argument expressions whose evaluations are counted. A further target places one needle in 200..1300 bytes of filler at multiples of 64..512 from either end for the five scanning functions.",
    "note": "Trusted: host glibc 2.36 string functions in the C locale as the reference, the three-line reference "
            "definitions of strlcpy (BSD: returns strlen(src)), strlwr/strupr (ASCII letters only), clang ASan/UBSan. "
            "The shim is compiled against the host headers but with its own ctype.h (tolower from igris/util/ctype.h). "
            "Not covered: calls after strtok(_r) has returned NULL with a different delimiter set (the standards "
            "leave the resume point open), operands longer than 1 KiB, allocation failure in strdup/strndup.",
}
