import vpdriver
STRING = ["memchr","memcmp","memcpy","memmove","memrchr","memset","strcasecmp","strcasestr","strcat","strchr",
          "strchrnul","strcmp","strcpy","strcspn","strdup","strlcpy","strlen","strlwr","strncasecmp","strncat",
          "strncmp","strncpy","strndup","strnlen","strpbrk","strrchr","strspn","strstr","strtok","strupr"]
PROP = {
    "harness": ["harness/C08.cpp"],
    "units": vpdriver.libc_units(["string/%s.c" % f for f in STRING]),
    "targets": [
        {"name": "memrchr", "quick": 20000, "thorough": 200000, "maxlen": 64},
    ],
}
