PROP = {
    "harness": ["harness/C02.cpp", "harness/C02_portable.cpp", "harness/C02_embedded.cpp"],
    "units": [],
    "targets": [
        {"name": "vector_int", "quick": 400000, "thorough": 8000000, "maxlen": 256},
        {"name": "vector_tracked", "quick": 300000, "thorough": 6000000, "maxlen": 256},
        {"name": "portable_vector_int", "quick": 300000, "thorough": 6000000, "maxlen": 256},
        {"name": "portable_vector_tracked", "quick": 200000, "thorough": 4000000, "maxlen": 256},
        {"name": "vector_cmp", "quick": 300000, "thorough": 3000000, "maxlen": 48},
        {"name": "portable_vector_cmp", "quick": 200000, "thorough": 2000000, "maxlen": 48},
        {"name": "vector_int_big", "quick": 150000, "thorough": 1000000, "maxlen": 256},
        {"name": "vector_tracked_big", "quick": 100000, "thorough": 500000, "maxlen": 256},
        {"name": "portable_vector_tracked_big", "quick": 60000, "thorough": 300000, "maxlen": 256},
        {"name": "vector_nested", "quick": 120000, "thorough": 1500000, "maxlen": 256},
        {"name": "portable_vector_nested", "quick": 80000, "thorough": 1000000, "maxlen": 256},
        {"name": "flat_hosted_cmp", "quick": 100000, "thorough": 2000000, "maxlen": 200},
        {"name": "flat_hosted", "quick": 150000, "thorough": 3000000, "maxlen": 200},
        {"name": "flat_embedded", "quick": 150000, "thorough": 3000000, "maxlen": 200},
    ],
    "fuzz": [{"name": "vector_tracked", "secs": 60, "maxlen": 256}, {"name": "flat_embedded", "secs": 40, "maxlen": 200}],
}

TEXT = {
    "technique": "stateful (model-based) property-based testing: operation histories against std::vector / std::map / std::set in lock step, a lifetime-tracking element type (live-set ledger) for exactly-once construction/destruction and use of dead objects, ASan/UBSan for bounds, libFuzzer in thorough",
    "level": "Generated-history exploration: histories of up to 50 operations over three vectors (push/emplace_back, insert and emplace at every position, range insert from another container, erase(pos), erase(range), pop_back, resize, reserve, clear, insert_sorted, copy/move construction and assignment incl. self-assignment, initializer-list / iterator-range / count construction, == != <, at() in and out of range) are applied to igris::vector and to its std_portable.h twin, with int, with an element type that itself holds a vector of the implementation under test (so that element moves and assignments run the vector's own, self-assignment included), and with an element type that owns heap memory and reports construction over a live object, assignment to / move from / read of / destruction of a dead one, leaks and imbalance; after every operation size, capacity >= size, the element sequence (index, iteration, data, front/back), comparison results and thrown exceptions must equal std::vector's. flat_map / flat_set (over the host vector and over igris::vector, as in a bare-metal build; int and std::string keys/values) are driven with insert, emplace, operator[], clear, copy/assign and initializer lists with duplicate keys and must agree with std::map / std::set on size, count, find and at (incl. out_of_range) for every key of the universe.  Separate targets let resize / reserve / count construction jump to 250..262, 41..600, 1000..1100 (and, for int elements, 65530..65545) elements. Nothing is established beyond the explored histories. flat_set / flat_map are also instantiated with std::greater and flat_set with a case-insensitive order; insert_sorted's returned position is compared with upper_bound.",
    "note": "Trusted: host std::vector/std::map/std::set as references; a moved-from (or self-moved) vector may hold anything valid, the reference adopts it; iteration order of flat_map is not compared; operations that do not instantiate in the std_portable twin (host-iterator range constructor) are skipped; const operator[] of flat_map (returns a reference to a temporary) is not exercised because std::map has no counterpart.",
}
