import vpdriver

# printf_impl.c and the sprintf shim are compiled like a bare-metal build would: their
# atoi/strlen/ctype are the shim's own (same igc_ group), math stays the host's.
PRINTF_UNITS = vpdriver.libc_units(["stdio/sprintf.c", "stdio/fdprintf.c", "stdio/fdputc.c", "stdlib/atol.c", "string/strlen.c"]) + [
    {"src": "R:igris/util/printf_impl.c", "group": "igc_", "flags": vpdriver.LIBC_FLAGS},
]

PROP = {
    "ready": True,
    "harness": ["harness/C06.cpp"],
    "units": PRINTF_UNITS,
    "targets": [
        {"name": "printf_grid", "mode": "enum", "tiers": ["thorough"]},
        {"name": "printf_grid", "mode": "enum", "tiers": ["quick"], "enum_limit_quick": 0},
        {"name": "printf_int", "quick": 1500000, "thorough": 20000000, "maxlen": 160},
        {"name": "printf_reentrant", "quick": 400000, "thorough": 5000000, "maxlen": 160},
        {"name": "printf_wide", "quick": 300000, "thorough": 4000000, "maxlen": 64},
    ],
    "uchar": ["printf_int"],
    "fuzz": [{"name": "printf_int", "secs": 90, "maxlen": 160}],
}

TEXT = {
    "technique": "property-based testing: grammar-generated format strings with typed variadic arguments, differential against host snprintf (output, return value, callback count), exhaustive flag/width/precision/length/conversion/value grid, exact %s blocks under ASan, per-case watchdog for termination, libFuzzer in thorough",
    "level": "Generated-input exploration: formats built from the ISO-defined directive grammar (flags - + space # 0, literal and * widths/precisions incl. negative * values, hh h l ll j z t, conversions d i u o x X c s p %, literal text) with boundary-biased arguments of the exact promoted type are run through __printf (callback capture) and the vsprintf shim and compared byte for byte with glibc snprintf; %p is judged by shape/parse-back/width. A 800k-point grid is enumerated completely. Hangs are violations (watchdog).  A separate target uses one directive with width and/or precision of 250..262, 41..600 or 1000..1100 and %s arguments of up to 300 characters. Nothing is established beyond the explored inputs. The shim's snprintf is called with a buffer of exactly the ISO length + 1.",
    "note": "Trusted: glibc snprintf as the ISO C reference; combinations ISO leaves undefined (e.g. # with d, 0 with s, precision with c) are not generated; at most 4 variadic arguments per call; clang ASan/UBSan.",
}
