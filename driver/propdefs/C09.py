PROP = {
    "ready": True,
    # two TUs: serialize/stdtypes.h (archive system) and serialize/serialize_archive.h (serializer20) both define
    # igris::serialize(const T&); everything igris-side is header-only
    "harness": ["harness/C09.cpp", "harness/C09_s20.cpp"],
    "units": [],
    "targets": [
        {"name": "archive_golden", "mode": "enum"},
        {"name": "s20_golden", "mode": "enum"},
        {"name": "archive", "quick": 1200000, "thorough": 9000000, "maxlen": 768},
        {"name": "s20", "quick": 500000, "thorough": 3000000, "maxlen": 768},
        {"name": "archive_raw", "quick": 300000, "thorough": 3000000, "maxlen": 96},
        {"name": "archive_longdouble", "quick": 200000, "thorough": 2000000, "maxlen": 96},
        {"name": "archive_defaults", "quick": 200000, "thorough": 2000000, "maxlen": 400},
        {"name": "s20_defaults", "quick": 100000, "thorough": 1000000, "maxlen": 400},
        {"name": "s20_trunc", "quick": 120000, "thorough": 1500000, "maxlen": 384},
    ],
    "fuzz": [
        {"name": "s20_trunc", "secs": 60, "maxlen": 384},
        {"name": "archive", "secs": 60, "maxlen": 768},
    ],
}

TEXT = {
    "technique": "property-based testing over a compile-time family of types instantiated by one template "
                 "(35 types for archive.h+stdtypes.h, the 23 of them serializer.h supports): round trip with "
                 "bitwise float comparison, sequential decoding of concatenated encodings (reader position == bytes "
                 "produced), byte identity with an independent reference encoder written from the documented layout, "
                 "a committed golden-bytes table enumerated exhaustively, and every truncation point of an encoding "
                 "decoded through deserialize_buffer_storage from an exactly-sized heap block under ASan/UBSan; "
                 "libFuzzer on the truncation and archive targets in thorough",
    "level": "Generated-input exploration: for each type of the family (all fixed-width integers, float, double, "
             "std::string, igris::buffer/string_view/char* forms, vectors of scalars, strings, vectors, pairs and "
             "structs, pairs, tuples of 1-4 members, three maps, four reflectable structs one of which nests a vector "
             "of another; depth <= 3) hundreds of thousands of value pairs are generated - boundary-biased integers, "
             "all float bit patterns including NaN payloads and denormals, strings with embedded NULs, container "
             "sizes 0..20 with a tail at 255..65535 (the 16-bit limits) - and checked for deserialize(serialize(v)) "
             "== v, for consumed == produced by decoding serialize(a)+serialize(b) with one reader, and for byte "
             "identity with the reference encoder (scalars native image, u16 length/count, members in order, maps in "
             "key order); inputs sit in exactly-sized heap blocks so an over-read is a sanitizer failure. 39 (archive) "
             "and 22 (serializer20) hand-written golden encodings are checked in both directions on every run. The "
             "truncation target decodes every prefix 0..n of an encoding through the bounded storage reader and drives "
             "load()/loads() with requests larger than what is left. Absence of defects beyond the explored inputs is "
             "not established. Empty igris::buffer values without storage are serialized as well. One view object is re-used for consecutive fields of equal length that agree up to a NUL.",
    "note": "Trusted: the harness' reference encoder (itself held to the hand-written golden bytes), clang ASan/UBSan, "
            "little-endian host for the golden table. Outside the family because they do not compile: archive system "
            "- char, bool, long long, unsigned long long, vector<bool> (no load overload / no data()); serializer20 - "
            "std::string, pair, tuple, map, vector<bool> (binary_protocol has no dump/load for them), so strings, "
            "pairs, tuples and maps are checked in the archive system only. long double (padded 16-byte image) is "
            "left out. The archive system's binary_buffer_reader is unbounded by design, so truncation is checked for "
            "deserialize_buffer_storage only, as the statement says; a truncated decode may return any value (it "
            "reads uninitialised locals as counts - the harness zeroes the stack first to keep that cheap and "
            "deterministic). Sizes above 65535 and unordered containers are outside the statement. Known findings "
            "(known_findings.json) skip exactly the values that contain a non-empty vector of non-scalar elements "
            "(C09-vector-raw-dump) or a vector of scalars whose payload exceeds 65535 bytes (C09-vector-bytes-u16), "
            "archive system only.",
}
