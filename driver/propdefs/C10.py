_LIN = ["-include", "{VERIF}/harness/C10_linheap_pre.h", "-Wno-everything"]

PROP = {
    "ready": True,
    "harness": ["harness/C10.cpp"],
    "units": [
        # the heap shim, entry points renamed lin_malloc/lin_free/lin_realloc by the pre-include
        {"src": "R:compat/mem/lin_malloc.cpp", "flags": _LIN},
        {"src": "R:compat/mem/lin_realloc.cpp", "flags": _LIN},
        # what the shim calls: system_lock/system_unlock and critical_context_level
        {"src": "R:igris/sync/syslock_mutex.cpp"},
        {"src": "R:igris/sync/critical_context.c"},
    ],
    "targets": [
        {"name": "heap_enum", "mode": "enum"},
        {"name": "heap", "quick": 100000, "thorough": 3000000, "maxlen": 1400},
        {"name": "heap_huge", "quick": 40000, "thorough": 600000, "maxlen": 64},
        {"name": "pool_c", "quick": 100000, "thorough": 3000000, "maxlen": 320},
        {"name": "pool_cxx", "quick": 100000, "thorough": 3000000, "maxlen": 320},
        {"name": "object_pool", "quick": 100000, "thorough": 3000000, "maxlen": 320},
        {"name": "pool_c_two_zones", "quick": 60000, "thorough": 1000000, "maxlen": 320},
        {"name": "pool_cxx_reinit", "quick": 60000, "thorough": 1000000, "maxlen": 320},
        {"name": "pool_c_big", "quick": 30000, "thorough": 200000, "maxlen": 320},
        {"name": "pool_cxx_big", "quick": 20000, "thorough": 200000, "maxlen": 320},
        {"name": "pool_c_huge", "quick": 1500, "thorough": 20000, "maxlen": 64},
        {"name": "pool_cxx_huge", "quick": 1500, "thorough": 20000, "maxlen": 64},
    ],
    "fuzz": [{"name": "heap", "secs": 90, "maxlen": 1400}, {"name": "pool_cxx", "secs": 30, "maxlen": 320}],
}

TEXT = {
    "technique": "stateful property-based testing: random alloc/free/realloc histories against a shadow map of the live "
                 "blocks {address, size, fill pattern} for pool_head, igris::pool, static_object_pool<Tracked,N> and "
                 "the lin_malloc/realloc/free heap (compiled from the tree with its entry points renamed lin_*, on a "
                 "harness-provided arena), bounded exhaustive enumeration of short heap histories, igris' own asserts "
                 "and ASan/UBSan (red zones around arena and zones) as additional oracles, libFuzzer in thorough",
    "level": "Generated-input exploration: every block handed out is checked to lie inside its arena/zone, on a cell "
             "boundary (pools), pointer-aligned and disjoint from every live block; it is filled with a "
             "position-dependent pattern that is verified before its free/realloc and at the end of the history; "
             "realloc must keep min(old,new) bytes; pools must serve exactly `capacity` requests before NULL, serve "
             "again after a free, and report pool_avail()/avail()/room() == capacity - live after every step, with "
             "cell_is_allocated()/iteration agreeing with the model; Tracked constructions and destructions must "
             "balance; after the final free-all (LIFO/FIFO/random) the heap must be back at __brkval == arena start "
             "with an empty free list. Heap histories: up to 300 steps, sizes 0..4096 with the boundary sizes of the "
             "statement, at most 90 live blocks; in addition every history of length <= 5 over 4 block slots and of "
             "length 6 over 3 slots (thorough: <= 6 and 7) with sizes {8,64,200,0} is run. Pools are also run with capacities 250..262, 33..300, 508..516 and the object pool with over-aligned (32/64) and odd-sized (9/12/20 byte) element types. Absence of defects beyond "
             "the explored histories is not established. Pools of 3000..70000 cells are driven with allocation / free bursts (cells inside the zone, never handed out twice, free count after every burst).",
    "note": "Trusted: the harness' shadow model, clang ASan/UBSan, the host's __WORDSIZE (64: the shim rounds every "
            "request up to a multiple of 64 bytes here, so only that granule is exercised). The shim has no "
            "end-of-arena check; the generator keeps live demand below half of the 256 KiB arena and never asks for "
            "more than is left above the break. A zero-size request may answer NULL. Known findings (see "
            "known_findings.json) are handled narrowly: realloc(p,0) of a non-empty block is not issued; the "
            "allocation counter is put back after a shrinking realloc lowered it (the shrink path itself stays under "
            "test); igris::pool::get() on an exhausted pool is only issued as the very last request, after which "
            "room() is no longer compared. Not covered: concurrent use (syslock), igris::pool::put of foreign "
            "pointers, arena exhaustion.",
}
