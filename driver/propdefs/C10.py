_LIN = ["-include", "{VERIF}/harness/C10_linheap_pre.h", "-Wno-everything"]

PROP = {
    "ready": True,
    "harness": ["harness/C10.cpp"],
    "units": [
        # the heap shim, entry points renamed lin_malloc/lin_free/lin_realloc by the pre-include
        {"src": "R:compat/mem/lin_malloc.cpp", "flags": _LIN},
        {"src": "R:compat/mem/lin_realloc.cpp", "flags": _LIN},
        # what the shim calls: system_lock/system_unlock and critical_context_level
        {"src": "R:igris/sync/syslock_mutex.cpp"},
        {"src": "R:igris/sync/critical_context.c"},
    ],
    "targets": [
        {"name": "heap_enum", "mode": "enum"},
        {"name": "heap", "quick": 100000, "thorough": 3000000, "maxlen": 1400},
        {"name": "pool_c", "quick": 100000, "thorough": 3000000, "maxlen": 320},
        {"name": "pool_cxx", "quick": 100000, "thorough": 3000000, "maxlen": 320},
        {"name": "object_pool", "quick": 100000, "thorough": 3000000, "maxlen": 320},
    ],
    "fuzz": [{"name": "heap", "secs": 90, "maxlen": 1400}, {"name": "pool_cxx", "secs": 30, "maxlen": 320}],
}

TEXT = {
    "technique": "TBD",
    "level": "TBD",
    "note": "TBD",
}
