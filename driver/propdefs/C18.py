PROP = {
    "ready": True,
    "harness": ["harness/C18.cpp"],
    # hexascii.c / hexascii_string.cpp / base64.cpp include only headers
    # (igris/compiler.h, igris/util/access.h, igris/buffer.h) and host libc.
    "units": [
        {"src": "R:igris/util/hexascii.c"},
        {"src": "R:igris/string/hexascii_string.cpp"},
        {"src": "R:igris/util/base64.cpp"},
    ],
    "targets": [
        {"name": "codecs_enum", "mode": "enum"},
        {"name": "fixed", "quick": 3000000, "thorough": 30000000, "maxlen": 24},
        {"name": "codecs", "quick": 3500000, "thorough": 40000000, "maxlen": 80},
        {"name": "codecs_long", "quick": 150000, "thorough": 1500000, "maxlen": 32},
        {"name": "codecs_small_stack", "quick": 200, "thorough": 3000, "maxlen": 32},
    ],
    "uchar": ["codecs", "fixed"],
    "fuzz": [{"name": "codecs", "secs": 60, "maxlen": 80}],
}

TEXT = {
    "technique": "property-based testing: round trip decode(encode(x)) == x for hexascii (C, std::string, igris::buffer flavours) and base64 (standard and url-safe), differential against an independent RFC 4648 reference encoder (pinned to the RFC section 10 vectors) and a %02X / %0*X rendering, explicit length / alphabet / padding checks, exhaustive enumeration of short inputs, ASan/UBSan on exactly-sized heap buffers, libFuzzer in thorough",
    "level": "Generated-input exploration: millions of random byte strings of 0..64 bytes (every length mod 3, bytes >= 0x80, boundary bytes that produce the 62/63 symbols) are encoded and decoded through every codec flavour, each output compared byte for byte with the reference encoding, its length (2n, 4*ceil(n/3)), alphabet and '=' padding checked, and the decoders run on exactly what the encoders produced; all buffers handed to the C routines are exactly-sized heap blocks so one byte of over-read/over-write is a sanitizer failure. Complete enumeration of every byte string of length <= 2 over all bytes (<= 3, i.e. every base64 group, in thorough), length <= 4 over {00,7F,80,FF,'='}, every 8-bit value in every byte lane and every 16-bit value in every 16-bit lane of uintN_to_hex/hex_to_uintN; boundary-biased 32/64-bit values. A separate target encodes/decodes strings of 65..4102 bytes (thorough: to 65542) concentrated around 256, 512, 1024, 4096 (65536). Absence of defects beyond the explored inputs is not established. Strings of 128..300 KB go through the codecs on a thread with a 256 KB stack. Fixed-width fields are also decoded with more hex digits following them.",
    "note": "Trusted: the harness' RFC 4648 reference encoder (self-tested against the RFC vectors in every process), host snprintf, clang ASan/UBSan. Decoders are only exercised on encoder output (the statement's domain), not on arbitrary or malformed text. igris::hexascii_decode(std::string / igris::buffer) is bound through a weak reference so that its absence is a reported finding rather than a link error.",
}
