PROP = {
    "harness": ["harness/C04.cpp", "harness/gstuff_legacy_shim.cpp"],
    "units": [{"src": "R:igris/protocols/gstuff.cpp"}, {"src": "R:igris/protocols/gstuff_v1/gstuff.c"},
              {"src": "R:igris/protocols/gstuff_v1/autorecv.c"}],
    "targets": [
        {"name": "gstuff_enum", "mode": "enum"},
        {"name": "gstuff_cfg", "quick": 1500000, "thorough": 20000000, "maxlen": 400},
        {"name": "gstuff_legacy", "quick": 1000000, "thorough": 12000000, "maxlen": 400},
        {"name": "gstuff_cfg_resume", "quick": 600000, "thorough": 8000000, "maxlen": 300},
        {"name": "gstuff_cfg_bigcap", "quick": 6000, "thorough": 300000, "maxlen": 400},
        {"name": "gstuff_cfg_sparse", "quick": 150000, "thorough": 2000000, "maxlen": 200},
        {"name": "gstuff_legacy_bigcap", "quick": 5000, "thorough": 200000, "maxlen": 400},
    ],
    "uchar": ["gstuff_cfg", "gstuff_legacy"],
    "fuzz": [{"name": "gstuff_cfg", "secs": 60, "maxlen": 400}, {"name": "gstuff_legacy", "secs": 30, "maxlen": 400}],
}

TEXT = {
    "technique": "property-based testing: round trip through the real byte-by-byte receivers + independent reference frame encoder, CRC-steered and marker-heavy payload generators, random iovec partitions, exhaustive short payloads over the marker alphabet, exact heap buffers under ASan/UBSan, libFuzzer in thorough",
    "level": "Generated-input exploration: payloads (uniform, marker-only, marker-heavy, runs; last byte solved so that the CRC-8 itself is a marker or the escape byte) are encoded by every encoder variant of the configurable codec (both alphabets: caller buffer, iovec with 1..6 pieces incl. empty ones, both self-sizing vector overloads) and by the legacy C encoder into buffers of exactly the stuffed length, compared byte for byte with an independent reference frame, checked for start/stop markers, no raw marker inside, valid escapes and the 2n+4 bound, then fed byte by byte to a fresh receiver with capacity n+2..n+64: CONTINUE on every byte but the last, NEWPACKAGE on the last, content == payload, and the same receiver then decodes a second frame. All payloads of length <= 3 (5 in thorough) over {START,STOP,STUB,codes,'a'} are enumerated for the three codecs. Nothing is established beyond the explored inputs. The empty payload is also given as zero iovec pieces. A further target encodes mostly plain payloads of 100..300 bytes with 0..2 markers at the first, last, last-but-one or a drawn position.",
    "note": "Trusted: the harness' reference stuffing/CRC-8 (bit-serial) written from the protocol description; legacy receiver content = raw line minus its trailing CRC byte (its API exposes only the raw line); clang ASan/UBSan.",
}
