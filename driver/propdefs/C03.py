PROP = {
    "ready": True,
    "harness": ["harness/C03.cpp"],
    "units": [],  # header-only: datastruct/ring.h, datastruct/ring_counter.h, container/{ring,cyclic_buffer,unbounded_array}.h
    "targets": [
        {"name": "ring_enum", "mode": "enum"},
        {"name": "c_ring", "quick": 1000000, "thorough": 15000000, "maxlen": 640},
        {"name": "cxx_ring", "quick": 1000000, "thorough": 15000000, "maxlen": 640},
        {"name": "cxx_ring_assign", "quick": 300000, "thorough": 4000000, "maxlen": 64},
        {"name": "cxx_ring_direct", "quick": 400000, "thorough": 6000000, "maxlen": 200},
        {"name": "cyclic", "quick": 500000, "thorough": 8000000, "maxlen": 400},
        {"name": "c_ring_large", "quick": 30000, "thorough": 400000, "maxlen": 3000},
        {"name": "cxx_ring_large", "quick": 30000, "thorough": 400000, "maxlen": 3000},
        {"name": "cyclic_large", "quick": 20000, "thorough": 300000, "maxlen": 3000},
        {"name": "cyclic_huge", "quick": 600, "thorough": 8000, "maxlen": 200},
        {"name": "cxx_ring_strings", "quick": 150000, "thorough": 1500000, "maxlen": 200},
        {"name": "cxx_ring_moved", "quick": 150000, "thorough": 1500000, "maxlen": 200},
    ],
    "fuzz": [{"name": "c_ring", "secs": 45, "maxlen": 640}, {"name": "cxx_ring", "secs": 45, "maxlen": 640}],
}

TEXT = {
    "technique": "property-based testing: model-based operation histories against std::deque reference queues "
                 "(C ring_head API, igris::ring<int>/<char> in both construction paths, ring_counter + cyclic_buffer), "
                 "exhaustive enumeration of every (head, tail) state x every single operation for ring sizes 2..17, "
                 "ASan/UBSan with exactly-sized backing stores, libFuzzer in thorough",
    "level": "Generated-input exploration: histories of up to 200 operations (putc/getc/write/read of every length, "
             "single-step and bulk head/tail moves under their room/avail preconditions, clean, for_each; "
             "push/emplace/pop/last/tail/get_last/fixup_index/distance/index_of/reset/clear; cyclic push and "
             "operator[]) on rings of 2..40 slots, data bytes over 0..255 with 00/FF/80 over-weighted, are replayed "
             "against a std::deque; after every operation the returned count/byte, the stored data (via "
             "ring_for_each / slot access), avail, room, avail+room = size-1, empty, full, head/tail < size are "
             "compared and a rejected operation must leave (head, tail, buffer) untouched; every relative accessor "
             "must address the element the reference designates. The C ring lives in an exactly-sized heap block and "
             "the C++ rings in their own exact allocations, so one slot outside is a sanitizer failure. In addition "
             "every (head, tail) pair of every ring size 2..17 (2..24 thorough) is reached through the API and every "
             "single operation with every argument value is applied to it (whole bounded space). Separate targets use ring sizes 250..262, 508..516, 41..300 and (byte rings) 65530..65542 with histories of 3*size+40 operations. Nothing is "
             "established beyond the explored histories and sizes. A further target drives cyclic_buffer<int> and the ring_counter helpers with 30000..96000 samples (push bursts, every index read back). Further targets use ring<std::string> with heap-owning strings and a ring that is move-constructed while its source is destroyed.",
    "note": "Trusted: std::deque as the reference queue, clang ASan/UBSan. ring_getc may return the byte as signed "
            "or unsigned char (both accepted) as long as it is not -1, the 'empty' code. Not covered: operations "
            "called outside their preconditions (push on a full igris::ring, pop on an empty one, move_head beyond "
            "room, move_tail beyond avail are unchecked by design), negative arguments to ring_counter_set/increment, "
            "fixup_index below -size, cyclic_buffer::resize, element types with non-trivial constructors, "
            "rings larger than 40 slots, concurrent producers/consumers.",
}
