PROP = {
    "ready": True,
    # vterm.h/readline.h and vtermxx.h/readlinexx.h share their include guards: the C++ terminal has its own TU
    "harness": ["harness/C15.cpp", "harness/C15_xx.cpp"],
    "units": [
        {"src": "R:igris/shell/vterm.c"},
        {"src": "R:igris/shell/vtermxx.cpp"},
        {"src": "R:igris/util/numconvert.c"},  # igris_i32toa for vt100_left (ESC[nD)
    ],
    "targets": [
        {"name": "vterm_c_enum", "mode": "enum"},
        {"name": "vterm_cxx_enum", "mode": "enum"},
        {"name": "vterm_c", "quick": 2500000, "thorough": 30000000, "maxlen": 300},
        {"name": "vterm_cxx", "quick": 2000000, "thorough": 24000000, "maxlen": 300},
        {"name": "vterm_c_long", "quick": 40000, "thorough": 400000, "maxlen": 64},
        {"name": "vterm_cxx_long", "quick": 30000, "thorough": 300000, "maxlen": 64},
        {"name": "vterm_c_reinit", "quick": 150000, "thorough": 1500000, "maxlen": 200},
        {"name": "vterm_cxx_reinit", "quick": 120000, "thorough": 1200000, "maxlen": 200},
        {"name": "vterm_c_silent", "quick": 100000, "thorough": 1000000, "maxlen": 200},
        {"name": "vterm_cxx_silent", "quick": 80000, "thorough": 800000, "maxlen": 200},
        {"name": "sline_api_big", "quick": 30000, "thorough": 400000, "maxlen": 200},
        {"name": "sline_api", "quick": 2000000, "thorough": 20000000, "maxlen": 200},
    ],
    "uchar": ["vterm_c", "sline_api"],
    "fuzz": [{"name": "vterm_c", "secs": 60, "maxlen": 300}, {"name": "vterm_cxx", "secs": 40, "maxlen": 300}],
}

TEXT = {
    "technique": "stateful (model-based) property-based testing: key histories typed one byte per call into the terminal automaton in lock step with a reference line editor, the bytes of the write callback replayed on a one-row VT100 screen model; bounded exhaustive enumeration of short key sequences; exactly-sized heap line/history buffers under ASan/UBSan; libFuzzer in thorough",
    "level": "Generated-history exploration: every sequence of <= 5 keys (<= 7 in thorough) over {a, b, BS, LEFT, RIGHT, DEL, UP, DOWN, CR, LF, Ctrl-C, ESC-x} x line capacity {2,3,4,8} x history depth {1,2} is enumerated for vterm.c and for igris::vtermxx (2.17 M sequences each in quick), and millions of random histories (capacity 2..24 — and, in the *_long targets, capacity 250..262 with one run of about capacity equal characters so that cursor and length pass 255 — depth 1..4, <= 120 keys: text over few letters incl. the tail characters of escape sequences, BS, ESC[A/B/C/D, ESC[3~, CR, LF, CR LF, LF CR, Ctrl-C, ESC x / ESC[Z / ESC[3x, a lone ESC before other keys) are typed one byte per newdata call with the idle step (-1) after every byte. After every byte: the number of execute callbacks, the line, length and NUL terminator each one received and the SIGINT callbacks must equal the reference editor's; the edit buffer content, 0 <= cursor <= length < capacity through sline_size/sline_rightsize (for vtermxx, whose readline is private: on a stand-alone igris::readline fed the same bytes); the screen row must equal prompt + reference line and the screen cursor len(prompt) + reference cursor. Line and history buffers are exactly-sized heap blocks (vterm.c) / igris' own exact operator-new blocks (vtermxx). struct sline and igris::sline are additionally driven directly (putchar, newdata of 0..2*capacity bytes from an exact block, getline, backspace(k), delete(k), left, right, reset, equal) against a string model with return values and every accessor compared after each call. Nothing is established beyond the explored histories. Further targets initialise the same terminal object a second time (another capacity and history depth) after a first session, and run the terminal with echo off (nothing may be written). Each C callback has a private pointer of its own; linecpy is called with destinations shorter than, as long as and longer than the line after every key.",
    "note": "Trusted: the harness' reference editor and VT100 row model (printable bytes, CR, LF, ESC[nD, ESC[nC, ESC[K; blank cell = space). Free choices of the implementation adopted as reference semantics (DESIGN.md C15): UP beyond the stored lines recalls empty slots until the browse index reaches the history depth; a line equal to the most recent stored one is not stored again; Ctrl-C bypasses the key automaton (escape state and CR/LF pairing survive it); the CR/LF pairing looks at the previous byte the automaton saw, whatever consumed it (ESC CR LF swallows both). The prompt is the default '$ ', echo is on. Return codes of readline_putchar are not judged (only their effect). igris::sline::set_size_and_cursor/clear/init and readline_linecpy are not exercised.",
}
