PROP = {
    "ready": True,
    "harness": ["harness/C17.cpp"],
    "units": [{"src": "R:igris/util/crc.c"}],
    "targets": [
        {"name": "crc_enum", "mode": "enum"},
        {"name": "crc", "quick": 2000000, "thorough": 40000000, "maxlen": 300},
        {"name": "crc_long", "quick": 6000, "thorough": 100000, "maxlen": 40},
    ],
    "uchar": ["crc"],
    "fuzz": [{"name": "crc", "secs": 60, "maxlen": 300}],
}

TEXT = {
    "technique": "property-based testing: differential against bit-serial reference CRCs + chaining/residue laws, exhaustive (seed,byte) enumeration, ASan/UBSan for read bounds and alignment, libFuzzer in thorough",
    "level": "Generated-input exploration: every CRC routine is compared with an independent bit-serial reference on millions of random messages (all lengths 0..255, every start offset 0..7 in exactly-sized heap blocks so one byte of over-read or a misaligned load is a sanitizer failure), every split point for chaining, plus complete enumeration of all 65536 (seed,byte) pairs and all short messages over {00,01,80,FF}. A separate target runs igris_crc16 / igris_crc32 / the streaming CRC-8 on messages of 256..262160 bytes (around 256, 65535/65536 and 65536 words). Absence of defects beyond the explored inputs is not established. After each case one byte is changed in place and every routine is called again with the same pointer, length and seed.",
    "note": "Trusted: the harness' bit-serial reference implementations written from the polynomial definitions (CRC-32 definition pinned by the repository's HelloWorld vector), clang ASan/UBSan.",
}
