PROP = {
    "ready": True,
    "harness": ["harness/C14.cpp", "harness/C14_portable.cpp"],
    "units": [],
    "targets": [
        {"name": "svec_int", "quick": 200000, "thorough": 6000000, "maxlen": 256},
        {"name": "svec_tracked", "quick": 200000, "thorough": 6000000, "maxlen": 256},
        {"name": "sstring", "quick": 200000, "thorough": 6000000, "maxlen": 200},
        {"name": "portable_svec_int", "quick": 200000, "thorough": 6000000, "maxlen": 256},
        {"name": "portable_svec_tracked", "quick": 200000, "thorough": 6000000, "maxlen": 256},
        {"name": "portable_sstring", "quick": 200000, "thorough": 6000000, "maxlen": 200},
    ],
    "fuzz": [
        {"name": "svec_tracked", "secs": 40, "maxlen": 256},
        {"name": "portable_sstring", "secs": 40, "maxlen": 200},
    ],
}

TEXT = {
    "technique": "TODO",
    "level": "TODO",
    "note": "TODO",
}
