PROP = {
    "ready": True,
    # header-only code under test: no repository units. Two TUs because std_portable.h
    # redefines igris::static_vector / igris::static_string (C14_portable.cpp compiles
    # the header into namespace igris_portable so the twins stay distinct at link time).
    "harness": ["harness/C14.cpp", "harness/C14_portable.cpp"],
    "units": [],
    "targets": [
        {"name": "svec_int", "quick": 400000, "thorough": 12000000, "maxlen": 256},
        {"name": "svec_tracked", "quick": 300000, "thorough": 10000000, "maxlen": 256},
        {"name": "svec_small", "quick": 200000, "thorough": 4000000, "maxlen": 256},
        {"name": "portable_svec_small", "quick": 200000, "thorough": 4000000, "maxlen": 256},
        {"name": "sstring", "quick": 400000, "thorough": 12000000, "maxlen": 200},
        {"name": "portable_svec_int", "quick": 400000, "thorough": 12000000, "maxlen": 256},
        {"name": "portable_svec_tracked", "quick": 300000, "thorough": 10000000, "maxlen": 256},
        {"name": "portable_sstring", "quick": 400000, "thorough": 12000000, "maxlen": 200},
    ],
    "fuzz": [
        {"name": "svec_tracked", "secs": 40, "maxlen": 256},
        {"name": "portable_svec_tracked", "secs": 40, "maxlen": 256},
        {"name": "portable_sstring", "secs": 40, "maxlen": 200},
    ],
}

TEXT = {
    "technique": "model-based property testing of operation histories: static_vector<int|Tracked,N> and "
                 "static_string<N> (primary headers and the std_portable.h twins) against a std::vector / "
                 "std::string reference cut to its first N elements after every operation; every object sits "
                 "between two 32-byte pattern-filled, ASan-poisoned canaries in an exactly-sized heap block; an "
                 "instrumented element type (owns a heap byte, registered in a global live set) makes every "
                 "construction/destruction/assignment/read on a wrong address a distinct failure; ASan/UBSan; "
                 "libFuzzer on the same targets in thorough",
    "level": "Generated-input exploration: histories of up to 40 operations over up to 3 objects of one type, "
             "capacities N in {1,2,3,5,8} (strings also 12): construction from nothing, a copy, a moved object, "
             "an initializer list, iterator ranges of a vector / list / exactly-sized pointer range / "
             "static_vector<T,2N> / another object, C strings and (pointer,length) pairs, all of length 0..2N; "
             "push_back, emplace_back, operator+=, std::back_inserter of 0..2N values, resize(0..2N), "
             "erase(first,last) over every valid range, clear, copy and move assignment including "
             "self-assignment, operator[] writes, split, destruction. After every operation: canaries intact, "
             "size() <= N, room() == N - size(), contents (operator[], data(), begin..end, front/back, c_str "
             "incl. terminator, const and non-const) equal to the reference prefix, and for Tracked elements "
             "the live set is exactly the set of container elements; at the end constructions == destructions. "
             "Millions of histories per run, the large majority offering more than the remaining room at least "
             "once. Nothing is established beyond the explored histories, capacities and element types. Initializer lists are read back after the construction; resize is also called with SIZE_MAX-like arguments.",
    "note": "Trusted: libstdc++ std::vector/std::string as the reference, clang ASan/UBSan and manual ASan "
            "poisoning, the harness' Tracked type. The std_portable.h twins are compiled into a renamed "
            "namespace (harness-side #define) so both implementations are really exercised in one binary. A "
            "moved-from object is only required to be valid (size() <= N, elements alive); the reference then "
            "adopts what it exposes. Not judged: static_string::operator[] of the primary header (ill-formed "
            "when instantiated: returns &data[pos] as char&), static_string::find, the tokenisation of "
            "split() (only its capacity clauses), unbounded_array (not a fixed-capacity container), capacities "
            "above 12 and over-aligned or throwing element types. Operations covered by a known finding "
            "(known_findings.json, C14-*) are skipped for exactly the operand class that fails (e.g. clear() "
            "of a non-empty container of non-trivial elements) and counted as known-finding hits.",
}
