PROP = {
    "harness": ["harness/C01.cpp"],
    "units": [{"src": "R:igris/container/dlist.cpp"}],
    # -fsanitize=null is off: member.h / memberxx.h compute offsetof as &((T*)0)->m, an idiom, not a property violation
    "san_extra": ["-fno-sanitize=null,object-size"],  # both fire on the idiom
    "targets": [
        {"name": "c_dlist_enum", "mode": "enum"},
        {"name": "cxx_dlist_enum", "mode": "enum"},
        {"name": "c_dlist", "quick": 600000, "thorough": 10000000, "maxlen": 256},
        {"name": "cxx_dlist", "quick": 600000, "thorough": 10000000, "maxlen": 256},
        {"name": "c_dlist_many", "quick": 6000, "thorough": 60000, "maxlen": 4000},
        {"name": "cxx_dlist_many", "quick": 6000, "thorough": 60000, "maxlen": 4000},
        {"name": "cxx_dlist_two_links", "quick": 300000, "thorough": 4000000, "maxlen": 96},
        {"name": "lists_huge", "quick": 400, "thorough": 6000, "maxlen": 16},
        {"name": "slist_many", "quick": 4000, "thorough": 60000, "maxlen": 3000},
        {"name": "hlist_many", "quick": 4000, "thorough": 60000, "maxlen": 3000},
        {"name": "slist", "quick": 300000, "thorough": 4000000, "maxlen": 160},
        {"name": "hlist", "quick": 300000, "thorough": 4000000, "maxlen": 160},
    ],
    "fuzz": [{"name": "c_dlist", "secs": 60, "maxlen": 256}, {"name": "cxx_dlist", "secs": 60, "maxlen": 256}],
}

TEXT = {
    "technique": "stateful (model-based) property-based testing: operation histories against lock-step reference lists with an invariant sweep after every step, bounded exhaustive enumeration of short histories, ASan for destroyed nodes, bounded walks + watchdog so a corrupt (cyclic) list is a failure, libFuzzer in thorough",
    "level": "Generated-history exploration: every history of 3 operations (4 in thorough) x 3 nodes x 5 targets over 2 lists is enumerated for the C dlist and for igris::dlist (3.4 M histories each in quick), and hundreds of thousands of random histories (<= 60 ops, <= 12 individually heap-allocated nodes with the link member at a non-zero offset, <= 3 lists) are run for the C dlist, igris::dlist, the C slist / igris::slist and hlist. Operations cover insertion at front/back/before/after/sorted, del, del_init (also twice), moves between lists incl. to a neighbour and to the node itself, insert_instead, pop/unlink (also twice), clear, whole-list splice with empty and non-empty source/destination, destroying linked nodes and non-empty lists. After every operation every traversal macro/iterator (forward, safe, entry, reverse, --end) must yield the reference sequence, size/empty/membership/check/is_correct must agree, every linked node's neighbours must point back, del_init'ed/unlinked nodes must be self-linked, hlist pprev links must be exact.  Separate targets run the same operations on worlds of 258..300 nodes (lists longer than 255 elements; full checks every 16th step and at the end). Nothing is established beyond the explored histories. The C++ lists are also traversed through a const reference, and the bounded walkers dlist_check / dlist_check_reversed are called with the tight bound n+1. Cursor walks pass side-effecting expressions to the *_entry macros, and std::prev / std::advance / std::next / std::distance are applied to the list iterators.",
    "note": "Trusted: the harness' vector-of-ids reference model; self-moves may either keep the node in place or leave it unlinked (both are well-formed; the model adopts what happened); nodes orphaned by a splice are modelled as the head-less ring the code leaves; -fsanitize=null,object-size are off because member.h/memberxx.h compute offsets as &((T*)0)->m; igris::slist's const iterators and dlist first_entry/last_entry/cast_out do not compile and are not exercised.",
}
