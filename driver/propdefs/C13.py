import vpdriver

PROP = {
    "ready": True,
    "harness": ["harness/C13.cpp"],
    "units": vpdriver.libc_units(["stdio/sprintf.c", "stdio/fdprintf.c", "stdio/fdputc.c", "stdlib/atol.c", "string/strlen.c"]) + [
        {"src": "R:igris/util/printf_impl.c", "group": "igc_", "flags": vpdriver.LIBC_FLAGS},
    ],
    "targets": [
        {"name": "printf_fp", "quick": 1500000, "thorough": 25000000, "maxlen": 64},
        {"name": "printf_fp_multi", "quick": 400000, "thorough": 5000000, "maxlen": 96},
        {"name": "printf_fp_reentrant", "quick": 300000, "thorough": 4000000, "maxlen": 64},
        {"name": "printf_fp_wide", "quick": 300000, "thorough": 4000000, "maxlen": 64},
    ],
    "fuzz": [{"name": "printf_fp", "secs": 90, "maxlen": 64}],
}

TEXT = {
    "technique": "property-based testing: %f/%e/%g directive grammar x boundary-biased doubles; differential against host snprintf with an ISO-shape + half-digit-accuracy fallback where the digits differ; watchdog for termination, ASan/UBSan for the internal buffers, callback count vs return value; libFuzzer in thorough",
    "level": "Generated-input exploration: every conversion f F e E g G with any flag subset, literal and * widths, precisions none/./0..17 (tail to 40)/.* is applied to doubles drawn from zero, +-0, denormals, DBL_MIN/MAX, powers of two and ten +- ulps, decimal ties, short decimals, infinities, NaNs and random bit patterns. Every case must terminate (10 s watchdog), be sanitizer-clean and return exactly the number of characters emitted; finite cases must equal glibc's output or else have the ISO shape of the directive (sign/padding/zero-fill rules, digit counts, %g style selection by the exponent of the rounded value, no trailing zeros without #) and parse back to within half a unit of the last ISO-required digit + 4 ulp.  A separate target uses widths 41..1100 (all clauses judged) and precisions 41..1100 (termination, memory safety, count, width and f/e digit counts judged; accuracy only inside the quantified precisions). Nothing is established beyond the explored inputs. A third of the directives carry the l length modifier.",
    "note": "Trusted: glibc snprintf and strtold; 'a few ulps' is read as 4 ulp of the argument; L (long double) arguments and %a are outside the statement and not generated.",
}
