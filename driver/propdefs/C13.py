import vpdriver

PROP = {
    "harness": ["harness/C13.cpp"],
    "units": vpdriver.libc_units(["stdio/sprintf.c", "stdlib/atol.c", "string/strlen.c"]) + [
        {"src": "R:igris/util/printf_impl.c", "group": "igc_", "flags": vpdriver.LIBC_FLAGS},
    ],
    "targets": [
        {"name": "printf_fp", "quick": 1500000, "thorough": 25000000, "maxlen": 64},
    ],
    "fuzz": [{"name": "printf_fp", "secs": 90, "maxlen": 64}],
}
