PROP = {
    "harness": ["harness/C05.cpp", "harness/gstuff_legacy_shim.cpp"],
    "units": [{"src": "R:igris/protocols/gstuff.cpp"}, {"src": "R:igris/protocols/gstuff_v1/gstuff.c"},
              {"src": "R:igris/protocols/gstuff_v1/autorecv.c"}],
    "targets": [
        {"name": "recv_enum", "mode": "enum"},
        {"name": "recv_cfg", "quick": 1500000, "thorough": 20000000, "maxlen": 700},
        {"name": "recv_legacy", "quick": 800000, "thorough": 10000000, "maxlen": 700},
        {"name": "recv_custom", "quick": 800000, "thorough": 10000000, "maxlen": 700},
        {"name": "recv_rearm", "quick": 600000, "thorough": 8000000, "maxlen": 700},
        {"name": "recv_large", "quick": 60000, "thorough": 800000, "maxlen": 3500},
    ],
    "uchar": ["recv_cfg", "recv_legacy"],
    "fuzz": [{"name": "recv_cfg", "secs": 60, "maxlen": 700}, {"name": "recv_legacy", "secs": 30, "maxlen": 700}],
}

TEXT = {
    "technique": "property-based testing + bounded exhaustive enumeration: streams assembled from frames, injected faults and noise are fed to the real receivers; statement-level predicates (bounded, sound, overflow, complete) are evaluated against an independent un-escaping/CRC reference over the raw stream; exact heap receive buffers under ASan/UBSan; libFuzzer in thorough",
    "level": "Generated-input exploration with an exhaustive core: every stream of <= 6 symbols (<= 8 in thorough) over {START, STOP, ESC, the three escape codes, 'a', a valid crc byte} x capacities {2,3,4,8} x {configurable v1, configurable v0, legacy} (3.6 M streams quick) plus millions of random streams <= 400 bytes (noise, well-formed frames incl. ones that do not fit, back-to-back frames, single faults: truncation, bit flip, insertion, deletion, duplication, invalid escapes incl. escape+marker, stray delimiters; capacities 2..48). After every byte the stored length must be <= cap-1 (buffer is an exact heap block); every NEWPACKAGE must sit on a stop marker and deliver exactly the un-escaped bytes since the last start marker (previous delimiter when START == STOP; stream start for the legacy receiver) minus a matching CRC-8; a frame that does not fit is never delivered and is answered with OVERFLOW; every well-formed fitting frame is delivered at its stop marker when START != STOP, and from the second of a run of adjacent frames (first too after a delimiter-free prefix) when they coincide.  A separate target drives all three receivers with capacities 250..262 / 508..516 and frames about as long. Nothing is established beyond the explored streams. Re-arming also announces the receiver's own buffer again with a smaller length; custom contexts include the doubled-escape convention.",
    "note": "Trusted: the harness' bit-serial CRC-8 and un-escaping reference; no reference automaton is used, so incidental status codes (GARBAGE/FORCE_RESTART/CRC_ERROR) are not judged; clang ASan/UBSan.",
}
