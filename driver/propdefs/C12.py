import vpdriver

PROP = {
    "ready": True,
    "harness": ["harness/C12.cpp"],
    "units": [{"src": "R:igris/util/numconvert.c", "opt": "-O1"}] + vpdriver.libc_units(["stdlib/strtod.c"]),
    "targets": [
        {"name": "ftoa_sweep", "mode": "enum", "hang_s": 120},
        {"name": "ftoa", "quick": 2000000, "thorough": 30000000, "maxlen": 48},
        {"name": "atof", "quick": 2000000, "thorough": 30000000, "maxlen": 96},
        {"name": "atof_limits", "quick": 600000, "thorough": 8000000, "maxlen": 24},
        {"name": "atof_partial", "quick": 600000, "thorough": 8000000, "maxlen": 24},
        {"name": "atof_long", "quick": 500000, "thorough": 8000000, "maxlen": 64},
    ],
    "uchar": ["atof", "ftoa"],
    "fuzz": [{"name": "atof", "secs": 60, "maxlen": 96}, {"name": "ftoa", "secs": 30, "maxlen": 48}],
}

TEXT = {
    "technique": "property-based testing: shape/alphabet/length/accuracy predicates on every rendering (exhaustive over all 2^32 float patterns x 7 precisions in thorough), differential against host strtod within stated ulp bounds for a literal grammar, exact heap buffers under ASan/UBSan, libFuzzer in thorough",
    "level": "Generated-input exploration: igris_f32toa/f64toa/ftoa are run on floats from boundary classes (carry-prone nines, powers of two +- ulp, 2^24/2^31/2^64 limits, inf/nan, random bit patterns, genuine doubles) x precisions -1..12 into a worst-case-sized exact buffer and judged by shape (-?digits(.digits{p})?), inf/nan tokens, numeric-only characters, termination inside the buffer and |value-x| <= one unit of the last digit + 4 float ulp; the thorough tier sweeps every one of the 2^32 float bit patterns at 7 precisions. Parsing: literals [+-]d*[.d*][(e|E)[+-]d+] (<=19 significant digits, exponents to +-300) and host %.17g renderings followed by any terminator byte go through igris_atof32, igris_atof64, igris_strtod and the libc strtod/atof shims and must be within 8 ulp (double) / 4 ulp (float) of host strtod with the end pointer at the end of the literal; the measured error histogram is in the evidence.  A separate target parses long literals (up to 80 significant digits, zero runs of 20..400, leading zeros, compensating exponents). Nothing is established beyond the explored inputs. Every igris_atof32 case also goes through binreader::read_ascii_decimal_float (value and stream position).",
    "note": "Trusted: host strtod/strtof as correctly rounded references; 'a few ulps' is read as 8 (double) / 4 (float) and 'representation error' as 4 float ulps -- measured errors are far below (labels err>0.5ulp / err>2ulp); debug_printdec_double_prec is not judged.",
}
