import vpdriver

PROP = {
    "ready": True,
    "harness": ["harness/C07.cpp"],
    "units": [{"src": "R:igris/util/numconvert.c", "opt": "-O1"}, {"src": "R:igris/dprint/dprint_func_impl.c"}]
             + vpdriver.libc_units(["stdlib/itoa.c", "stdlib/atol.c"]),
    "targets": [
        {"name": "small_enum", "mode": "enum"},
        {"name": "sweep32", "mode": "enum", "hang_s": 60},
        {"name": "toa", "quick": 3000000, "thorough": 20000000, "maxlen": 32},
        {"name": "ato", "quick": 4000000, "thorough": 20000000, "maxlen": 40},
        {"name": "vt100", "quick": 300000, "thorough": 3000000, "maxlen": 16},
        {"name": "ato_empty", "quick": 300000, "thorough": 3000000, "maxlen": 24},
        {"name": "libc_itoa", "quick": 1500000, "thorough": 10000000, "maxlen": 32},
        {"name": "dprint", "quick": 1500000, "thorough": 10000000, "maxlen": 32},
        {"name": "dprint_sparse", "quick": 400000, "thorough": 4000000, "maxlen": 48},
        {"name": "toa_sparse", "quick": 300000, "thorough": 3000000, "maxlen": 48},
        {"name": "ato_sparse", "quick": 300000, "thorough": 3000000, "maxlen": 64},
        {"name": "dprint_buf", "quick": 300000, "thorough": 3000000, "maxlen": 32},
    ],
    "fuzz": [{"name": "ato", "secs": 45, "maxlen": 40}, {"name": "toa", "secs": 30, "maxlen": 32}],
    "uchar": ["ato", "ato_empty", "toa", "libc_itoa"],
}

TEXT = {
    "technique": "property-based testing: reference renderer/parser differential + render/parse round trip, exhaustive 8/16-bit x all bases (32-bit x 5 bases in thorough), exact heap buffers under ASan/UBSan, libFuzzer in thorough",
    "level": "Generated-input exploration: igris_{i,u}{8..64}toa, igris_ato{i,u}*, the libc itoa/utoa/ltoa/ultoa shims and the debug_print dec/hex/bin renderers are compared with an independent reference rendering (case-insensitive; returned pointer, terminator, exact buffer size checked) and parsed back (value, end pointer at the first character that cannot continue the number, for every terminator byte). Exhaustive for every 8- and 16-bit value in every base 2..36; all 2^32 values in bases {2,8,10,16,36} in the thorough tier; boundary-biased random for 64 bit.  The buffer renderers debug_writehex/writebin (and _reversed) over exact blocks of 0..300 bytes and debug_printbin_uint4 are checked for digit count, alphabet and parse-back of every group. Nothing is established beyond the explored inputs. Separate targets draw values that are sparse digit strings in the base being rendered (round numbers such as 5000100000). The narrow wrappers must give, character for character, the text of the 64-bit entry point; the libc shims must return buf.",
    "note": "Trusted: the harness' repeated-division reference renderer on unsigned __int128; clang ASan/UBSan. Letter case of rendered digits is not constrained (the statement does not fix it). hex/bin debug renderers are judged after stripping their fixed-width leading zeros.",
}
