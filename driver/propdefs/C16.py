PROP = {
    "harness": ["harness/C16.cpp"],
    "units": [{"src": "R:igris/container/dlist.cpp"}, {"src": "R:igris/sync/syslock_mutex.cpp"}, {"src": "R:igris/datastruct/stimer.c"}],
    "san_extra": ["-fno-sanitize=null,object-size"],  # offsetof idiom in member.h / memberxx.h
    "targets": [
        {"name": "timer_manager", "quick": 1000000, "thorough": 20000000, "maxlen": 400},
        {"name": "stimer", "quick": 500000, "thorough": 5000000, "maxlen": 100},
        {"name": "timer_manager_u32", "quick": 400000, "thorough": 5000000, "maxlen": 160},
        {"name": "timer_manager_specs", "quick": 400000, "thorough": 5000000, "maxlen": 200},
        {"name": "timer_callbacks", "quick": 200000, "thorough": 2000000, "maxlen": 120},
        {"name": "timer_manager_big", "quick": 300000, "thorough": 5000000, "maxlen": 400},
        {"name": "stimer_big", "quick": 400000, "thorough": 4000000, "maxlen": 120},
    ],
    "fuzz": [{"name": "timer_manager", "secs": 90, "maxlen": 400}],
}

TEXT = {
    "technique": "stateful property-based testing: plan/unplan/exec histories with generated callback scripts; every callback invocation is validated against a reference scheduler (planned, due, earliest deadline) and the full timer state is compared after every operation; watchdog for termination; libFuzzer in thorough",
    "level": "Generated-history exploration: histories of up to 80 operations over up to 6 igris::timer objects (delegate callbacks) with plan(t,start,interval) drawn from few distinct intervals so deadlines collide, plan(t), unplan, exec(now) with non-decreasing time (steps 0, 1, interval-1, interval, interval+1, many periods) and per-timer callback scripts (do nothing, unplan self, unplan another, re-plan self with new parameters, plan another timer already due / not yet due). Each invocation must be of a planned, due timer with the earliest deadline among the planned ones, deadlines within one exec must not decrease, after exec no planned timer may be due, and is_planned, finish() (re-arming at previous deadline + interval, one firing per elapsed period), empty() and minimal_interval() must equal the reference after every operation. The order among equal deadlines is left free (a LIFO-among-equals mutant is accepted, as the statement allows). The flag-style stimer is checked against the due rule and the one-period-per-hit behaviour of STIMER_PERIODIC. Nothing is established beyond the explored histories. A further target instantiates the manager over timer_spec<int64_t,int32_t> (clocks beyond 2^31), timer_spec<int32_t> and timer_spec<int64_t,int64_t>. A further target binds callbacks as plain function, function with (null) context and member function with a std::string argument and checks every firing's context and arguments.",
    "note": "Trusted: the harness' reference scheduler; a callback that re-plans itself is 'left planned' and is shifted once more by exec (observed and adopted, DESIGN.md C16); callbacks stop acting after 8 actions per exec so that mutually re-planning scripts cannot keep a scheduler busy for ever; single-threaded (the syslock around the list is exercised by C20).",
}
