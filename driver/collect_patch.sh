#!/bin/sh
# usage: collect_patch.sh <PROP> <name> <patchfile|-e sedexpr file>...
# Scratch worktree of /repo HEAD under /tmp with a hand-made breakage applied (a patch file, or
# sed expressions), quick check against it, replays copied to /tmp/collect/<PROP>/<name>; worktree removed.
P=$1; NAME=$2; shift 2
OUT=/tmp/collect/$P/$NAME
W=$(mktemp -d /tmp/igris-mut-XXXX); rmdir $W
git -C /repo worktree add --detach -q $W HEAD
if [ "$1" = "-e" ]; then
  while [ "$1" = "-e" ]; do sed -i "$2" $W/$3; shift 3; done
else
  git -C $W apply "$1" || { echo "patch does not apply"; git -C /repo worktree remove --force $W; exit 2; }
fi
git -C $W diff --stat | tail -1
mkdir -p $OUT; rm -f $OUT/*
R=$(mktemp -d /tmp/vr-XXXX)
( cd /verif && VERIF_REPO=$W VERIF_REPLAY_NEW=$R timeout 1500 ./check $P 2>&1 | grep -A1 "^VIOLATION\|^OK\|^BUILD" | grep -v "^--" > $OUT/log.txt )
cp $R/*.case $OUT/ 2>/dev/null
rm -rf $R
git -C /repo worktree remove --force $W
echo "collected in $OUT:"; cat $OUT/log.txt
