#!/usr/bin/env python3
"""Rewrite the table of DESIGN.md section 9.3 (and the counts that refer to it) from known_findings.json."""
import json, os, re
VERIF = os.path.dirname(os.path.dirname(os.path.abspath(__file__)))
k = json.load(open(os.path.join(VERIF, "known_findings.json")))["entries"]
fixed = [e for e in k if e["status"] == "fixed"]
known = [e for e in k if e["status"] != "fixed"]
rows = ["| %s | `%s` | %s | %s |" % (e["property"], e["commit"], e["id"], e["what"].replace("|", "/").replace("\n", " ")) for e in fixed]
p = os.path.join(VERIF, "DESIGN.md")
s = open(p).read()
a = s.index("| property | commit | id | what failed |")
b = a
lines = s[a:].split("\n")
n = 0
while n < len(lines) and lines[n].startswith("|"):
    n += 1
old = "\n".join(lines[:n])
s = s.replace(old, "| property | commit | id | what failed |\n|---|---|---|---|\n" + "\n".join(rows))
s = re.sub(r"repaired \(\d+ `fix:` commits in /repo\)", "repaired (%d `fix:` commits in /repo)" % len(fixed), s)
s = re.sub(r"all \d+ have status \"fixed\"", "all %d have status \"fixed\"" % len(fixed), s)
s = re.sub(r"each of the \d+ repairs", "each of the %d repairs" % len(fixed), s)
s = re.sub(r"— all \d+ were caught", "— all %d were caught" % len(fixed), s)
open(p, "w").write(s)
print("%d fixed, %d known" % (len(fixed), len(known)))
