"""Per-property build and campaign configuration (see DESIGN.md §5)."""

PROPS = {}

PROPS["C17"] = {
    "harness": ["harness/C17.cpp"],
    "units": [{"src": "R:igris/util/crc.c"}],
    "targets": [
        {"name": "crc_enum", "mode": "enum"},
        {"name": "crc", "quick": 4000000, "thorough": 60000000, "maxlen": 300},
    ],
    "fuzz": [{"name": "crc", "secs": 60, "maxlen": 300}],
}
