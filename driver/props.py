"""Per-property build and campaign configuration: one module per property in
driver/propdefs/<ID>.py defining PROP (build + campaign) and TEXT (MANIFEST wording)."""
import glob
import importlib.util
import os

PROPS = {}
TEXT = {}
_here = os.path.dirname(os.path.abspath(__file__))
for _p in sorted(glob.glob(os.path.join(_here, "propdefs", "C*.py"))):
    _id = os.path.basename(_p)[:-3]
    _spec = importlib.util.spec_from_file_location("propdef_" + _id, _p)
    _m = importlib.util.module_from_spec(_spec)
    _spec.loader.exec_module(_m)
    PROPS[_id] = _m.PROP
    if hasattr(_m, "TEXT"):
        TEXT[_id] = _m.TEXT
