"""Per-property build and campaign configuration: one module per property in
driver/propdefs/<ID>.py defining PROP (build + campaign) and TEXT (MANIFEST wording)."""
import glob
import importlib.util
import os

PROPS = {}
TEXT = {}
_here = os.path.dirname(os.path.abspath(__file__))
for _p in sorted(glob.glob(os.path.join(_here, "propdefs", "C*.py"))):
    _id = os.path.basename(_p)[:-3]
    _spec = importlib.util.spec_from_file_location("propdef_" + _id, _p)
    _m = importlib.util.module_from_spec(_spec)
    _spec.loader.exec_module(_m)
    PROPS[_id] = _m.PROP
    if hasattr(_m, "TEXT"):
        TEXT[_id] = _m.TEXT


def _expand_uchar(cfg):
    """"uchar": [target names] in a PROP -> a build variant of the same harness and units compiled with
    -funsigned-char (plain char unsigned, as on the ARM / RISC-V targets the library is written for) that runs the
    named random targets under the name <target>@uchar at a quarter of their case counts."""
    names = cfg.get("uchar")
    if not names:
        return
    def flagged(u):
        u = {"src": "V:" + u} if isinstance(u, str) else dict(u)
        u["flags"] = list(u.get("flags", [])) + ["-funsigned-char"]
        u["tag"] = u.get("tag", "") + "uchar"
        return u
    targets = []
    for t in cfg["targets"]:
        if t["name"] in names and t.get("mode", "random") == "random":
            t2 = dict(t, name=t["name"] + "@uchar")
            for k in ("quick", "thorough"):
                if t2.get(k):
                    t2[k] = max(1000, int(t2[k]) // 4)
            targets.append(t2)
    var = {"name": "uchar", "harness": [flagged(h) for h in cfg["harness"]], "units": [flagged(u) for u in cfg.get("units", [])],
           "targets": targets}
    cfg.setdefault("variants", []).append(var)


for _cfg in PROPS.values():
    _expand_uchar(_cfg)
