#!/usr/bin/env python3
"""Rewrite the table of DESIGN.md section 9.7 from seeded/*/meta.json."""
import glob, json, os, re
VERIF = os.path.dirname(os.path.dirname(os.path.abspath(__file__)))
rows = []
n = caught = 0
for d in sorted(glob.glob(os.path.join(VERIF, "seeded", "*"))):
    mp = os.path.join(d, "meta.json")
    if not os.path.exists(mp):
        continue
    m = json.load(open(mp))
    n += 1
    caught += bool(m.get("caught"))
    files = ", ".join(sorted(set(l.split("|")[0].strip() for l in m.get("files_touched", []) if "|" in l)))
    readme = (m.get("needs_to_manifest") or "").replace("\n", " ")
    first = re.sub(r"[#*`]", "", readme).strip()[:230]
    sigs = []
    for r in m.get("check_runs", []):
        sigs += r.get("signatures", [])
    how = "caught (%s, seed %s): %s" % (m["check_runs"][-1]["tier"], m["check_runs"][-1]["seed"], ", ".join(sigs[:4])) if m.get("caught") else "NOT caught"
    if m.get("caught_after"):
        how += " — " + m["caught_after"]
    rows.append("| %s | %s | %s | %s |" % (os.path.basename(d), files, first.replace("|", "/"), how.replace("|", "/")))
table = ("%d changes were produced by fresh sub-agents (one per property, two changes each) that saw only the property text and a scratch worktree; "
         "each still compiles, passes the 89 doctest cases and comes with a demonstration that fails with the change and passes without it "
         "(all re-confirmed by `driver/seedtest.py`). The property's **quick** check reports a VIOLATION for %d of them. `./check selftest` re-runs this.\n\n"
         "| seed | files | what it needs to manifest (from the seeder's README) | check |\n|---|---|---|---|\n" % (n, caught)) + "\n".join(rows) + "\n"
p = os.path.join(VERIF, "DESIGN.md")
s = open(p).read()
a = s.index("### 9.7 Independently seeded changes")
s = s[:a] + "### 9.7 Independently seeded changes\n\n" + table
open(p, "w").write(s)
print("%d seeded, %d caught" % (n, caught))
