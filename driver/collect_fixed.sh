#!/bin/sh
# usage: collect_fixed.sh <PROP> <fix-commit> [outdir]
# Re-creates the defect a fix: commit repaired -- the current /repo HEAD with only that commit
# reverted (fallback: the commit's parent) in a scratch worktree under /tmp, removed afterwards --
# runs the property's quick check against it and copies the replays it produced to <outdir>
# (default /tmp/collect/<PROP>/<commit>).
P=$1; C=$2; OUT=${3:-/tmp/collect/$P/$C}
W=$(mktemp -d /tmp/igris-revert-XXXX); rmdir $W
git -C /repo worktree add --detach -q $W HEAD
if git -C $W revert --no-commit $C >/dev/null 2>&1; then echo "reverted $C on HEAD"; else
  git -C $W revert --abort >/dev/null 2>&1; git -C $W checkout -q --detach $C^; echo "revert conflicts: using parent of $C"; fi
mkdir -p $OUT; rm -f $OUT/*
R=$(mktemp -d /tmp/vr-XXXX)
( cd /verif && VERIF_REPO=$W VERIF_REPLAY_NEW=$R timeout 1500 ./check $P 2>&1 | grep -A1 "^VIOLATION" | grep -v "^--" > $OUT/log.txt )
cp $R/*.case $OUT/ 2>/dev/null
rm -rf $R
git -C /repo worktree remove --force $W
echo "collected in $OUT:"; cat $OUT/log.txt
