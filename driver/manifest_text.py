"""MANIFEST wording lives next to each property's config (driver/propdefs/<ID>.py: TEXT)."""
import props

TEXT = props.TEXT
NOT_APPLICABLE = {}
