#!/usr/bin/env python3
"""For every fixed finding: revert its fix: commit alone in a scratch worktree of /repo and check
that its saved replays fail there (i.e. they still mean what they were saved for after harness changes).
usage: verify_fixed.py [PROP ...]"""
import json, os, subprocess, sys, tempfile
VERIF = os.path.dirname(os.path.dirname(os.path.abspath(__file__)))
def sh(cmd, **kw):
    return subprocess.run(cmd, stdout=subprocess.PIPE, stderr=subprocess.STDOUT, text=True, **kw)
entries = json.load(open(os.path.join(VERIF, "known_findings.json")))["entries"]
only = set(sys.argv[1:])
bad = []
for e in entries:
    if e.get("status") != "fixed" or (only and e["property"] not in only):
        continue
    w = tempfile.mkdtemp(prefix="igris-vf-", dir="/tmp"); os.rmdir(w)
    subprocess.check_call(["git", "-C", "/repo", "worktree", "add", "--detach", "-q", w, "HEAD"])
    try:
        how = "reverted"
        if sh(["git", "-C", w, "revert", "--no-commit", e["commit"]]).returncode != 0:
            sh(["git", "-C", w, "revert", "--abort"]); sh(["git", "-C", w, "checkout", "-q", "--detach", e["commit"] + "^"]); how = "parent"
        fails = 0
        env = dict(os.environ, VERIF_REPO=w)
        first = True
        for rp in e.get("replays", []):
            ap = os.path.join(VERIF, rp)
            if first:
                r = sh([os.path.join(VERIF, "check"), e["property"], "--replay", ap], env=env, cwd=VERIF, timeout=1200)
                first = False
            else:
                tname = [l.split(" ", 1)[1].strip() for l in open(ap, errors="replace") if l.startswith("target ")][0]
                exe = os.path.join(VERIF, "build", e["property"], "harness-tsan" if tname == "tsan" else "harness")
                if not os.path.exists(exe):
                    r = sh([os.path.join(VERIF, "check"), e["property"], "--replay", ap], env=env, cwd=VERIF, timeout=1200)
                else:
                    r = sh([exe, "--prop", e["property"], "--replay", ap, "--errdir", "/tmp"], env=env, timeout=600)
            if r.returncode == 1:
                fails += 1
        n = len(e.get("replays", []))
        print("%-40s %-8s %d/%d replays fail with the fix undone%s" % (e["id"], how, fails, n, "" if fails else "   <-- STALE"), flush=True)
        if not fails:
            bad.append(e["id"])
    finally:
        subprocess.call(["git", "-C", "/repo", "worktree", "remove", "--force", w])
print("stale entries:", bad)
sys.exit(1 if bad else 0)
