// vpbt driver: random / enumerate / replay / shrink, forked workers, watchdog.
// See vpbt.h and DESIGN.md §2.
#include "vpbt.h"

#include <algorithm>
#include <cerrno>
#include <chrono>
#include <csignal>
#include <cstdlib>
#include <fcntl.h>
#include <map>
#include <poll.h>
#include <set>
#include <sys/mman.h>
#include <sys/stat.h>
#include <sys/wait.h>
#include <unistd.h>
#include <unordered_set>

namespace vpbt
{

// ---------------------------------------------------------------- utilities
std::string fmt(const char *f, ...)
{
    char buf[1024];
    va_list ap;
    va_start(ap, f);
    vsnprintf(buf, sizeof buf, f, ap);
    va_end(ap);
    return buf;
}

std::string hexdump(const void *p, size_t n, size_t max)
{
    std::string s;
    const uint8_t *b = (const uint8_t *)p;
    char t[4];
    for (size_t i = 0; i < n && i < max; i++)
    {
        snprintf(t, sizeof t, "%02x", b[i]);
        s += t;
    }
    if (n > max)
        s += "..";
    return s;
}

static std::vector<Target> &targets()
{
    static std::vector<Target> t;
    return t;
}
void register_target(const Target &t) { targets().push_back(t); }

static std::vector<std::string> g_known;
static int g_tier = 0;
bool known_active(const char *id)
{
    for (auto &k : g_known)
        if (k == id)
            return true;
    return false;
}
int tier() { return g_tier; }

static uint64_t now_ns()
{
    timespec ts;
    clock_gettime(CLOCK_MONOTONIC, &ts);
    return (uint64_t)ts.tv_sec * 1000000000ull + ts.tv_nsec;
}

static uint64_t fnv(const void *p, size_t n, uint64_t h = 1469598103934665603ull)
{
    const uint8_t *b = (const uint8_t *)p;
    for (size_t i = 0; i < n; i++)
    {
        h ^= b[i];
        h *= 1099511628211ull;
    }
    return h;
}
static uint64_t splitmix(uint64_t &s)
{
    uint64_t z = (s += 0x9e3779b97f4a7c15ull);
    z = (z ^ (z >> 30)) * 0xbf58476d1ce4e5b9ull;
    z = (z ^ (z >> 27)) * 0x94d049bb133111ebull;
    return z ^ (z >> 31);
}

static std::string tohex(const std::vector<uint8_t> &v)
{
    std::string s;
    char t[4];
    for (uint8_t b : v)
    {
        snprintf(t, sizeof t, "%02x", b);
        s += t;
    }
    return s;
}
static std::vector<uint8_t> fromhex(const std::string &s)
{
    std::vector<uint8_t> v;
    for (size_t i = 0; i + 1 < s.size(); i += 2)
        v.push_back((uint8_t)strtoul(s.substr(i, 2).c_str(), nullptr, 16));
    return v;
}

static std::string json_escape(const std::string &s)
{
    std::string o;
    for (unsigned char c : s)
    {
        if (c == '"' || c == '\\')
        {
            o += '\\';
            o += (char)c;
        }
        else if (c == '\n')
            o += "\\n";
        else if (c == '\t')
            o += "\\t";
        else if (c < 0x20 || c >= 0x7f)
        {
            char t[8];
            snprintf(t, sizeof t, "\\u%04x", c);
            o += t;
        }
        else
            o += (char)c;
    }
    return o;
}

// ------------------------------------------------------------ case creation
// Coverage builds (./check coverage <ID>): forked workers leave through _exit, so the profile is
// written explicitly, one file per worker process.
#ifdef VPBT_COVERAGE
extern "C" int __llvm_profile_write_file(void);
extern "C" void __llvm_profile_set_filename(const char *);
static void cov_dump()
{
    const char *dir = getenv("VPBT_COV_DIR");
    if (!dir)
        return;
    static char name[512];
    snprintf(name, sizeof name, "%s/w-%d.profraw", dir, (int)getpid());
    __llvm_profile_set_filename(name);
    __llvm_profile_write_file();
}
#else
static inline void cov_dump() {}
#endif

struct Opts
{
    std::string prop = "C00";
    std::string target;
    std::string mode = "random";
    uint64_t seed = 1;
    uint64_t count = 1000;
    uint64_t enum_limit = 0; // 0 = whole space
    int workers = 16;
    std::string out;
    std::string replay_dir = ".";
    std::string replay_file;
    std::string errdir = ".";
    unsigned maxlen = 2048;
    double hang_s = 10.0;
    int max_fail_sigs = 4;
    int shrink_budget = 3000;
};

static void gen_bytes(const Opts &o, const Target &t, uint64_t k,
                      std::vector<uint8_t> &out)
{
    uint64_t s = fnv(o.prop.data(), o.prop.size());
    s = fnv(t.name, strlen(t.name), s);
    s ^= o.seed * 0x9e3779b97f4a7c15ull;
    s ^= k * 0xd1342543de82ef95ull;
    splitmix(s);
    // length schedule: ramp up over the first 70% of the run
    double frac = o.count ? (double)k / (0.7 * (double)o.count) : 1.0;
    if (frac > 1)
        frac = 1;
    unsigned maxlen_k = 8 + (unsigned)((o.maxlen > 8 ? o.maxlen - 8 : 0) * frac);
    unsigned len = (unsigned)(splitmix(s) % (maxlen_k + 1));
    // mix short cases in at every stage
    if (splitmix(s) % 4 == 0)
        len = (unsigned)(splitmix(s) % (std::min(maxlen_k, 48u) + 1));
    out.resize(len);
    unsigned style = (unsigned)(splitmix(s) % 8);
    static const uint8_t lowset[8] = {0, 1, 2, 3, 255, 128, 127, 4};
    for (unsigned i = 0; i < len; i += 8)
    {
        uint64_t r = splitmix(s);
        for (unsigned j = 0; j < 8 && i + j < len; j++)
        {
            uint8_t b = (uint8_t)(r >> (8 * j));
            if (style == 0)
                b = lowset[b & 7]; // low-entropy: repeated choices
            else if (style == 1 && (b & 0x80))
                b &= 0x0f; // mostly small values
            out[i + j] = b;
        }
    }
}

struct RunResult
{
    int verdict = 0; // 0 pass, 1 discard, 2 fail
    std::string sig, msg;
};

static RunResult run_in_process(const Target &t, Src &src, Case &c)
{
    RunResult r;
    try
    {
        t.run(src, c);
    }
    catch (const Fail &f)
    {
        r.verdict = 2;
        r.sig = f.sig;
        r.msg = f.msg;
    }
    catch (const Discard &)
    {
        r.verdict = 1;
    }
    catch (const std::exception &e)
    {
        r.verdict = 2;
        r.sig = "uncaught_exception";
        r.msg = e.what();
    }
    return r;
}

// ---------------------------------------------------- stderr → signature
static std::string repo_root()
{
    const char *r = getenv("VERIF_REPO");
    return r && *r ? r : "/repo";
}

static std::string read_file(const std::string &path, size_t max = 1 << 20)
{
    std::string s;
    FILE *f = fopen(path.c_str(), "rb");
    if (!f)
        return s;
    char buf[8192];
    size_t n;
    while ((n = fread(buf, 1, sizeof buf, f)) > 0 && s.size() < max)
        s.append(buf, n);
    fclose(f);
    return s;
}

static std::string basename_of(const std::string &p)
{
    size_t i = p.rfind('/');
    return i == std::string::npos ? p : p.substr(i + 1);
}

// Derive "<kind>@<first frame inside the repository>" from sanitizer / assert
// output.
static std::string signature_from_stderr(const std::string &err, int status)
{
    std::string root = repo_root();
    size_t a = err.find("ERROR: AddressSanitizer: ");
    if (a != std::string::npos)
    {
        size_t b = a + strlen("ERROR: AddressSanitizer: ");
        size_t e = err.find_first_of(" \n", b);
        std::string kind = err.substr(b, e - b);
        // frames of the first stack only (up to the first blank line)
        size_t stop = err.find("\n\n", e);
        std::string stack = err.substr(e, stop == std::string::npos ? std::string::npos : stop - e);
        std::string first_any;
        size_t pos = 0;
        while ((pos = stack.find(" in ", pos)) != std::string::npos)
        {
            size_t fs = pos + 4;
            size_t fe = stack.find('\n', fs);
            std::string line = stack.substr(fs, fe - fs);
            pos = fe == std::string::npos ? stack.size() : fe;
            size_t sp = line.rfind(' ');
            std::string fn = sp == std::string::npos ? line : line.substr(0, sp);
            std::string file = sp == std::string::npos ? "" : line.substr(sp + 1);
            size_t par = fn.find('(');
            if (par != std::string::npos)
                fn = fn.substr(0, par);
            if (file.compare(0, root.size(), root) == 0)
                return "asan:" + kind + "@" + fn;
            if (first_any.empty() && file.find("/verif/") != std::string::npos)
                first_any = fn;
        }
        return "asan:" + kind + "@harness:" + first_any;
    }
    a = err.find("ThreadSanitizer: ");
    if (a != std::string::npos)
    {
        size_t b = a + strlen("ThreadSanitizer: ");
        size_t e = err.find_first_of("(\n", b);
        std::string kind = err.substr(b, e - b);
        while (!kind.empty() && kind.back() == ' ')
            kind.pop_back();
        for (auto &ch : kind)
            if (ch == ' ')
                ch = '_';
        // first frame inside the repository anywhere in the report
        size_t pos = e;
        while ((pos = err.find(" #", pos)) != std::string::npos)
        {
            size_t le = err.find('\n', pos);
            std::string line = err.substr(pos, le - pos);
            pos = le == std::string::npos ? err.size() : le;
            size_t rp = line.find(root);
            if (rp == std::string::npos)
                continue;
            // " #0 func(args) /repo/file:line:col (binary+0x..)"
            size_t fs = line.find(' ', 2);
            std::string fn = line.substr(fs + 1, rp - fs - 2);
            size_t par = fn.find('(');
            if (par != std::string::npos)
                fn = fn.substr(0, par);
            return "tsan:" + kind + "@" + fn;
        }
        return "tsan:" + kind;
    }
    a = err.find("runtime error: ");
    if (a != std::string::npos)
    {
        size_t ls = err.rfind('\n', a);
        ls = ls == std::string::npos ? 0 : ls + 1;
        std::string loc = err.substr(ls, a - ls); // file:line:col:
        size_t c2 = loc.rfind(':', loc.size() > 2 ? loc.size() - 3 : 0);
        std::string fl = c2 == std::string::npos ? loc : loc.substr(0, c2);
        size_t c1 = fl.rfind(':');
        std::string file = c1 == std::string::npos ? fl : fl.substr(0, c1);
        std::string line = c1 == std::string::npos ? "" : fl.substr(c1 + 1);
        size_t me = err.find('\n', a);
        std::string m0 = err.substr(a + 15, std::min<size_t>(me - a - 15, 60));
        // keep the first words, drop addresses and values (unstable)
        std::string m;
        int words = 0;
        for (size_t i = 0; i < m0.size() && words < 4;)
        {
            size_t e2 = m0.find(' ', i);
            if (e2 == std::string::npos)
                e2 = m0.size();
            std::string w = m0.substr(i, e2 - i);
            i = e2 + 1;
            if (w.empty() || isdigit((unsigned char)w[0]) || w[0] == '-')
                continue;
            m += (m.empty() ? "" : "_") + w;
            words++;
        }
        return "ubsan@" + basename_of(file) + ":" + line + ":" + m;
    }
    a = err.find("Assertion `");
    if (a != std::string::npos)
    {
        size_t ls = err.rfind('\n', a);
        ls = ls == std::string::npos ? 0 : ls + 1;
        std::string loc = err.substr(ls, a - ls); // prog: file:line: func:
        // take file:line
        size_t p1 = loc.find(": ");
        std::string rest = p1 == std::string::npos ? loc : loc.substr(p1 + 2);
        size_t p2 = rest.find(": ");
        std::string fl = p2 == std::string::npos ? rest : rest.substr(0, p2);
        return "assert@" + basename_of(fl);
    }
    if (WIFSIGNALED(status))
        return fmt("signal%d", WTERMSIG(status));
    if (WIFEXITED(status))
        return fmt("exit%d", WEXITSTATUS(status));
    return "died";
}

// ------------------------------------------------ isolated single-case run
struct Outcome
{
    int verdict = 0; // 0 pass 1 discard 2 fail 3 crash 4 hang
    std::string sig, msg, desc;
    bool nontrivial = false;
    double secs = 0;
};

static void redirect_stderr(const std::string &path)
{
    int fd = open(path.c_str(), O_WRONLY | O_CREAT | O_TRUNC, 0644);
    if (fd >= 0)
    {
        dup2(fd, 2);
        close(fd);
    }
}

static void write_all(int fd, const void *p, size_t n)
{
    const char *b = (const char *)p;
    while (n)
    {
        ssize_t w = write(fd, b, n);
        if (w < 0)
        {
            if (errno == EINTR)
                continue;
            return;
        }
        b += w;
        n -= (size_t)w;
    }
}

// A case that ran earlier in the same process (sequence replays: a failure that needs the state its
// predecessors left behind — function-level statics, caches — reproduces only together with them).
struct Pre
{
    bool is_enum = false;
    uint64_t k = 0;
    std::vector<uint8_t> bytes;
};

// On a sanitizer abort the child still tells the parent what the case was.
extern "C" void __sanitizer_set_death_callback(void (*)(void));
static Case *g_iso_case;
static int g_iso_fd = -1;
static void iso_on_death()
{
    if (g_iso_case && g_iso_fd >= 0)
    {
        write_all(g_iso_fd, "D", 1);
        write_all(g_iso_fd, g_iso_case->desc.data(), g_iso_case->desc.size());
    }
}

static Outcome run_isolated(const Opts &o, const Target &t, bool is_enum,
                            uint64_t k, const std::vector<uint8_t> &bytes,
                            double timeout_s, const std::vector<Pre> *pre = nullptr)
{
    Outcome out;
    int pfd[2];
    if (pipe(pfd))
        return out;
    std::string errpath = o.errdir + "/iso." + std::to_string(getpid()) + ".err";
    uint64_t t0 = now_ns();
    char *shm = (char *)mmap(nullptr, Case::kShmCap, PROT_READ | PROT_WRITE, MAP_SHARED | MAP_ANONYMOUS, -1, 0);
    if (shm == MAP_FAILED)
        shm = nullptr;
    if (shm)
        shm[0] = 0;
    pid_t pid = fork();
    if (pid == 0)
    {
        close(pfd[0]);
        Case::shm() = shm;
        redirect_stderr(errpath);
        Case c;
        RunResult r;
        g_iso_case = &c;
        g_iso_fd = pfd[1];
        __sanitizer_set_death_callback(iso_on_death);
        if (pre)
        {
            // the predecessors run first, in order, in this same process; their own verdicts do not matter
            for (const Pre &p : *pre)
            {
                Case pc;
                pc.want_desc = false;
                if (p.is_enum)
                {
                    Src ps((unsigned __int128)p.k);
                    run_in_process(t, ps, pc);
                }
                else
                {
                    Src ps(p.bytes.data(), p.bytes.size());
                    run_in_process(t, ps, pc);
                }
            }
        }
        if (is_enum)
        {
            Src s((unsigned __int128)k);
            r = run_in_process(t, s, c);
        }
        else
        {
            Src s(bytes.data(), bytes.size());
            r = run_in_process(t, s, c);
        }
        std::string payload;
        payload += (char)('0' + r.verdict);
        payload += c.nontrivial ? '1' : '0';
        payload += r.sig;
        payload += '\0';
        payload += r.msg;
        payload += '\0';
        payload += c.desc;
        write_all(pfd[1], payload.data(), payload.size());
        _exit(0);
    }
    close(pfd[1]);
    std::string payload;
    bool hung = false;
    for (;;)
    {
        pollfd p{pfd[0], POLLIN, 0};
        double left = timeout_s - (now_ns() - t0) / 1e9;
        if (left <= 0)
        {
            hung = true;
            break;
        }
        int pr = poll(&p, 1, (int)std::min(left * 1000 + 1, 1000.0));
        if (pr > 0)
        {
            char buf[4096];
            ssize_t n = read(pfd[0], buf, sizeof buf);
            if (n <= 0)
                break;
            payload.append(buf, (size_t)n);
        }
    }
    close(pfd[0]);
    int status = 0;
    if (hung)
    {
        kill(pid, SIGKILL);
        waitpid(pid, &status, 0);
        out.verdict = 4;
        out.sig = "hang";
        out.msg = fmt("no result within %.1f s", timeout_s);
        if (shm)
            out.desc = shm;
    }
    else
    {
        waitpid(pid, &status, 0);
        if (payload.size() >= 2 && WIFEXITED(status) && WEXITSTATUS(status) == 0)
        {
            out.verdict = payload[0] - '0';
            out.nontrivial = payload[1] == '1';
            size_t a = payload.find('\0', 2);
            size_t b = payload.find('\0', a + 1);
            out.sig = payload.substr(2, a - 2);
            out.msg = payload.substr(a + 1, b - a - 1);
            out.desc = payload.substr(b + 1);
        }
        else
        {
            std::string err = read_file(errpath);
            out.verdict = 3;
            out.sig = signature_from_stderr(err, status);
            out.msg = err.substr(0, 3000);
            if (!payload.empty() && payload[0] == 'D')
                out.desc = payload.substr(1);
        }
    }
    unlink(errpath.c_str());
    if (shm)
        munmap(shm, Case::kShmCap);
    out.secs = (now_ns() - t0) / 1e9;
    return out;
}

// ------------------------------------------------------------- shrinking
struct Shrinker
{
    const Opts &o;
    const Target &t;
    std::string sig;
    double timeout;
    int budget;
    int runs = 0;
    bool still_fails(const std::vector<uint8_t> &b)
    {
        if (runs >= budget)
            return false;
        runs++;
        Outcome r = run_isolated(o, t, false, 0, b, timeout);
        return r.verdict >= 2 && r.sig == sig;
    }
    std::vector<uint8_t> shrink(std::vector<uint8_t> cur)
    {
        // strip trailing zeros (reading past the end yields 0 anyway)
        bool progress = true;
        while (progress && runs < budget)
        {
            progress = false;
            // 1. delete spans
            for (size_t span = std::max<size_t>(cur.size() / 2, 1); span >= 1; span /= 2)
            {
                for (size_t i = 0; i + span <= cur.size();)
                {
                    std::vector<uint8_t> cand(cur.begin(), cur.begin() + i);
                    cand.insert(cand.end(), cur.begin() + i + span, cur.end());
                    if (still_fails(cand))
                    {
                        cur.swap(cand);
                        progress = true;
                    }
                    else
                        i += span;
                    if (runs >= budget)
                        break;
                }
                if (span == 1 || runs >= budget)
                    break;
            }
            // 2. zero spans
            for (size_t span = std::max<size_t>(cur.size() / 2, 1); span >= 1; span /= 2)
            {
                for (size_t i = 0; i + span <= cur.size(); i += span)
                {
                    bool allz = true;
                    for (size_t j = i; j < i + span; j++)
                        if (cur[j])
                            allz = false;
                    if (allz)
                        continue;
                    std::vector<uint8_t> cand = cur;
                    std::fill(cand.begin() + i, cand.begin() + i + span, 0);
                    if (still_fails(cand))
                    {
                        cur.swap(cand);
                        progress = true;
                    }
                    if (runs >= budget)
                        break;
                }
                if (span == 1 || runs >= budget)
                    break;
            }
            // 3. lower single bytes by binary search toward 0
            for (size_t i = 0; i < cur.size() && runs < budget; i++)
            {
                if (!cur[i])
                    continue;
                unsigned lo = 0, hi = cur[i]; // hi fails; find smallest failing
                while (lo < hi && runs < budget)
                {
                    unsigned mid = (lo + hi) / 2;
                    std::vector<uint8_t> cand = cur;
                    cand[i] = (uint8_t)mid;
                    if (still_fails(cand))
                        hi = mid;
                    else
                        lo = mid + 1;
                }
                if (hi < cur[i])
                {
                    cur[i] = (uint8_t)hi;
                    progress = true;
                }
            }
            while (!cur.empty() && cur.back() == 0)
                cur.pop_back();
        }
        return cur;
    }
};

// ---------------------------------------------------------------- campaign
struct Slot
{
    volatile uint64_t cur_k;
    volatile uint64_t start_ns; // 0 = idle
    volatile uint64_t done;
};

struct Failure
{
    std::string kind; // fail | crash | hang
    std::string sig, msg, desc;
    bool is_enum = false;
    uint64_t k = 0;
    std::vector<uint8_t> bytes;
    std::string replay;
    int shrink_runs = 0;
    bool confirmed = true;
    std::vector<Pre> pre; // non-empty: reproduces only after these earlier cases of its worker (sequence replay)
};

struct Stats
{
    uint64_t evaluations = 0, discards = 0, nontrivial = 0, work_units = 0;
    std::unordered_set<uint64_t> distinct;
    std::map<std::string, uint64_t> labels, known;
    std::vector<std::string> samples;
    std::set<std::string> sample_labelsets;
    uint32_t slowest_us = 0;
    std::vector<Failure> failures;
    uint64_t failure_events = 0;
    uint64_t hang_events = 0;
    std::map<std::string, int> retries; // per signature: later failures tried because the representative was unconfirmed
    uint64_t slow_discards = 0;
    bool incomplete = false;
    std::string incomplete_why;
};

static const size_t kDistinctCap = 6000000;

struct Worker
{
    pid_t pid = -1;
    int fd = -1;
    std::string buf;
    std::map<int, std::string> labelnames, knownnames;
    uint64_t next_k = 0; // next index to hand to a restarted worker
    bool finished = false;
    bool fail_seen = false; // an 'F' record arrived from this incarnation
    uint64_t fail_k = 0;
};

static void worker_main(const Opts &o, const Target &t, int widx, uint64_t first_k,
                        uint64_t total, int fd, Slot *slot, bool is_enum)
{
    std::map<std::string, int> lab_ids, known_ids;
    std::string out;
    auto flush = [&]() {
        if (!out.empty())
        {
            write_all(fd, out.data(), out.size());
            out.clear();
        }
    };
    auto put = [&](char type, const std::string &payload) {
        uint32_t n = (uint32_t)payload.size();
        out += type;
        out.append((const char *)&n, 4);
        out += payload;
    };
    int samples_sent = 0;
    std::set<std::string> sent_labelsets;
    std::vector<uint8_t> bytes;
    uint64_t since_flush = now_ns();
    for (uint64_t k = first_k; k < total; k += (uint64_t)o.workers)
    {
        Case c;
        RunResult r;
        slot->cur_k = k;
        uint64_t t0 = now_ns();
        slot->start_ns = t0;
        if (is_enum)
        {
            Src s((unsigned __int128)k);
            r = run_in_process(t, s, c);
        }
        else
        {
            gen_bytes(o, t, k, bytes);
            Src s(bytes.data(), bytes.size());
            r = run_in_process(t, s, c);
        }
        uint64_t t1 = now_ns();
        slot->start_ns = 0;
        slot->done = slot->done + 1;
        if (r.verdict == 2)
        {
            std::string p;
            p.append((const char *)&k, 8);
            p += r.sig;
            p += '\0';
            p += r.msg;
            p += '\0';
            p += c.desc;
            put('F', p);
            flush();
            _exit(3);
        }
        std::string rec;
        rec.append((const char *)&k, 8);
        rec += (char)r.verdict;
        rec += (char)(c.nontrivial ? 1 : 0);
        uint64_t h = fnv(c.desc.data(), c.desc.size());
        rec.append((const char *)&h, 8);
        uint32_t us = (uint32_t)std::min<uint64_t>((t1 - t0) / 1000, 0xffffffffu);
        rec.append((const char *)&us, 4);
        rec.append((const char *)&c.work, 8);
        rec += (char)c.labels.size();
        std::string labelset;
        for (auto l : c.labels)
        {
            auto it = lab_ids.find(l);
            if (it == lab_ids.end())
            {
                int id = (int)lab_ids.size();
                it = lab_ids.emplace(l, id).first;
                std::string d;
                d += (char)id;
                d += l;
                put('L', d);
            }
            rec += (char)it->second;
            labelset += l;
            labelset += ',';
        }
        rec += (char)c.known_hits.size();
        for (auto l : c.known_hits)
        {
            auto it = known_ids.find(l);
            if (it == known_ids.end())
            {
                int id = (int)known_ids.size();
                it = known_ids.emplace(l, id).first;
                std::string d;
                d += (char)id;
                d += l;
                put('K', d);
            }
            rec += (char)it->second;
        }
        put('R', rec);
        if (c.nontrivial && r.verdict == 0 && widx < 4 &&
            (samples_sent < 2 || (samples_sent < 6 && !sent_labelsets.count(labelset))))
        {
            samples_sent++;
            sent_labelsets.insert(labelset);
            put('S', "[" + labelset + "] " + c.desc);
        }
        if (out.size() > 3000 || t1 - since_flush > 50000000ull)
        {
            flush();
            since_flush = t1;
        }
    }
    flush();
    cov_dump();
    _exit(0);
}

static void spawn(const Opts &o, const Target &t, Worker &w, int widx, uint64_t total,
                  Slot *slots, bool is_enum)
{
    int pfd[2];
    if (pipe(pfd))
    {
        perror("pipe");
        exit(2);
    }
    slots[widx].start_ns = 0;
    pid_t pid = fork();
    if (pid < 0)
    {
        perror("fork");
        exit(2);
    }
    if (pid == 0)
    {
        close(pfd[0]);
        redirect_stderr(o.errdir + "/w" + std::to_string(widx) + ".err");
        worker_main(o, t, widx, w.next_k, total, pfd[1], &slots[widx], is_enum);
        _exit(0);
    }
    close(pfd[1]);
    w.pid = pid;
    w.fd = pfd[0];
    w.buf.clear();
    w.labelnames.clear();
    w.knownnames.clear();
    w.finished = false;
    w.fail_seen = false;
}

static void consume(Worker &w, Stats &st, std::vector<Failure> &fails_out, bool is_enum)
{
    size_t pos = 0;
    while (w.buf.size() - pos >= 5)
    {
        char type = w.buf[pos];
        uint32_t n;
        memcpy(&n, &w.buf[pos + 1], 4);
        if (w.buf.size() - pos - 5 < n)
            break;
        const char *p = &w.buf[pos + 5];
        if (type == 'L')
            w.labelnames[(unsigned char)p[0]] = std::string(p + 1, n - 1);
        else if (type == 'K')
            w.knownnames[(unsigned char)p[0]] = std::string(p + 1, n - 1);
        else if (type == 'S')
        {
            if (st.samples.size() < 10)
                st.samples.push_back(std::string(p, std::min<uint32_t>(n, 1500)));
        }
        else if (type == 'R')
        {
            uint64_t k, h;
            uint32_t us;
            memcpy(&k, p, 8);
            int verdict = p[8];
            int nt = p[9];
            memcpy(&h, p + 10, 8);
            memcpy(&us, p + 18, 4);
            st.evaluations++;
            w.next_k = k; // last seen
            if (verdict == 1)
            {
                st.discards++;
                // a case that gave up on its own wall-clock budget ("inconclusive"): not a verdict, but a
                // tree on which this keeps happening must not keep the campaign busy for hours
                if (us > 2000000)
                    st.slow_discards++;
            }
            else if (us > st.slowest_us)
                st.slowest_us = us;
            if (nt && verdict == 0)
            {
                st.nontrivial++;
                if (st.distinct.size() < kDistinctCap)
                    st.distinct.insert(h);
            }
            uint64_t work;
            memcpy(&work, p + 22, 8);
            st.work_units += work;
            size_t q = 30;
            int nl = (unsigned char)p[q++];
            for (int i = 0; i < nl; i++)
                st.labels[w.labelnames[(unsigned char)p[q++]]]++;
            int nk = (unsigned char)p[q++];
            for (int i = 0; i < nk; i++)
                st.known[w.knownnames[(unsigned char)p[q++]]]++;
        }
        else if (type == 'F')
        {
            Failure f;
            f.kind = "fail";
            memcpy(&f.k, p, 8);
            std::string rest(p + 8, n - 8);
            size_t a = rest.find('\0');
            size_t b = rest.find('\0', a + 1);
            f.sig = rest.substr(0, a);
            f.msg = rest.substr(a + 1, b - a - 1);
            f.desc = rest.substr(b + 1);
            f.is_enum = is_enum;
            st.evaluations++;
            w.fail_seen = true;
            w.fail_k = f.k;
            fails_out.push_back(f);
        }
        pos += 5 + n;
    }
    w.buf.erase(0, pos);
}

// set by find_target(): "@variant" part of the requested target name (build variants)
static std::string g_name_suffix;
static void write_replay(const Opts &o, const Target &t, Failure &f)
{
    std::string body;
    body += "vpbt-replay 1\n";
    body += "property " + o.prop + "\n";
    body += std::string("target ") + t.name + g_name_suffix + "\n";
    if (f.is_enum)
        body += "mode enum\ndata " + std::to_string(f.k) + "\n";
    else
        body += "mode bytes\ndata " + tohex(f.bytes) + "\n";
    // sequence replay: the cases that have to run first, in the same process, oldest first
    for (auto &p : f.pre)
        body += p.is_enum ? "pre_enum " + std::to_string(p.k) + "\n" : "pre " + tohex(p.bytes) + "\n";
    body += "kind " + f.kind + "\n";
    body += "signature " + f.sig + "\n";
    body += "--- message\n" + f.msg + "\n";
    body += "--- decoded case\n" + f.desc + "\n";
    uint64_t h = fnv(body.data(), body.size());
    std::string sig = f.sig;
    for (auto &ch : sig)
        if (!isalnum((unsigned char)ch) && ch != '_' && ch != '-')
            ch = '_';
    if (sig.size() > 60)
        sig.resize(60);
    std::string path = o.replay_dir + "/" + o.prop + "-" + t.name + g_name_suffix + "-" + sig + "-" +
                       fmt("%08x", (unsigned)(h & 0xffffffff)) + ".case";
    FILE *fp = fopen(path.c_str(), "w");
    if (fp)
    {
        fwrite(body.data(), 1, body.size(), fp);
        fclose(fp);
    }
    f.replay = path;
}

// The watchdog: o.hang_s, stretched for targets whose ordinary cases are slow (100x the slowest passing case),
// but never beyond 3x o.hang_s — an unbounded stretch let a tree that really hangs keep a campaign busy for hours.
static double hang_limit_for(const Opts &o, const Stats &st)
{
    return std::max(o.hang_s, std::min(100.0 * st.slowest_us / 1e6, 3.0 * o.hang_s));
}

static void process_failure(const Opts &o, const Target &t, Stats &st, Failure f)
{
    st.failure_events++;
    // one representative per signature — but a representative that did not reproduce in isolation (state carried over
    // from an earlier case of the same worker process) is given up for a later failure of the same signature that does;
    // at most 12 such attempts per signature
    size_t replace_at = (size_t)-1;
    for (size_t i = 0; i < st.failures.size(); i++)
        if (st.failures[i].sig == f.sig)
        {
            if (st.failures[i].confirmed || st.retries[f.sig] >= 12)
                return;
            st.retries[f.sig]++;
            replace_at = i;
        }
    if (replace_at == (size_t)-1 && (int)st.failures.size() >= o.max_fail_sigs)
        return;
    double hang_limit = hang_limit_for(o, st);
    if (!f.is_enum)
    {
        gen_bytes(o, t, f.k, f.bytes);
    }
    // confirm (3x), fetch the decoded description
    int confirmed = 0;
    Outcome last;
    for (int i = 0; i < 3; i++)
    {
        last = run_isolated(o, t, f.is_enum, f.k, f.bytes, hang_limit);
        if (last.verdict >= 2 && last.sig == f.sig)
            confirmed++;
        else
            break;
    }
    if (confirmed < 3 && last.verdict < 2 && f.kind != "hang")
    {
        // Passes on its own: does it need what its predecessors in the worker process left behind? Re-run it after
        // the m cases that preceded it in its worker (m = 1, 2, 4, .. 64); a sequence that fails three times with the
        // same signature is a confirmed, reproducible failure and the replay file carries the whole sequence.
        auto build = [&](int m) {
            std::vector<Pre> pre;
            for (int j = m; j >= 1; j--)
            {
                uint64_t back = (uint64_t)j * (uint64_t)o.workers;
                if (back > f.k)
                    continue;
                Pre p;
                p.is_enum = f.is_enum;
                p.k = f.k - back;
                if (!f.is_enum)
                    gen_bytes(o, t, p.k, p.bytes);
                pre.push_back(std::move(p));
            }
            return pre;
        };
        auto fails_with = [&](const std::vector<Pre> &pre, Outcome &out) {
            out = run_isolated(o, t, f.is_enum, f.k, f.bytes, hang_limit * 2, &pre);
            return out.verdict >= 2 && out.sig == f.sig;
        };
        for (int m = 1; m <= 64 && !f.pre.size(); m *= 2)
        {
            std::vector<Pre> pre = build(m);
            if (pre.empty())
                break;
            Outcome o1, o2, o3;
            if (fails_with(pre, o1) && fails_with(pre, o2) && fails_with(pre, o3))
            {
                // the shortest suffix of the predecessors that still does it
                for (size_t keep = 1; keep < pre.size(); keep++)
                {
                    std::vector<Pre> shorter(pre.end() - (long)keep, pre.end());
                    Outcome q1, q2;
                    if (fails_with(shorter, q1) && fails_with(shorter, q2))
                    {
                        pre = shorter;
                        o3 = q2;
                        break;
                    }
                }
                f.pre = pre;
                last = o3;
                confirmed = 3;
                f.msg = "[needs the " + std::to_string(pre.size()) + " case(s) run before it in the same process] " + o3.msg;
                if (!o3.desc.empty())
                    f.desc = o3.desc;
            }
            if (pre.size() < (size_t)m)
                break; // no more history to add
        }
    }
    if (confirmed < 3)
    {
        // not reproducible in isolation with the same signature: report it,
        // but flagged (the driver treats an unconfirmed hang as load noise).
        f.confirmed = false;
        if (last.verdict >= 2)
        {
            // reproducible with a different signature: use that one
            Outcome again = run_isolated(o, t, f.is_enum, f.k, f.bytes, hang_limit);
            if (again.verdict >= 2 && again.sig == last.sig)
            {
                f.sig = last.sig;
                f.msg = last.msg;
                f.kind = last.verdict == 3 ? "crash" : last.verdict == 4 ? "hang" : "fail";
                f.confirmed = true;
                for (auto &g : st.failures)
                    if (g.sig == f.sig)
                        return;
            }
        }
    }
    if (f.confirmed && !f.is_enum && f.pre.empty())
    {
        double shr_to = f.kind == "hang" ? std::max(2.0, 20.0 * st.slowest_us / 1e6)
                                         : hang_limit;
        Shrinker sh{o, t, f.sig, shr_to, f.kind == "hang" ? 40 : o.shrink_budget};
        f.bytes = sh.shrink(f.bytes);
        f.shrink_runs = sh.runs;
        Outcome fin = run_isolated(o, t, false, 0, f.bytes,
                                   f.kind == "hang" ? shr_to : hang_limit);
        if (fin.verdict >= 2)
        {
            f.msg = fin.msg;
            if (!fin.desc.empty())
                f.desc = fin.desc;
        }
    }
    else if (f.confirmed && f.desc.empty())
    {
        f.desc = last.desc;
    }
    if (replace_at != (size_t)-1)
    {
        if (!f.confirmed)
            return; // keep the earlier unconfirmed record
        write_replay(o, t, f);
        st.failures[replace_at] = f;
        return;
    }
    write_replay(o, t, f);
    st.failures.push_back(f);
}

static void run_campaign(const Opts &o, const Target &t, Stats &st, bool is_enum,
                         uint64_t total)
{
    Slot *slots = (Slot *)mmap(nullptr, sizeof(Slot) * o.workers, PROT_READ | PROT_WRITE,
                               MAP_SHARED | MAP_ANONYMOUS, -1, 0);
    memset((void *)slots, 0, sizeof(Slot) * o.workers);
    std::vector<Worker> ws(o.workers);
    for (int i = 0; i < o.workers; i++)
    {
        ws[i].next_k = (uint64_t)i;
        if (ws[i].next_k < total)
            spawn(o, t, ws[i], i, total, slots, is_enum);
        else
            ws[i].finished = true;
    }
    std::vector<Failure> pending;
    bool abort_campaign = false;
    for (;;)
    {
        std::vector<pollfd> pfds;
        std::vector<int> idx;
        for (int i = 0; i < o.workers; i++)
            if (!ws[i].finished)
            {
                pfds.push_back({ws[i].fd, POLLIN, 0});
                idx.push_back(i);
            }
        if (pfds.empty())
            break;
        poll(pfds.data(), pfds.size(), 200);
        uint64_t now = now_ns();
        double hang_limit = hang_limit_for(o, st);
        for (size_t j = 0; j < pfds.size(); j++)
        {
            Worker &w = ws[idx[j]];
            int wi = idx[j];
            bool eof = false;
            if (pfds[j].revents & (POLLIN | POLLHUP))
            {
                char buf[65536];
                ssize_t n = read(w.fd, buf, sizeof buf);
                if (n > 0)
                    w.buf.append(buf, (size_t)n);
                else if (n == 0)
                    eof = true;
            }
            consume(w, st, pending, is_enum);
            if (st.slow_discards >= 12)
                abort_campaign = true;
            bool hung = false;
            if (!eof)
            {
                uint64_t s = slots[wi].start_ns;
                if (s && now > s && (now - s) / 1e9 > hang_limit)
                    hung = true;
            }
            if (!eof && !hung)
                continue;
            uint64_t cur_k = slots[wi].cur_k;
            bool inflight = slots[wi].start_ns != 0;
            if (hung)
                kill(w.pid, SIGKILL);
            // drain
            for (;;)
            {
                char buf[65536];
                ssize_t n = read(w.fd, buf, sizeof buf);
                if (n <= 0)
                    break;
                w.buf.append(buf, (size_t)n);
            }
            consume(w, st, pending, is_enum);
            int status = 0;
            waitpid(w.pid, &status, 0);
            close(w.fd);
            w.fd = -1;
            bool clean = WIFEXITED(status) && WEXITSTATUS(status) == 0;
            bool reported_fail = WIFEXITED(status) && WEXITSTATUS(status) == 3;
            uint64_t resume_from;
            if (clean)
            {
                w.finished = true;
                continue;
            }
            if (reported_fail && w.fail_seen)
            {
                resume_from = w.fail_k + (uint64_t)o.workers;
            }
            else
            {
                // crash or hang on the in-flight case
                Failure f;
                f.kind = hung ? "hang" : "crash";
                f.k = cur_k;
                f.is_enum = is_enum;
                if (hung)
                {
                    st.hang_events++;
                    f.sig = "hang";
                    f.msg = fmt("case exceeded the watchdog (%.1f s)", hang_limit);
                }
                else
                {
                    std::string err =
                        read_file(o.errdir + "/w" + std::to_string(wi) + ".err");
                    f.sig = signature_from_stderr(err, status);
                    f.msg = err.substr(0, 3000);
                }
                if (!inflight && !hung)
                {
                    f.sig = "worker_died_between_cases:" + f.sig;
                }
                st.evaluations++;
                pending.push_back(f);
                resume_from = cur_k + (uint64_t)o.workers;
            }
            for (auto &f : pending)
                process_failure(o, t, st, f);
            pending.clear();
            if (st.failure_events >= 120 || (int)st.failures.size() >= o.max_fail_sigs)
                abort_campaign = true;
            for (auto &f : st.failures)
                if (f.kind == "hang" && f.confirmed)
                    abort_campaign = true;
            // hangs that do not reproduce in isolation (load, or a schedule-dependent hang of free-running
            // threads) cost a full watchdog period each: stop after a handful
            if (st.hang_events >= 6)
                abort_campaign = true;
            w.next_k = resume_from;
            if (abort_campaign || resume_from >= total)
                w.finished = true;
            else
                spawn(o, t, w, wi, total, slots, is_enum);
        }
        if (abort_campaign)
        {
            for (auto &w : ws)
                if (!w.finished && w.pid > 0)
                {
                    kill(w.pid, SIGKILL);
                    int s;
                    waitpid(w.pid, &s, 0);
                    close(w.fd);
                    w.finished = true;
                }
            st.incomplete = true;
            st.incomplete_why = st.slow_discards >= 12 ? "stopped early: 12 cases gave up on their own wall-clock budget (inconclusive, not a verdict)"
                                : st.hang_events >= 6  ? "stopped early after repeated watchdog hits"
                                                       : "stopped early after repeated failures";
            break;
        }
    }
    munmap((void *)slots, sizeof(Slot) * o.workers);
}

static void write_result(const Opts &o, const Target &t, const Stats &st, double wall,
                         uint64_t enum_total, bool is_enum)
{
    std::string j = "{\n";
    j += "  \"property\": \"" + o.prop + "\",\n";
    j += std::string("  \"target\": \"") + t.name + "\",\n";
    j += "  \"mode\": \"" + o.mode + "\",\n";
    j += "  \"seed\": " + std::to_string(o.seed) + ",\n";
    j += "  \"evaluations\": " + std::to_string(st.evaluations) + ",\n";
    j += "  \"requested\": " + std::to_string(is_enum ? enum_total : o.count) + ",\n";
    j += "  \"discards\": " + std::to_string(st.discards) + ",\n";
    j += "  \"work_units\": " + std::to_string(st.work_units) + ",\n";
    j += "  \"nontrivial\": " + std::to_string(st.nontrivial) + ",\n";
    j += "  \"distinct_nontrivial\": " + std::to_string(st.distinct.size()) + ",\n";
    j += std::string("  \"distinct_capped\": ") +
         (st.distinct.size() >= kDistinctCap ? "true" : "false") + ",\n";
    j += std::string("  \"exhaustive\": ") +
         (is_enum && !st.incomplete && st.evaluations >= enum_total ? "true" : "false") + ",\n";
    j += "  \"nt_rule\": \"" + json_escape(t.nt_rule ? t.nt_rule : "") + "\",\n";
    j += "  \"slowest_case_us\": " + std::to_string(st.slowest_us) + ",\n";
    j += "  \"wall_s\": " + fmt("%.3f", wall) + ",\n";
    j += std::string("  \"incomplete\": ") + (st.incomplete ? "true" : "false") + ",\n";
    j += "  \"incomplete_why\": \"" + json_escape(st.incomplete_why) + "\",\n";
    j += "  \"labels\": {";
    bool first = true;
    for (auto &kv : st.labels)
    {
        j += (first ? "" : ", ");
        j += "\"" + json_escape(kv.first) + "\": " + std::to_string(kv.second);
        first = false;
    }
    j += "},\n  \"known_hits\": {";
    first = true;
    for (auto &kv : st.known)
    {
        j += (first ? "" : ", ");
        j += "\"" + json_escape(kv.first) + "\": " + std::to_string(kv.second);
        first = false;
    }
    j += "},\n  \"samples\": [";
    first = true;
    for (auto &s : st.samples)
    {
        j += (first ? "" : ", ");
        j += "\"" + json_escape(s) + "\"";
        first = false;
    }
    j += "],\n  \"failure_events\": " + std::to_string(st.failure_events) + ",\n";
    j += "  \"failures\": [";
    first = true;
    for (auto &f : st.failures)
    {
        j += (first ? "\n" : ",\n");
        j += "    {\"kind\": \"" + f.kind + "\", \"signature\": \"" + json_escape(f.sig) +
             "\", \"confirmed\": " + (f.confirmed ? "true" : "false") +
             ", \"replay\": \"" + json_escape(f.replay) + "\", \"shrink_runs\": " +
             std::to_string(f.shrink_runs) + ", \"message\": \"" +
             json_escape(f.msg.substr(0, 1500)) + "\", \"case\": \"" +
             json_escape(f.desc.substr(0, 3000)) + "\"}";
        first = false;
    }
    j += "]\n}\n";
    if (o.out.empty())
        fputs(j.c_str(), stdout);
    else
    {
        FILE *fp = fopen(o.out.c_str(), "w");
        if (fp)
        {
            fputs(j.c_str(), fp);
            fclose(fp);
        }
    }
}

// Build variants (the same harness compiled with other flags, e.g. -funsigned-char) run the same targets under a
// suffixed name ("ato" -> "ato@uchar"): the part from '@' on only tells the driver which executable a replay belongs to.
static const Target *find_target(const std::string &name)
{
    std::string base = name;
    size_t at = base.find('@');
    if (at != std::string::npos)
    {
        g_name_suffix = base.substr(at);
        base.resize(at);
    }
    for (auto &t : targets())
        if (base == t.name)
            return &t;
    return nullptr;
}

static int do_replay(Opts &o)
{
    std::string txt = read_file(o.replay_file);
    if (txt.empty())
    {
        fprintf(stderr, "cannot read %s\n", o.replay_file.c_str());
        return 2;
    }
    std::string target, mode, data, sig;
    std::vector<Pre> pre;
    size_t pos = 0;
    while (pos < txt.size())
    {
        size_t e = txt.find('\n', pos);
        if (e == std::string::npos)
            e = txt.size();
        std::string line = txt.substr(pos, e - pos);
        pos = e + 1;
        if (line.compare(0, 3, "---") == 0)
            break;
        size_t sp = line.find(' ');
        std::string k = line.substr(0, sp), v = sp == std::string::npos ? "" : line.substr(sp + 1);
        if (k == "target")
            target = v;
        else if (k == "mode")
            mode = v;
        else if (k == "data")
            data = v;
        else if (k == "pre")
        {
            Pre p;
            p.bytes = fromhex(v);
            pre.push_back(std::move(p));
        }
        else if (k == "pre_enum")
        {
            Pre p;
            p.is_enum = true;
            p.k = strtoull(v.c_str(), nullptr, 10);
            pre.push_back(std::move(p));
        }
        else if (k == "signature")
            sig = v;
        else if (k == "property")
            o.prop = v;
    }
    const Target *t = find_target(target);
    if (!t)
    {
        fprintf(stderr, "unknown target %s\n", target.c_str());
        return 2;
    }
    bool is_enum = mode == "enum";
    std::vector<uint8_t> bytes;
    uint64_t k = 0;
    if (is_enum)
        k = strtoull(data.c_str(), nullptr, 10);
    else
        bytes = fromhex(data);
    Outcome r = run_isolated(o, *t, is_enum, k, bytes, std::max(o.hang_s, 10.0) * (pre.empty() ? 1 : 2), pre.empty() ? nullptr : &pre);
    static const char *names[] = {"PASS", "DISCARD", "FAIL", "CRASH", "HANG"};
    printf("replay %s: %s", o.replay_file.c_str(), names[r.verdict]);
    if (r.verdict >= 2)
        printf(" signature=%s (recorded %s)\n%s\n", r.sig.c_str(), sig.c_str(), r.msg.c_str());
    else
        printf(" (recorded signature %s)\n", sig.c_str());
    if (!r.desc.empty())
        printf("--- decoded case\n%s\n", r.desc.c_str());
    return r.verdict >= 2 ? 1 : 0;
}

} // namespace vpbt

extern "C" const char *__asan_default_options()
{
    return "detect_leaks=0:abort_on_error=0:exitcode=99:detect_stack_use_after_return=1:"
           "allocator_may_return_null=1:handle_abort=1:malloc_context_size=6";
}
extern "C" const char *__ubsan_default_options() { return "print_stacktrace=0"; }
extern "C" const char *__tsan_default_options()
{
    return "halt_on_error=1:abort_on_error=0:exitcode=98:report_signal_unsafe=0:history_size=4";
}

#ifndef VPBT_LIBFUZZER
int main(int argc, char **argv)
{
    using namespace vpbt;
    Opts o;
    bool list = false;
    for (int i = 1; i < argc; i++)
    {
        std::string a = argv[i];
        auto val = [&]() -> std::string { return i + 1 < argc ? argv[++i] : ""; };
        if (a == "--list")
            list = true;
        else if (a == "--prop")
            o.prop = val();
        else if (a == "--target")
            o.target = val();
        else if (a == "--mode")
            o.mode = val();
        else if (a == "--seed")
            o.seed = strtoull(val().c_str(), nullptr, 10);
        else if (a == "--count")
            o.count = strtoull(val().c_str(), nullptr, 10);
        else if (a == "--enum-limit")
            o.enum_limit = strtoull(val().c_str(), nullptr, 10);
        else if (a == "--workers")
            o.workers = atoi(val().c_str());
        else if (a == "--out")
            o.out = val();
        else if (a == "--replay-dir")
            o.replay_dir = val();
        else if (a == "--errdir")
            o.errdir = val();
        else if (a == "--replay")
            o.replay_file = val();
        else if (a == "--maxlen")
            o.maxlen = (unsigned)atoi(val().c_str());
        else if (a == "--hang-s")
            o.hang_s = atof(val().c_str());
        else if (a == "--tier")
            g_tier = atoi(val().c_str());
        else if (a == "--known")
        {
            std::string v = val();
            size_t p = 0;
            while (p < v.size())
            {
                size_t e = v.find(',', p);
                if (e == std::string::npos)
                    e = v.size();
                if (e > p)
                    g_known.push_back(v.substr(p, e - p));
                p = e + 1;
            }
        }
        else
        {
            fprintf(stderr, "unknown option %s\n", a.c_str());
            return 2;
        }
    }
    if (list)
    {
        for (auto &t : targets())
        {
            uint64_t q = t.enum_size ? (uint64_t)t.enum_size(0) : 0;
            uint64_t th = t.enum_size ? (uint64_t)t.enum_size(1) : 0;
            printf("%s enum_quick=%llu enum_thorough=%llu\n", t.name, (unsigned long long)q,
                   (unsigned long long)th);
        }
        return 0;
    }
    if (o.workers < 1)
        o.workers = 1;
    if (!o.replay_file.empty())
        return do_replay(o);
    const Target *t = find_target(o.target);
    if (!t)
    {
        fprintf(stderr, "unknown target '%s'\n", o.target.c_str());
        return 2;
    }
    Stats st;
    uint64_t t0 = now_ns();
    bool is_enum = o.mode == "enum";
    uint64_t total = o.count;
    if (is_enum)
    {
        total = t->enum_size ? (uint64_t)t->enum_size(g_tier) : 0;
        if (o.enum_limit && o.enum_limit < total)
        {
            total = o.enum_limit;
            st.incomplete = true;
            st.incomplete_why = "enumeration truncated by --enum-limit";
        }
    }
    if (total)
        run_campaign(o, *t, st, is_enum, total);
    double wall = (now_ns() - t0) / 1e9;
    write_result(o, *t, st, wall, total, is_enum);
    return st.failures.empty() ? 0 : 1;
}
#else
// ---------------------------------------------------------------- libFuzzer
#include <atomic>
namespace
{
const vpbt::Target *fz_target;
vpbt::Opts fz_opts;
std::unordered_set<uint64_t> fz_distinct;
uint64_t fz_execs, fz_nontrivial;
std::map<std::string, uint64_t> fz_labels, fz_known;
std::vector<std::string> fz_samples;
void fz_dump()
{
    const char *path = getenv("VPBT_FUZZ_STATS");
    if (!path)
        return;
    std::string p = std::string(path) + "." + std::to_string(getpid());
    FILE *fp = fopen(p.c_str(), "w");
    if (!fp)
        return;
    fprintf(fp, "{\"execs\": %llu, \"nontrivial\": %llu, \"distinct_nontrivial\": %zu, \"labels\": {",
            (unsigned long long)fz_execs, (unsigned long long)fz_nontrivial, fz_distinct.size());
    bool first = true;
    for (auto &kv : fz_labels)
    {
        fprintf(fp, "%s\"%s\": %llu", first ? "" : ", ", vpbt::json_escape(kv.first).c_str(),
                (unsigned long long)kv.second);
        first = false;
    }
    fprintf(fp, "}, \"known_hits\": {");
    first = true;
    for (auto &kv : fz_known)
    {
        fprintf(fp, "%s\"%s\": %llu", first ? "" : ", ", vpbt::json_escape(kv.first).c_str(),
                (unsigned long long)kv.second);
        first = false;
    }
    fprintf(fp, "}, \"samples\": [");
    first = true;
    for (auto &s : fz_samples)
    {
        fprintf(fp, "%s\"%s\"", first ? "" : ", ", vpbt::json_escape(s).c_str());
        first = false;
    }
    fprintf(fp, "], \"hashes\": [");
    first = true;
    size_t cnt = 0;
    for (auto h : fz_distinct)
    {
        if (cnt++ > 2000000)
            break;
        fprintf(fp, "%s%llu", first ? "" : ",", (unsigned long long)h);
        first = false;
    }
    fprintf(fp, "]}\n");
    fclose(fp);
}
} // namespace

extern "C" int LLVMFuzzerInitialize(int *, char ***)
{
    using namespace vpbt;
    const char *tn = getenv("VPBT_TARGET");
    fz_target = find_target(tn ? tn : "");
    if (!fz_target)
    {
        fprintf(stderr, "VPBT_TARGET unknown\n");
        exit(2);
    }
    if (const char *p = getenv("VPBT_PROP"))
        fz_opts.prop = p;
    if (const char *p = getenv("VPBT_REPLAY_DIR"))
        fz_opts.replay_dir = p;
    if (const char *p = getenv("VPBT_TIER"))
        g_tier = atoi(p);
    if (const char *kn = getenv("VPBT_KNOWN"))
    {
        std::string v = kn;
        size_t p = 0;
        while (p < v.size())
        {
            size_t e = v.find(',', p);
            if (e == std::string::npos)
                e = v.size();
            if (e > p)
                g_known.push_back(v.substr(p, e - p));
            p = e + 1;
        }
    }
    atexit(fz_dump);
    return 0;
}

extern "C" int LLVMFuzzerTestOneInput(const uint8_t *data, size_t size)
{
    using namespace vpbt;
    Src s(data, size);
    Case c;
    RunResult r = run_in_process(*fz_target, s, c);
    fz_execs++;
    for (auto l : c.labels)
        fz_labels[l]++;
    for (auto l : c.known_hits)
        fz_known[l]++;
    if (r.verdict == 0 && c.nontrivial)
    {
        fz_nontrivial++;
        if (fz_distinct.size() < 3000000)
            fz_distinct.insert(fnv(c.desc.data(), c.desc.size()));
        if (fz_samples.size() < 3)
            fz_samples.push_back(c.desc.substr(0, 1200));
    }
    if (r.verdict == 2)
    {
        Failure f;
        f.kind = "fail";
        f.sig = r.sig;
        f.msg = r.msg;
        f.desc = c.desc;
        f.bytes.assign(data, data + size);
        write_replay(fz_opts, *fz_target, f);
        fprintf(stderr, "VPBT-FUZZ-FAIL signature=%s replay=%s\n%s\n", r.sig.c_str(),
                f.replay.c_str(), r.msg.c_str());
        fz_dump();
        abort();
    }
    return 0;
}
#endif
