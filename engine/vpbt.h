// vpbt — a small choice-sequence property-based-testing engine (see DESIGN.md §2).
//
// A target is `void run(vpbt::Src&, vpbt::Case&)`; it decodes a case from the
// choice sequence, logs a human-readable decoding into Case, marks it
// non-trivial / labels it, and signals a failure by VP_FAIL / VP_CHECK (which
// throw vpbt::Fail) — or by crashing / hanging, which the parent observes.
//
// Drivers (all in vpbt_main.cpp): random generation in forked workers with a
// watchdog, bounded exhaustive enumeration (Src in mixed-radix mode), replay
// of one saved case, out-of-process shrinking, and a libFuzzer entry point.
#pragma once
#include <cstdarg>
#include <cstdint>
#include <cstdio>
#include <cstring>
#include <functional>
#include <initializer_list>
#include <limits>
#include <string>
#include <type_traits>
#include <vector>

namespace vpbt
{

struct Fail
{
    std::string sig;
    std::string msg;
};
struct Discard
{
};

// -------------------------------------------------------------------------
// Src: cursor over a byte string (random / shrunk / fuzz cases), or a
// mixed-radix counter (enumeration). Reading past the end yields 0, so a
// truncated or zeroed string is always a simpler valid case.
class Src
{
    const uint8_t *p_ = nullptr;
    size_t n_ = 0, i_ = 0;
    bool enum_ = false;
    unsigned __int128 k_ = 0;
    bool overflow_ = false; // enum: asked for more radix than the space has

  public:
    Src(const uint8_t *p, size_t n) : p_(p), n_(n) {}
    explicit Src(unsigned __int128 k) : enum_(true), k_(k) {}
    bool enum_mode() const { return enum_; }
    bool enum_clean() const { return k_ == 0; } // whole index consumed
    size_t consumed() const { return i_; }
    bool exhausted() const { return enum_ ? k_ == 0 : i_ >= n_; }

    uint8_t u8()
    {
        if (enum_)
            return (uint8_t)below(256);
        return i_ < n_ ? p_[i_++] : (i_++, 0);
    }
    // uniform-ish integer in [0, span)
    uint64_t below(uint64_t span)
    {
        if (span <= 1)
            return 0;
        if (enum_)
        {
            uint64_t v = (uint64_t)(k_ % span);
            k_ /= span;
            return v;
        }
        if (span <= 256)
            return u8() % span;
        if (span <= 65536)
        {
            uint32_t v = u8();
            v |= (uint32_t)u8() << 8;
            return v % span;
        }
        uint64_t v = 0;
        int nb = span <= (1ull << 32) ? 4 : 8;
        for (int i = 0; i < nb; i++)
            v |= (uint64_t)u8() << (8 * i);
        return v % span;
    }
    // inclusive range
    int64_t range(int64_t lo, int64_t hi)
    {
        if (hi <= lo)
            return lo;
        return lo + (int64_t)below((uint64_t)(hi - lo) + 1);
    }
    bool coin() { return below(2) != 0; }
    // true with probability ~ num/den
    bool chance(unsigned num, unsigned den) { return below(den) < num; }
    uint16_t u16()
    {
        uint16_t v = u8();
        return v | (uint16_t)(u8() << 8);
    }
    uint32_t u32()
    {
        uint32_t v = u16();
        return v | ((uint32_t)u16() << 16);
    }
    uint64_t u64()
    {
        uint64_t v = u32();
        return v | ((uint64_t)u32() << 32);
    }
    template <class T> const T &pick(const std::vector<T> &v)
    {
        return v[below(v.size())];
    }
    template <class T> T pick(std::initializer_list<T> l)
    {
        return *(l.begin() + below(l.size()));
    }
    // index chosen with the given integer weights; index 0 is the "simplest"
    size_t weighted(std::initializer_list<unsigned> w)
    {
        unsigned tot = 0;
        for (unsigned x : w)
            tot += x;
        uint64_t r = below(tot);
        size_t i = 0;
        for (unsigned x : w)
        {
            if (r < x)
                return i;
            r -= x;
            i++;
        }
        return 0;
    }
    void bytes(uint8_t *out, size_t n)
    {
        for (size_t i = 0; i < n; i++)
            out[i] = u8();
    }
    // boundary-biased integer of type T: 0, ±1, min, max, powers of two ±1,
    // small values, then uniform.
    template <class T> T biased_int()
    {
        using U = typename std::make_unsigned<T>::type;
        const int bits = sizeof(T) * 8;
        switch (below(8))
        {
        case 0:
        {
            static const int small[] = {0, 1, -1, 2, -2, 9, 10, -10, 99, 100, 7, 8, 15, 16, 35, 36};
            return (T)small[below(16)];
        }
        case 1:
            return below(2) ? std::numeric_limits<T>::min()
                            : std::numeric_limits<T>::max();
        case 2:
        {
            T lim = below(2) ? std::numeric_limits<T>::min()
                             : std::numeric_limits<T>::max();
            return (T)((U)lim + (U)(range(-3, 3)));
        }
        case 3:
        {
            U v = (U)1 << below(bits);
            v = (U)(v + (U)range(-1, 1));
            return below(2) ? (T)v : (T)(U)(0 - v);
        }
        case 4:
            return (T)(U)range(-300, 300);
        case 5:
        {
            // a value with a random number of significant bits
            int nb = 1 + (int)below(bits);
            U v = (U)u64();
            if (nb < bits)
                v &= (((U)1 << nb) - 1);
            return below(2) ? (T)v : (T)(U)(0 - v);
        }
        default:
            return (T)(U)u64();
        }
    }
};

// -------------------------------------------------------------------------
// Case: decoded description, non-trivial flag, labels, known-finding hits.
struct Case
{
    std::string desc;
    bool nontrivial = false;
    bool want_desc = true;
    uint64_t work = 0; // inner executions a case stands for (e.g. schedules explored); summed into work_units
    std::vector<const char *> labels;
    std::vector<const char *> known_hits;

    void log(const char *fmt, ...) __attribute__((format(printf, 2, 3)))
    {
        if (!want_desc)
            return;
        char buf[512];
        va_list ap;
        va_start(ap, fmt);
        int n = vsnprintf(buf, sizeof buf, fmt, ap);
        va_end(ap);
        if (n < 0)
            return;
        if ((size_t)n >= sizeof buf)
            n = sizeof buf - 1;
        if (desc.size() < 16384)
            desc.append(buf, (size_t)n);
        mirror();
    }
    // replay/shrink runs mirror the description into shared memory so that it survives a
    // watchdog kill (a hang has no other way of saying what the case was)
    static char *&shm()
    {
        static char *p = nullptr;
        return p;
    }
    static constexpr size_t kShmCap = 16384;
    void mirror()
    {
        char *p = shm();
        if (!p)
            return;
        size_t n = desc.size() < kShmCap - 1 ? desc.size() : kShmCap - 1;
        memcpy(p, desc.data(), n);
        p[n] = 0;
    }
    void label(const char *l)
    {
        for (auto x : labels)
            if (x == l || !strcmp(x, l))
                return;
        labels.push_back(l);
    }
    void known_hit(const char *id)
    {
        for (auto x : known_hits)
            if (!strcmp(x, id))
                return;
        known_hits.push_back(id);
    }
};

std::string hexdump(const void *p, size_t n, size_t max = 64);
std::string fmt(const char *f, ...) __attribute__((format(printf, 1, 2)));

#define VP_FAIL(sig, ...) throw ::vpbt::Fail{(sig), ::vpbt::fmt(__VA_ARGS__)}
#define VP_CHECK(cond, sig, ...)                                               \
    do                                                                         \
    {                                                                          \
        if (!(cond))                                                           \
            VP_FAIL(sig, __VA_ARGS__);                                         \
    } while (0)

// Is the known finding `id` (from /verif/known_findings.json, status known)
// active for this run? Generators use it to exclude the *specific* failing
// input class by construction; oracles use it to count a hit instead of failing.
bool known_active(const char *id);
// which tier the run is (0 quick, 1 thorough) — for size schedules only
int tier();

struct Target
{
    const char *name;
    void (*run)(Src &, Case &);
    // enumeration: number of cases in the bounded space for the tier (0 = none)
    unsigned __int128 (*enum_size)(int tier);
    // a hang of this target is a property violation (else: reported as such
    // only when the harness says so)
    bool hang_is_violation;
    const char *nt_rule;
};

void register_target(const Target &t);

struct Registrar
{
    Registrar(const char *name, void (*run)(Src &, Case &), const char *nt_rule,
              unsigned __int128 (*enum_size)(int) = nullptr,
              bool hang_is_violation = true)
    {
        register_target(Target{name, run, enum_size, hang_is_violation, nt_rule});
    }
};
#define VP_TARGET(name, fn, rule, ...)                                         \
    static ::vpbt::Registrar vp_reg_##fn(name, fn, rule, ##__VA_ARGS__)

// Exactly-sized heap block helpers: data sits flush against the end of the
// allocation (and the start), so ASan faults on the first byte outside.
struct Exact
{
    uint8_t *base; // what was allocated
    uint8_t *p;    // the n usable bytes, flush against the end of the allocation
    size_t n;
    // ASan turns a zero-size request into one addressable byte, which would hide a read of
    // an empty buffer: an empty block is the one-past-the-end pointer of a 1-byte allocation.
    explicit Exact(size_t n_) : base((uint8_t *)::operator new(n_ ? n_ : 1)), p(n_ ? base : base + 1), n(n_) {}
    Exact(const void *src, size_t n_) : Exact(n_)
    {
        if (n_)
            memcpy(p, src, n_);
    }
    ~Exact() { ::operator delete(base); }
    Exact(const Exact &) = delete;
    Exact &operator=(const Exact &) = delete;
    char *c() { return (char *)p; }
};

} // namespace vpbt
