// C06 — printf engine: integer, char, string and pointer conversions match
// ISO C. Targets: printf_int (random formats), printf_grid (exhaustive grid).
#include "printf_common.h"
#include <climits>
#include <memory>

using namespace vpbt;
using pf::Arg;

namespace
{

struct Built
{
    std::string fmt;
    std::vector<Arg> args;
    std::vector<std::unique_ptr<Exact>> blocks; // string arguments
    bool decorated = false;                     // some flag/width/precision/length present
    bool has_p = false;
    // for %p formats: literal prefix/suffix and the directive's parameters
    std::string p_prefix, p_suffix;
    int p_width = 0;
    bool p_left = false;
    const void *p_value = nullptr;
};

const char *kLen[] = {"", "hh", "h", "l", "ll", "j", "z", "t"};

// allowed flags per conversion (ISO C 7.21.6.1: anything else is undefined)
unsigned allowed_flags(char conv)
{
    // bit0 '-', bit1 '+', bit2 ' ', bit3 '#', bit4 '0'
    switch (conv)
    {
    case 'd':
    case 'i':
        return 1 | 2 | 4 | 16;
    case 'u':
        return 1 | 16;
    case 'o':
    case 'x':
    case 'X':
        return 1 | 8 | 16;
    default:
        return 1; // c s p
    }
}
bool is_intconv(char c) { return strchr("diuoxX", c) != nullptr; }

std::string flag_string(unsigned mask, Src *order)
{
    static const char fl[] = {'-', '+', ' ', '#', '0'};
    std::string s;
    int idx[5] = {0, 1, 2, 3, 4};
    if (order)
        for (int i = 4; i > 0; i--)
            std::swap(idx[i], idx[order->below((uint64_t)i + 1)]);
    for (int i = 0; i < 5; i++)
        if (mask & (1u << idx[i]))
            s += fl[idx[i]];
    return s;
}

long long gen_int_value(Src &s, int len, bool is_signed)
{
    // exact promoted type: none/hh/h -> int; l,j,z,t -> long; ll -> long long
    if (len <= 2)
        return is_signed ? (long long)s.biased_int<int>() : (long long)(int)s.biased_int<unsigned>();
    return is_signed ? s.biased_int<long long>() : (long long)s.biased_int<unsigned long long>();
}
pf::Cls cls_of_len(int len) { return len <= 2 ? pf::A_INT : len == 4 ? pf::A_LLONG : pf::A_LONG; }

// Append one directive; returns false if it does not fit the argument budget.
// width_kind: 0 none, 1 literal, 2 star. prec_kind: 0 none, 1 ".", 2 ".N", 3 ".*"
bool add_directive(Built &b, Case &c, char conv, unsigned flags, int width_kind, int width, int prec_kind, int prec,
                   int len, long long ival, const std::string &sval, bool unterminated, const void *pval,
                   Src *flag_order)
{
    size_t need = 1 + (width_kind == 2) + (prec_kind == 3);
    if (b.args.size() + need > pf::kMaxArgs)
        return false;
    std::string d = "%";
    d += flag_string(flags, flag_order);
    if (width_kind == 1)
        d += std::to_string(width);
    else if (width_kind == 2)
    {
        d += "*";
        b.args.push_back(Arg{pf::A_INT, width});
    }
    if (prec_kind == 1)
        d += ".";
    else if (prec_kind == 2)
        d += "." + std::to_string(prec);
    else if (prec_kind == 3)
    {
        d += ".*";
        b.args.push_back(Arg{pf::A_INT, prec});
    }
    d += kLen[len];
    d += conv;
    if (flags || width_kind || prec_kind || len)
        b.decorated = true;
    if (is_intconv(conv))
    {
        Arg a{cls_of_len(len), ival};
        b.args.push_back(a);
        c.log("[%s arg=%lld] ", d.c_str(), ival);
        if (ival == 0)
            c.label("zero");
        if (ival < 0 && (conv == 'd' || conv == 'i'))
            c.label("neg");
        if (ival == INT_MIN || ival == LLONG_MIN)
            c.label("min");
    }
    else if (conv == 'c')
    {
        b.args.push_back(Arg{pf::A_INT, ival});
        c.log("[%s arg=%lld] ", d.c_str(), ival);
        if (ival == 0)
            c.label("char_nul");
    }
    else if (conv == 's')
    {
        size_t n = sval.size();
        auto blk = std::make_unique<Exact>(n + (unterminated ? 0 : 1));
        memcpy(blk->p, sval.data(), n);
        if (!unterminated)
            blk->p[n] = 0;
        Arg a{pf::A_PTR};
        a.p = blk->p;
        if (unterminated)
        {
            auto copy = std::make_unique<Exact>(n + 1);
            memcpy(copy->p, sval.data(), n);
            copy->p[n] = 0;
            a.p_host = copy->p;
            b.blocks.push_back(std::move(copy));
        }
        b.args.push_back(a);
        b.blocks.push_back(std::move(blk));
        c.log("[%s arg=\"%s\"%s] ", d.c_str(), hexdump(sval.data(), n, 40).c_str(), unterminated ? " UNTERMINATED" : "");
        if (unterminated)
            c.label("unterminated");
        if (n == 0)
            c.label("empty_string");
    }
    else // p
    {
        Arg a{pf::A_PTR};
        a.p = pval;
        b.args.push_back(a);
        b.has_p = true;
        b.p_value = pval;
        b.p_left = flags & 1;
        b.p_width = width_kind == 0 ? 0 : width;
        if (width_kind == 2 && width < 0)
        {
            b.p_left = true;
            b.p_width = -width;
        }
        c.log("[%s arg=%p] ", d.c_str(), pval);
    }
    if (width_kind == 2 && width < 0)
        c.label("star_neg");
    static const char *convlab[] = {"conv_d", "conv_i", "conv_u", "conv_o", "conv_x", "conv_X", "conv_c", "conv_s", "conv_p"};
    c.label(convlab[strchr("diuoxXcsp", conv) - "diuoxXcsp"]);
    if (flags & 1)
        c.label("flag_minus");
    if (flags & 2)
        c.label("flag_plus");
    if (flags & 4)
        c.label("flag_space");
    if (flags & 8)
        c.label("flag_hash");
    if (flags & 16)
        c.label("flag_zero");
    if (prec_kind)
        c.label("precision");
    if (width_kind == 1)
        c.label("literal_width");
    b.fmt += d;
    return true;
}

std::string gen_literal(Src &s, bool for_p)
{
    std::string t;
    int n = (int)s.weighted({4, 3, 2, 1});
    for (int i = 0; i < n; i++)
    {
        if (for_p)
        {
            t += "[<|>]#:"[s.below(7)];
        }
        else
        {
            int k = (int)s.below(12);
            if (k == 0)
                t += "%%";
            else
                t += " abcXYZ019:-+"[1 + s.below(11)];
        }
    }
    return t;
}

void check_p(Case &c, const Built &b, const pf::Result &r)
{
    (void)c;
    const std::string &out = r.cap.out;
    VP_CHECK(r.igris_ret == (int)r.cap.calls && r.cap.calls == (long)out.size(), "ret_vs_emitted",
             "returned %d, callback calls %ld", r.igris_ret, r.cap.calls);
    VP_CHECK(out.size() >= b.p_prefix.size() + b.p_suffix.size() && out.compare(0, b.p_prefix.size(), b.p_prefix) == 0 &&
                 out.compare(out.size() - b.p_suffix.size(), b.p_suffix.size(), b.p_suffix) == 0,
             "p_literal_text", "output '%s' lost the literal text", out.c_str());
    std::string mid = out.substr(b.p_prefix.size(), out.size() - b.p_prefix.size() - b.p_suffix.size());
    // padding: spaces on the side the flags say, only as far as the width
    size_t lead = 0, trail = 0;
    while (lead < mid.size() && mid[lead] == ' ')
        lead++;
    while (trail < mid.size() - lead && mid[mid.size() - 1 - trail] == ' ')
        trail++;
    std::string core = mid.substr(lead, mid.size() - lead - trail);
    VP_CHECK(core.size() > 2 && core[0] == '0' && core[1] == 'x', "p_shape", "%%p rendered as '%s' (want 0x + hex digits)",
             mid.c_str());
    for (size_t i = 2; i < core.size(); i++)
        VP_CHECK(isxdigit((unsigned char)core[i]), "p_shape", "%%p rendered as '%s' (non-hex digit)", mid.c_str());
    VP_CHECK(core.size() - 2 <= 16 && strtoull(core.c_str() + 2, nullptr, 16) == (unsigned long long)(uintptr_t)b.p_value,
             "p_value", "%%p of %p rendered as '%s'", b.p_value, mid.c_str());
    VP_CHECK((int)mid.size() >= b.p_width, "p_width", "%%p field '%s' shorter than width %d", mid.c_str(), b.p_width);
    if (lead + trail)
    {
        VP_CHECK((int)mid.size() == b.p_width, "p_width", "%%p field '%s' padded beyond width %d", mid.c_str(), b.p_width);
        VP_CHECK(b.p_left ? lead == 0 : trail == 0, "p_justify", "%%p field '%s' padded on the wrong side (left=%d)",
                 mid.c_str(), (int)b.p_left);
    }
}

// the printf_reentrant target: the output callback re-enters __printf (see printf_common.h)
static int g_reenter_every = 0;
static long long g_reenter_val = 0;

void run_and_check(Case &c, Built &b, bool do_sprintf)
{
    pf::Result r;
    r.do_sprintf = do_sprintf && !b.has_p;
    r.cap.reenter_every = g_reenter_every;
    r.cap.reenter_val = g_reenter_val;
    // every fourth vsprintf-routed case also goes through the shim's vfdprintf (into a memory file)
    r.do_fdprintf = do_sprintf && !b.has_p && (b.fmt.size() % 2 == 0);
    pf::run_both(r, b.fmt.c_str(), b.args);
    if (g_reenter_every && r.cap.inner_runs)
    {
        char want[96];
        snprintf(want, sizeof want, "%lld;%x;%o;%s", g_reenter_val, (unsigned)g_reenter_val, (unsigned)(g_reenter_val >> 7), "in");
        c.label("callback_reentered");
        VP_CHECK(r.cap.inner_out == want, "reentrant_inner_output", "the call made from inside the output callback printed '%s', ISO '%s'", r.cap.inner_out.c_str(), want);
    }
    if (b.has_p)
    {
        check_p(c, b, r);
        return;
    }
    VP_CHECK(r.host_ret >= 0 && r.host_ret < 4000, "harness_host_snprintf", "host snprintf returned %d", r.host_ret);
    VP_CHECK(r.cap.out.size() == r.host.size() && memcmp(r.cap.out.data(), r.host.data(), r.host.size()) == 0, "output_differs",
             "igris '%s' [%s]  ISO/glibc '%s' [%s]", r.cap.out.c_str(), hexdump(r.cap.out.data(), r.cap.out.size(), 40).c_str(),
             r.host.c_str(), hexdump(r.host.data(), r.host.size(), 40).c_str());
    VP_CHECK(r.igris_ret == (int)r.cap.calls, "ret_vs_emitted", "returned %d, callback calls %ld", r.igris_ret, r.cap.calls);
    VP_CHECK(r.igris_ret == r.host_ret, "return_value", "returned %d, ISO %d", r.igris_ret, r.host_ret);
    if (r.do_fdprintf)
    {
        c.label("fdprintf_route");
        VP_CHECK(r.fd_ret == r.host_ret, "fdprintf_return", "vfdprintf returned %d, ISO %d", r.fd_ret, r.host_ret);
        VP_CHECK(r.fd_out == r.host, "fdprintf_output", "vfdprintf wrote %zu bytes '%s', ISO %zu bytes '%s'", r.fd_out.size(), hexdump(r.fd_out.data(), r.fd_out.size(), 40).c_str(),
                 r.host.size(), r.host.c_str());
    }
    if (r.do_sprintf)
    {
        VP_CHECK(r.sp_ret == r.host_ret, "sprintf_return", "vsprintf returned %d, ISO %d", r.sp_ret, r.host_ret);
        VP_CHECK(memcmp(r.sp_out.data(), r.host.data(), r.host.size()) == 0 && r.sp_out[r.host.size()] == 0, "sprintf_output",
                 "vsprintf wrote '%s', ISO '%s'", hexdump(r.sp_out.data(), r.sp_out.size(), 40).c_str(), r.host.c_str());
        VP_CHECK(r.sn_ret == r.host_ret, "snprintf_return", "snprintf(buf, %d, ...) returned %d, ISO %d", r.host_ret + 1, r.sn_ret, r.host_ret);
        VP_CHECK(memcmp(r.sn_out.data(), r.host.data(), r.host.size()) == 0 && r.sn_out[r.host.size()] == 0, "snprintf_output",
                 "snprintf into a buffer of exactly %d bytes wrote '%s', ISO '%s'", r.host_ret + 1, hexdump(r.sn_out.data(), r.sn_out.size(), 40).c_str(),
                 r.host.c_str());
    }
}

// ------------------------------------------------------------------ random
void t_printf_int(Src &s, Case &c)
{
    Built b;
    bool p_format = s.below(10) == 0;
    if (p_format)
    {
        b.p_prefix = gen_literal(s, true);
        b.fmt = b.p_prefix;
        unsigned flags = s.coin() ? 1 : 0;
        int wk = (int)s.weighted({2, 2, 1});
        int width = wk == 1 ? (int)s.range(1, 40) : wk == 2 ? (int)s.range(-40, 40) : 0;
        const void *pv;
        static int some_static;
        switch (s.below(5))
        {
        case 0:
            pv = nullptr;
            break;
        case 1:
            pv = &some_static;
            break;
        case 2:
            pv = (const void *)(uintptr_t)s.range(1, 4096);
            break;
        case 3:
            pv = &b;
            break;
        default:
            pv = (const void *)(uintptr_t)s.biased_int<uint64_t>();
        }
        add_directive(b, c, 'p', flags, wk, width, 0, 0, 0, 0, "", false, pv, nullptr);
        b.p_suffix = gen_literal(s, true);
        b.fmt += b.p_suffix;
        c.log("fmt=\"%s\"", b.fmt.c_str());
        c.nontrivial = b.decorated;
        run_and_check(c, b, false);
        return;
    }
    int ndir = (int)s.weighted({0, 5, 3, 2});
    b.fmt += gen_literal(s, false);
    for (int di = 0; di < ndir; di++)
    {
        char conv = "diuoxXcs"[s.weighted({4, 2, 3, 2, 3, 2, 2, 3})];
        unsigned flags = 0;
        if (s.below(3) != 0)
            flags = (unsigned)s.below(32) & allowed_flags(conv);
        int wk = (int)s.weighted({3, 3, 2});
        int width = wk == 1 ? (int)s.range(1, 40) : wk == 2 ? (int)s.range(-40, 40) : 0;
        if (wk == 1 && s.coin())
            width = (int)s.range(1, 12);
        int pk = 0, prec = 0;
        if (conv != 'c')
        {
            pk = (int)s.weighted({4, 1, 3, 2});
            prec = pk == 2 ? (int)s.range(0, 40) : pk == 3 ? (int)s.range(-5, 40) : 0;
            if (pk >= 2 && s.coin() && prec > 12)
                prec = (int)s.range(0, 12);
        }
        int len = is_intconv(conv) ? (int)s.weighted({4, 1, 1, 2, 2, 1, 1, 1}) : 0;
        long long ival = 0;
        std::string sval;
        bool unterminated = false;
        if (is_intconv(conv))
            ival = gen_int_value(s, len, conv == 'd' || conv == 'i');
        else if (conv == 'c')
            ival = s.below(6) == 0 ? 0 : (long long)s.range(1, 255);
        else
        {
            size_t n = (size_t)(s.coin() ? s.range(0, 6) : s.range(0, 30));
            for (size_t i = 0; i < n; i++)
                sval += (char)(s.below(4) == 0 ? s.range(1, 255) : s.range(0x20, 0x7e));
            // unterminated only when an explicit non-negative precision bounds the read
            int eff_prec = pk == 1 ? 0 : prec;
            if (pk != 0 && eff_prec >= 0 && (size_t)eff_prec <= n && s.below(3) == 0)
                unterminated = true;
        }
        if (!add_directive(b, c, conv, flags, wk, width, pk, prec, len, ival, sval, unterminated, nullptr, &s))
            break;
        b.fmt += gen_literal(s, false);
    }
    c.log("fmt=\"%s\"", b.fmt.c_str());
    c.nontrivial = b.decorated;
    run_and_check(c, b, s.below(4) == 0);
}

// ------------------------------------------------------------- wide fields
// One directive whose width and/or precision is far beyond any small counter (around 256, and 1000..1100),
// literal or through *; %s arguments of up to 300 characters. Same differential against the host.
void t_printf_wide(Src &s, Case &c)
{
    Built b;
    b.fmt += gen_literal(s, false);
    char conv = "diuoxXcs"[s.weighted({4, 2, 3, 2, 3, 2, 2, 4})];
    unsigned flags = 0;
    if (s.below(3) != 0)
        flags = (unsigned)s.below(32) & allowed_flags(conv);
    auto big = [&]() -> int {
        switch (s.weighted({3, 2, 2}))
        {
        case 0:
            return (int)s.range(250, 262);
        case 1:
            return (int)s.range(41, 600);
        default:
            return (int)s.range(1000, 1100);
        }
    };
    int wk = (int)s.weighted({1, 3, 3});
    int width = wk ? big() : 0;
    if (wk == 2 && s.below(3) == 0)
        width = -width;
    int pk = 0, prec = 0;
    if (conv != 'c')
    {
        pk = (int)s.weighted({2, 0, 3, 3});
        if (pk)
            prec = s.below(3) == 0 ? (int)s.range(0, 12) : big();
    }
    if (wk == 0 && (pk == 0 || prec <= 12))
    {
        wk = 1;
        width = big();
    }
    int len = is_intconv(conv) ? (int)s.weighted({4, 1, 1, 2, 2, 1, 1, 1}) : 0;
    long long ival = 0;
    std::string sval;
    bool unterminated = false;
    if (is_intconv(conv))
        ival = gen_int_value(s, len, conv == 'd' || conv == 'i');
    else if (conv == 'c')
        ival = s.below(6) == 0 ? 0 : (long long)s.range(1, 255);
    else
    {
        size_t n = (size_t)(s.coin() ? s.range(0, 30) : s.range(250, 300));
        char c0 = (char)s.range(0x21, 0x7e);
        for (size_t i = 0; i < n; i++)
            sval += (char)(0x21 + (c0 - 0x21 + i) % 94);
        if (pk != 0 && prec >= 0 && (size_t)prec <= n && s.below(3) == 0)
            unterminated = true;
    }
    if (!add_directive(b, c, conv, flags, wk, width, pk, prec, len, ival, sval, unterminated, nullptr, &s))
        return;
    b.fmt += gen_literal(s, false);
    c.log("fmt=\"%s\"", b.fmt.c_str());
    c.nontrivial = true;
    c.label("wide_field");
    run_and_check(c, b, s.below(4) == 0);
}
VP_TARGET("printf_wide", t_printf_wide,
          "one directive of the same grammar with width and/or precision in 250..262, 41..600 or 1000..1100 (literal or through *, "
          "negative * widths included), %s arguments of up to 300 characters (unterminated when the precision bounds the read); same "
          "differential against the host; every case non-trivial");

void t_printf_reentrant(Src &s, Case &c)
{
    g_reenter_every = (int)s.range(1, 4);
    g_reenter_val = s.coin() ? (long long)s.range(-100000, 100000) : (long long)s.biased_int<int64_t>();
    struct Off
    {
        ~Off() { g_reenter_every = 0; }
    } off;
    c.log("callback re-enters __printf every %d character(s) with %lld; ", g_reenter_every, g_reenter_val);
    t_printf_int(s, c);
}
VP_TARGET("printf_reentrant", t_printf_reentrant,
          "the formats of printf_int with an output callback that itself calls __printf (integer and %s conversions of a drawn value into its own sink) "
          "every 1..4 characters: the outer output, return value and callback count must still equal the host's, and the inner call's output too");

// -------------------------------------------------------------------- grid
// flags(32) x width{none,1,7,*5,*-5,12} x prec{none,.,.0,.1,.7,.*-1} x len(8) x conv(9) x 8 values
unsigned __int128 grid_size(int) { return (unsigned __int128)32 * 6 * 6 * 8 * 9 * 8; }
void t_printf_grid(Src &s, Case &c)
{
    unsigned flags = (unsigned)s.below(32);
    int wsel = (int)s.below(6), psel = (int)s.below(6), len = (int)s.below(8);
    char conv = "diuoxXcsp"[s.below(9)];
    int vsel = (int)s.below(8);
    if (flags & ~allowed_flags(conv))
        throw Discard{};
    if (!is_intconv(conv) && len)
        throw Discard{};
    if ((conv == 'c' || conv == 'p') && psel)
        throw Discard{};
    static const int wk_t[6] = {0, 1, 1, 2, 2, 1}, wv_t[6] = {0, 1, 7, 5, -5, 12};
    static const int pk_t[6] = {0, 1, 2, 2, 2, 3}, pv_t[6] = {0, 0, 0, 1, 7, -1};
    Built b;
    long long ival = 0;
    std::string sval;
    const void *pv = nullptr;
    if (is_intconv(conv))
    {
        bool sg = conv == 'd' || conv == 'i';
        static const long long v32[8] = {0, 1, -1, INT_MAX, INT_MIN, 42, 255, -128};
        static const long long v64[8] = {0, 1, -1, LLONG_MAX, LLONG_MIN, 42, 4294967296ll, -2147483649ll};
        ival = len <= 2 ? v32[vsel] : v64[vsel];
        if (!sg && len <= 2)
            ival = (long long)(int)(unsigned)ival;
    }
    else if (conv == 'c')
    {
        static const int cv[8] = {0, 'a', ' ', '%', 255, 128, 1, '0'};
        ival = cv[vsel];
    }
    else if (conv == 's')
    {
        static const char *sv[8] = {"", "a", "abc", "hello world", "%d", "\x80\xff", "0123456789", " "};
        sval = sv[vsel];
    }
    else
    {
        static int some_static;
        const void *pvs[8] = {nullptr, &some_static, (void *)1, (void *)0xffff, (void *)~(uintptr_t)0, &b, (void *)0x1000, (void *)0xdeadbeef};
        pv = pvs[vsel];
        b.p_prefix = "<";
        b.p_suffix = ">";
        b.fmt = "<";
    }
    add_directive(b, c, conv, flags, wk_t[wsel], wv_t[wsel], pk_t[psel], pv_t[psel], len, ival, sval, false, pv, nullptr);
    if (conv == 'p')
        b.fmt += ">";
    c.log("fmt=\"%s\"", b.fmt.c_str());
    c.nontrivial = b.decorated;
    run_and_check(c, b, (flags & 1) == 0);
}

} // namespace

VP_TARGET("printf_int", t_printf_int,
          "format = literal text (incl. %%) interleaved with 1-3 directives of the ISO-defined grammar "
          "%[-+ #0]*[width|*][.prec|.*][hh|h|l|ll|j|z|t](d|i|u|o|x|X|c|s|p), boundary-biased arguments of the exact "
          "promoted type (argument budget 4), %s arguments in exactly-sized blocks (unterminated when the precision "
          "bounds the read); oracle = host snprintf (output, return value, callback count); non-trivial = a "
          "directive carries a flag, width, precision or length modifier");
VP_TARGET("printf_grid", t_printf_grid,
          "exhaustive grid flags(32) x width{none,1,7,*5,*-5,12} x precision{none,.,.0,.1,.7,.*-1} x length(8) x "
          "conversion(9) x 8 boundary values; combinations ISO C leaves undefined are discarded",
          grid_size);
