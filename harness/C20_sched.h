// Controlled scheduler for C20: the harness executable defines the pthread
// mutex / condition-variable functions and the POSIX semaphore functions, so
// every synchronisation operation of igris (syslock_mutex.cpp, event.h,
// wait*.cpp, semaphore.h, safe_queue.h — and libstdc++'s std::mutex /
// std::condition_variable underneath them) arrives here. Calls from unmanaged
// threads pass through to the real functions. Managed threads are real
// pthreads but only one runs at a time: at each intercepted call the thread
// reaches a scheduling point, the scheduler models mutexes (owner, depth),
// condition variables (wait set, no spurious wake-ups) and semaphores itself
// and picks the next thread from a choice source. Blocking is exact, so "no
// runnable thread" is a detected quiescence/deadlock, not a timeout.
#pragma once
#include <algorithm>
#include <atomic>
#include <cerrno>
#include <climits>
#include <cstdint>
#include <cstdio>
#include <cstring>
#include <dlfcn.h>
#include <functional>
#include <linux/futex.h>
#include <map>
#include <pthread.h>
#include <semaphore.h>
#include <string>
#include <sys/syscall.h>
#include <unistd.h>
#include <vector>

namespace sched
{

enum TState
{
    T_NEW,
    T_RUNNABLE,   // at a scheduling point, can always proceed
    T_WANT_MUTEX, // wants obj (a mutex); enabled iff free or owned by it
    T_COND_WAIT,  // parked on obj (a condvar); never enabled until signalled
    T_WANT_SEM,   // wants obj (a semaphore); enabled iff count > 0
    T_FINISHED
};

struct Thread
{
    int id = -1;
    pthread_t handle{};
    std::atomic<int> go{0};
    TState state = T_NEW;
    const void *obj = nullptr;
    const void *cond_mutex = nullptr; // mutex to re-acquire after a cond wait
    int cond_depth = 0;
    std::function<void()> body;
};

struct Mutex
{
    int owner = -1;
    int depth = 0;
    std::map<int, long> last_unlock; // thread -> scheduler step of its last unlock
};
struct Cond
{
    std::vector<int> waiters;
    bool destroyed = false;
    long destroy_step = 0;
};
struct Sem
{
    long count = 0;
    int inside = 0;     // managed threads that took a count and have not posted since
    int max_inside = 0; // the most that were in that state at once
};

// one decision of the schedule: how many options there were and which was taken
struct Decision
{
    int options;
    int chosen;
};

struct Scheduler
{
    std::vector<Thread *> threads;
    std::map<const void *, Mutex> mutexes;
    std::map<const void *, Cond> conds;
    std::map<const void *, Sem> sems;
    int current = -1;
    std::atomic<int> controller_go{0};
    bool active = false;

    // choice source: prefix of forced choices, then `fallback` decides
    std::vector<int> prefix;
    std::function<int(int nopts, bool can_continue)> fallback;
    std::vector<Decision> trace;
    int preemptions = 0, preemption_bound = INT_MAX;
    // POSIX lets pthread_cond_wait return without a signal. Each execution may inject up to
    // spurious_bound such wake-ups, as one more option at scheduling points.
    int spurious = 0, spurious_bound = 0;
    long steps = 0, step_limit = 20000;

    // hooks
    std::function<void(int runner)> observer; // called at every scheduling point for the thread that just ran
    std::string violation_sig, violation_msg; // latched, raised by the harness
    bool step_limit_hit = false;

    void latch(const char *sig, const std::string &msg)
    {
        if (violation_sig.empty())
        {
            violation_sig = sig;
            violation_msg = msg;
        }
    }
};

inline Scheduler &S()
{
    static Scheduler s;
    return s;
}
inline thread_local Thread *tl_self = nullptr;

// ------------------------------------------------------------ real functions
template <class F> F real(const char *name)
{
    void *p = dlsym(RTLD_NEXT, name);
    if (!p)
    {
        fprintf(stderr, "C20 scheduler: cannot resolve %s\n", name);
        abort();
    }
    return (F)p;
}
#define REAL(ret, name, ...)                                                                                           \
    static auto fn = real<ret (*)(__VA_ARGS__)>(#name);

inline void futex_wait(std::atomic<int> &w)
{
    while (w.load(std::memory_order_acquire) == 0)
        syscall(SYS_futex, (int *)&w, FUTEX_WAIT_PRIVATE, 0, nullptr, nullptr, 0);
    w.store(0, std::memory_order_release);
}
inline void futex_wake(std::atomic<int> &w)
{
    w.store(1, std::memory_order_release);
    syscall(SYS_futex, (int *)&w, FUTEX_WAKE_PRIVATE, 1, nullptr, nullptr, 0);
}

// ------------------------------------------------------------------ scheduling
inline bool enabled(const Thread &t)
{
    Scheduler &s = S();
    switch (t.state)
    {
    case T_RUNNABLE:
        return true;
    case T_WANT_MUTEX:
    {
        Mutex &m = s.mutexes[t.obj];
        return m.owner < 0 || m.owner == t.id;
    }
    case T_WANT_SEM:
        return s.sems[t.obj].count > 0;
    default:
        return false;
    }
}

// Pick the next thread to run. Called by the running thread `self` (whose state has
// been updated to what it waits for) — returns the chosen thread id or -1 when nobody
// is enabled.
inline int pick_next(int self)
{
    Scheduler &s = S();
    for (;;)
    {
        std::vector<int> others;
        bool self_enabled = self >= 0 && enabled(*s.threads[self]);
        for (auto *t : s.threads)
            if (t->id != self && enabled(*t))
                others.push_back(t->id);
        // options: thread ids >= 0; a spurious wake-up of parked thread w is encoded as -(w + 2)
        std::vector<int> options;
        if (self_enabled)
        {
            options.push_back(self);
            if (s.preemptions < s.preemption_bound)
                for (int o : others)
                    options.push_back(o);
        }
        else
            options = others;
        if (s.spurious < s.spurious_bound)
            for (auto *t : s.threads)
                if (t->state == T_COND_WAIT)
                    options.push_back(-(t->id + 2));
        if (options.empty() || (options[0] < -1 && !self_enabled && others.empty() && false))
            return -1;
        // only spurious wake-ups left and nobody runnable: taking one is still a legal continuation
        int choice = 0;
        if (options.size() > 1)
        {
            size_t at = s.trace.size();
            if (at < s.prefix.size())
                choice = s.prefix[at];
            else if (s.fallback)
                choice = s.fallback((int)options.size(), self_enabled);
            if (choice < 0 || choice >= (int)options.size())
                choice = 0;
            s.trace.push_back(Decision{(int)options.size(), choice});
        }
        int next = options[choice];
        if (next <= -2)
        {
            // spurious return of pthread_cond_wait: the waiter leaves the wait set and competes
            // for its mutex again; then decide again who runs
            int w = -(next + 2);
            Thread *wt = s.threads[w];
            Cond &cc = s.conds[wt->obj];
            cc.waiters.erase(std::remove(cc.waiters.begin(), cc.waiters.end(), w), cc.waiters.end());
            wt->state = T_WANT_MUTEX;
            wt->obj = wt->cond_mutex;
            s.spurious++;
            continue;
        }
        if (self_enabled && next != self)
            s.preemptions++;
        return next;
    }
}

// The running thread reaches a scheduling point (its state says what it needs next).
// Returns when it has been chosen to continue.
inline void yield_now()
{
    Scheduler &s = S();
    Thread *self = tl_self;
    if (s.observer)
        s.observer(self->id);
    if (++s.steps > s.step_limit)
    {
        // runaway schedule (e.g. a live-lock): hand over to the controller for good
        s.step_limit_hit = true;
        futex_wake(s.controller_go);
        futex_wait(self->go);
    }
    int next = pick_next(self->id);
    if (next == self->id)
        return;
    if (next < 0)
    {
        // nobody can run: quiescence or deadlock — the controller decides
        s.current = -1;
        futex_wake(s.controller_go);
        futex_wait(self->go);
        return;
    }
    s.current = next;
    futex_wake(s.threads[next]->go);
    futex_wait(self->go);
}

inline void *thread_entry(void *arg)
{
    Thread *t = (Thread *)arg;
    tl_self = t;
    futex_wait(t->go); // wait for the first baton
    t->state = T_RUNNABLE;
    t->body();
    // finished: pass the baton on
    Scheduler &s = S();
    if (s.observer)
        s.observer(t->id);
    t->state = T_FINISHED;
    tl_self = nullptr;
    int next = pick_next(-1);
    if (next < 0)
    {
        s.current = -1;
        futex_wake(s.controller_go);
    }
    else
    {
        s.current = next;
        futex_wake(s.threads[next]->go);
    }
    return nullptr;
}

// ------------------------------------------------------------- controller API
inline void reset()
{
    Scheduler &s = S();
    for (auto *t : s.threads)
        delete t;
    s.threads.clear();
    s.mutexes.clear();
    s.conds.clear();
    s.sems.clear();
    s.current = -1;
    s.trace.clear();
    s.preemptions = 0;
    s.spurious = 0;
    s.steps = 0;
    s.violation_sig.clear();
    s.violation_msg.clear();
    s.step_limit_hit = false;
    s.controller_go.store(0);
}

inline int add_thread(std::function<void()> body)
{
    Scheduler &s = S();
    Thread *t = new Thread;
    t->id = (int)s.threads.size();
    t->body = std::move(body);
    t->state = T_RUNNABLE; // will start when first given the baton
    s.threads.push_back(t);
    pthread_attr_t attr;
    pthread_attr_init(&attr);
    pthread_attr_setstacksize(&attr, 256 * 1024);
    if (pthread_create(&t->handle, &attr, thread_entry, t) != 0)
    {
        perror("pthread_create");
        abort();
    }
    pthread_attr_destroy(&attr);
    return t->id;
}

// Run until nobody is enabled. Returns true when every thread has finished.
inline bool run_until_quiescent()
{
    Scheduler &s = S();
    s.active = true;
    int first = pick_next(-1);
    if (first >= 0)
    {
        s.current = first;
        futex_wake(s.threads[first]->go);
        futex_wait(s.controller_go);
    }
    s.active = false;
    for (auto *t : s.threads)
        if (t->state != T_FINISHED)
            return false;
    return true;
}

inline void join_finished()
{
    for (auto *t : S().threads)
        if (t->state == T_FINISHED && t->handle)
        {
            pthread_join(t->handle, nullptr);
            t->handle = 0;
        }
}

inline std::string describe_blocked()
{
    std::string r;
    char b[96];
    for (auto *t : S().threads)
        if (t->state != T_FINISHED)
        {
            snprintf(b, sizeof b, "T%d:%s ", t->id,
                     t->state == T_WANT_MUTEX ? "waits-for-mutex" : t->state == T_COND_WAIT ? "parked-on-condvar" : t->state == T_WANT_SEM ? "waits-for-semaphore" : "runnable");
            r += b;
        }
    return r;
}

} // namespace sched

// ------------------------------------------------------------------- interposers
extern "C"
{
    int pthread_mutex_lock(pthread_mutex_t *m)
    {
        using namespace sched;
        if (!tl_self)
        {
            REAL(int, pthread_mutex_lock, pthread_mutex_t *)
            return fn(m);
        }
        Thread *t = tl_self;
        t->state = T_WANT_MUTEX;
        t->obj = m;
        yield_now();
        Mutex &mm = S().mutexes[m];
        mm.owner = t->id;
        mm.depth++;
        t->state = T_RUNNABLE;
        return 0;
    }
    int pthread_mutex_trylock(pthread_mutex_t *m)
    {
        using namespace sched;
        if (!tl_self)
        {
            REAL(int, pthread_mutex_trylock, pthread_mutex_t *)
            return fn(m);
        }
        Thread *t = tl_self;
        t->state = T_RUNNABLE;
        yield_now();
        Mutex &mm = S().mutexes[m];
        if (mm.owner >= 0 && mm.owner != t->id)
            return EBUSY;
        mm.owner = t->id;
        mm.depth++;
        return 0;
    }
    int pthread_mutex_unlock(pthread_mutex_t *m)
    {
        using namespace sched;
        if (!tl_self)
        {
            REAL(int, pthread_mutex_unlock, pthread_mutex_t *)
            return fn(m);
        }
        Thread *t = tl_self;
        t->state = T_RUNNABLE;
        yield_now();
        Mutex &mm = S().mutexes[m];
        if (mm.owner != t->id)
        {
            S().latch("unlock_not_owner", "thread T" + std::to_string(t->id) + " unlocks a mutex it does not own");
            return EPERM;
        }
        if (--mm.depth == 0)
            mm.owner = -1;
        mm.last_unlock[t->id] = S().steps;
        return 0;
    }
    // A notification reaches a condition variable whose destructor has run. std::condition_variable
    // has no visible constructor call, so a *new* object at the same (stack) address looks the
    // same. It is the new object when the notifying thread holds, or has unlocked after the
    // destruction, a mutex of the same enclosing object (igris::event keeps mutex and condition
    // variable side by side): then the old lifetime is over and nothing is wrong. Otherwise the
    // thread finished with the object's mutex before the owner destroyed it and touches it now.
    static bool notify_hits_dead_object(sched::Scheduler &s, sched::Cond &cc, const void *c, int tid)
    {
        if (!cc.destroyed)
            return false;
        for (auto &kv : s.mutexes)
        {
            long dist = (const char *)kv.first - (const char *)c;
            if (dist < -256 || dist > 256)
                continue;
            if (kv.second.owner == tid)
            {
                cc.destroyed = false;
                return false;
            }
            auto it = kv.second.last_unlock.find(tid);
            if (it != kv.second.last_unlock.end() && it->second > cc.destroy_step)
            {
                cc.destroyed = false;
                return false;
            }
        }
        return true;
    }
    static int cond_wait_common(pthread_cond_t *c, pthread_mutex_t *m)
    {
        using namespace sched;
        Thread *t = tl_self;
        t->state = T_RUNNABLE;
        yield_now();
        Scheduler &s = S();
        Mutex &mm = s.mutexes[m];
        if (mm.owner != t->id)
            s.latch("cond_wait_without_mutex", "thread T" + std::to_string(t->id) + " waits on a condition variable without owning the mutex");
        Cond &cc = s.conds[c];
        cc.destroyed = false; // a new lifetime at this address begins with its first waiter
        // atomically: release the mutex and park
        t->cond_depth = mm.depth;
        t->cond_mutex = m;
        mm.depth = 0;
        mm.owner = -1;
        cc.waiters.push_back(t->id);
        t->state = T_COND_WAIT;
        t->obj = c;
        yield_now(); // returns once signalled *and* chosen with the mutex free
        Mutex &mm2 = s.mutexes[m];
        mm2.owner = t->id;
        mm2.depth = t->cond_depth;
        t->state = T_RUNNABLE;
        return 0;
    }
    int pthread_cond_wait(pthread_cond_t *c, pthread_mutex_t *m)
    {
        using namespace sched;
        if (!tl_self)
        {
            REAL(int, pthread_cond_wait, pthread_cond_t *, pthread_mutex_t *)
            return fn(c, m);
        }
        return cond_wait_common(c, m);
    }
    int pthread_cond_timedwait(pthread_cond_t *c, pthread_mutex_t *m, const struct timespec *ts)
    {
        using namespace sched;
        if (!tl_self)
        {
            REAL(int, pthread_cond_timedwait, pthread_cond_t *, pthread_mutex_t *, const struct timespec *)
            return fn(c, m, ts);
        }
        return cond_wait_common(c, m); // no timeouts in the model: time does not pass
    }
    int pthread_cond_clockwait(pthread_cond_t *c, pthread_mutex_t *m, clockid_t clk, const struct timespec *ts)
    {
        using namespace sched;
        if (!tl_self)
        {
            REAL(int, pthread_cond_clockwait, pthread_cond_t *, pthread_mutex_t *, clockid_t, const struct timespec *)
            return fn(c, m, clk, ts);
        }
        return cond_wait_common(c, m);
    }
    static void wake_waiter(sched::Scheduler &s, int tid)
    {
        sched::Thread *w = s.threads[tid];
        w->state = sched::T_WANT_MUTEX;
        w->obj = w->cond_mutex;
    }
    int pthread_cond_signal(pthread_cond_t *c)
    {
        using namespace sched;
        if (!tl_self)
        {
            REAL(int, pthread_cond_signal, pthread_cond_t *)
            return fn(c);
        }
        Thread *t = tl_self;
        t->state = T_RUNNABLE;
        yield_now();
        Scheduler &s = S();
        Cond &cc = s.conds[c];
        if (notify_hits_dead_object(s, cc, c, t->id))
            s.latch("signal_on_destroyed_condvar", "thread T" + std::to_string(t->id) + " signals a condition variable that its owner has already destroyed");
        if (!cc.waiters.empty())
        {
            int w = cc.waiters.front(); // POSIX leaves the choice open; FIFO keeps schedules small
            cc.waiters.erase(cc.waiters.begin());
            wake_waiter(s, w);
        }
        return 0;
    }
    int pthread_cond_broadcast(pthread_cond_t *c)
    {
        using namespace sched;
        if (!tl_self)
        {
            REAL(int, pthread_cond_broadcast, pthread_cond_t *)
            return fn(c);
        }
        Thread *t = tl_self;
        t->state = T_RUNNABLE;
        yield_now();
        Scheduler &s = S();
        Cond &cc = s.conds[c];
        if (notify_hits_dead_object(s, cc, c, t->id))
            s.latch("signal_on_destroyed_condvar", "thread T" + std::to_string(t->id) + " notifies a condition variable that its owner has already destroyed");
        for (int w : cc.waiters)
            wake_waiter(s, w);
        cc.waiters.clear();
        return 0;
    }
    int pthread_cond_destroy(pthread_cond_t *c)
    {
        using namespace sched;
        if (!tl_self)
        {
            REAL(int, pthread_cond_destroy, pthread_cond_t *)
            return fn(c);
        }
        Scheduler &s = S();
        Cond &cc = s.conds[c];
        if (!cc.waiters.empty())
            s.latch("condvar_destroyed_with_waiters", "a condition variable is destroyed while threads are parked on it");
        cc.destroyed = true;
        cc.destroy_step = s.steps;
        return 0;
    }

    int sem_init(sem_t *sm, int pshared, unsigned int value)
    {
        using namespace sched;
        REAL(int, sem_init, sem_t *, int, unsigned int)
        S().sems[sm].count = (long)value; // model state for managed users, real state for the others
        return fn(sm, pshared, value);
    }
    int sem_destroy(sem_t *sm)
    {
        using namespace sched;
        REAL(int, sem_destroy, sem_t *)
        S().sems.erase(sm);
        return fn(sm);
    }
    int sem_wait(sem_t *sm)
    {
        using namespace sched;
        if (!tl_self)
        {
            REAL(int, sem_wait, sem_t *)
            int r = fn(sm);
            if (r == 0)
                S().sems[sm].count--; // keep the model in step (set-up / tear-down code)
            return r;
        }
        Thread *t = tl_self;
        t->state = T_WANT_SEM;
        t->obj = sm;
        yield_now();
        {
            Sem &ss = S().sems[sm];
            ss.count--;
            ss.inside++;
            if (ss.inside > ss.max_inside)
                ss.max_inside = ss.inside;
        }
        t->state = T_RUNNABLE;
        return 0;
    }
    int sem_trywait(sem_t *sm)
    {
        using namespace sched;
        if (!tl_self)
        {
            REAL(int, sem_trywait, sem_t *)
            int r = fn(sm);
            if (r == 0)
                S().sems[sm].count--;
            return r;
        }
        Thread *t = tl_self;
        t->state = T_RUNNABLE;
        yield_now();
        Sem &ss = S().sems[sm];
        if (ss.count > 0)
        {
            ss.count--;
            return 0;
        }
        errno = EAGAIN;
        return -1;
    }
    int sem_post(sem_t *sm)
    {
        using namespace sched;
        if (!tl_self)
        {
            REAL(int, sem_post, sem_t *)
            int r = fn(sm);
            if (r == 0)
                S().sems[sm].count++;
            return r;
        }
        Thread *t = tl_self;
        t->state = T_RUNNABLE;
        yield_now();
        {
            Sem &ss = S().sems[sm];
            ss.count++;
            if (ss.inside > 0)
                ss.inside--;
        }
        return 0;
    }
    int sem_getvalue(sem_t *sm, int *val)
    {
        using namespace sched;
        if (!tl_self)
        {
            REAL(int, sem_getvalue, sem_t *, int *)
            return fn(sm, val);
        }
        *val = (int)S().sems[sm].count;
        return 0;
    }
}
