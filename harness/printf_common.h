// Shared by C06 (integer/char/string/pointer conversions) and C13 (floating
// conversions): typed variadic dispatch so that every va_arg in __printf and
// in the host snprintf sees an argument of exactly the promoted type the
// directive declares, and a capture sink.
#pragma once
#include <sys/syscall.h>
#include <unistd.h>
#include "vpbt.h"
#include <cstdarg>
#include <cstdio>
#include <string>
#include <vector>

extern "C"
{
    // igris/util/printf_impl.c, compiled into the igc_ group (its atoi/strlen/ctype
    // are the shim's, as in a bare-metal build)
    int igc___printf(void (*printchar_handler)(void *d, int c), void *printchar_data, const char *format,
                     va_list args);
    int igc_vsprintf(char *s, const char *format, va_list ap);
}

namespace pf
{
enum Cls
{
    A_INT,
    A_LONG,
    A_LLONG,
    A_PTR,
    A_DBL
};
struct Arg
{
    Cls cls;
    long long i = 0;
    const void *p = nullptr;
    const void *p_host = nullptr; // same content, terminated (host reference call only)
    double d = 0;
};

struct Capture
{
    std::string out;
    long calls = 0;
    // re-entrancy (targets printf_reentrant / printf_fp_reentrant): every `reenter_every`-th character the
    // callback itself formats `reenter_val` through igris' __printf into a sink of its own, as a line-numbering
    // or time-stamping output routine would; the outer output must not notice
    int reenter_every = 0;
    long long reenter_val = 0;
    double reenter_dbl = 0;
    bool reenter_fp = false;
    bool in_reentry = false;
    std::string inner_out;
    long inner_runs = 0;
};
inline int igris_printf_v(Capture *cap, const char *fmt, ...);
inline void cap_handler(void *d, int c)
{
    Capture *cp = (Capture *)d;
    cp->calls++;
    if (cp->out.size() < (1u << 20))
        cp->out += (char)c;
    if (cp->reenter_every && !cp->in_reentry && cp->calls % cp->reenter_every == 0)
    {
        cp->in_reentry = true;
        Capture inner;
        if (cp->reenter_fp)
            igris_printf_v(&inner, "%lld;%.3f;%10.4f", cp->reenter_val, cp->reenter_dbl, cp->reenter_dbl);
        else
            igris_printf_v(&inner, "%lld;%x;%o;%s", cp->reenter_val, (unsigned)cp->reenter_val, (unsigned)(cp->reenter_val >> 7), "in");
        cp->inner_out = inner.out;
        cp->inner_runs++;
        cp->in_reentry = false;
    }
}

inline int igris_printf_v(Capture *cap, const char *fmt, ...)
{
    va_list ap;
    va_start(ap, fmt);
    int r = igc___printf(cap_handler, cap, fmt, ap);
    va_end(ap);
    return r;
}
extern "C" int igc_vfdprintf(int fd, const char *format, va_list args);
extern "C" int igc_snprintf(char *buf, size_t maxlen, const char *format, ...);
inline int igris_fdprintf_v(int fd, const char *fmt, ...)
{
    va_list ap;
    va_start(ap, fmt);
    int r = igc_vfdprintf(fd, fmt, ap);
    va_end(ap);
    return r;
}
inline int igris_sprintf_v(char *buf, const char *fmt, ...)
{
    va_list ap;
    va_start(ap, fmt);
    int r = igc_vsprintf(buf, fmt, ap);
    va_end(ap);
    return r;
}

struct Result
{
    int igris_ret = 0;
    Capture cap;
    int host_ret = 0;
    std::string host;
    // sprintf route
    int phase = 0; // 0: host reference call, 1: igris calls
    bool do_sprintf = false;
    int sp_ret = 0;
    std::string sp_out;
    int sn_ret = 0; // snprintf with maxlen = exactly the room the ISO output needs
    std::string sn_out;
    // fdprintf route (the shim's vfdprintf into a memory file, read back)
    bool do_fdprintf = false;
    int fd_ret = 0;
    std::string fd_out;
};

#pragma clang diagnostic push
#pragma clang diagnostic ignored "-Wformat-security"
#pragma clang diagnostic ignored "-Wformat-nonliteral"
template <class... Ts> void call_all(Result &r, const char *fmt, Ts... as)
{
    if (r.phase == 0)
    {
        // host reference (its %s arguments are terminated copies: ASan's snprintf
        // interceptor insists on terminated strings even when a precision bounds the read)
        char hb[4096];
        r.host_ret = snprintf(hb, sizeof hb, fmt, as...);
        if (r.host_ret >= 0)
            r.host.assign(hb, (size_t)std::min<int>(r.host_ret, (int)sizeof hb - 1));
        return;
    }
    r.igris_ret = igris_printf_v(&r.cap, fmt, as...);
    if (r.do_fdprintf)
    {
        int fd = (int)syscall(SYS_memfd_create, "vpbt-fdprintf", 0);
        if (fd >= 0)
        {
            r.fd_ret = igris_fdprintf_v(fd, fmt, as...);
            off_t n = lseek(fd, 0, SEEK_END);
            r.fd_out.resize(n > 0 ? (size_t)n : 0);
            if (n > 0 && pread(fd, &r.fd_out[0], (size_t)n, 0) != n)
                r.fd_out.clear();
            close(fd);
        }
        else
            r.do_fdprintf = false;
    }
    if (r.do_sprintf && r.host_ret >= 0 && r.host_ret < 4000)
    {
        // exactly the room ISO output needs: a longer igris output is an ASan report
        vpbt::Exact blk((size_t)r.host_ret + 1);
        r.sp_ret = igris_sprintf_v(blk.c(), fmt, as...);
        r.sp_out.assign(blk.c(), (size_t)r.host_ret + 1);
        vpbt::Exact blk2((size_t)r.host_ret + 1);
        r.sn_ret = igc_snprintf(blk2.c(), (size_t)r.host_ret + 1, fmt, as...);
        r.sn_out.assign(blk2.c(), (size_t)r.host_ret + 1);
    }
}
#pragma clang diagnostic pop

template <class... Ts> void dispatch(Result &r, const char *fmt, const std::vector<Arg> &args, size_t i, Ts... as)
{
    if constexpr (sizeof...(Ts) >= 4)
    {
        call_all(r, fmt, as...);
    }
    else
    {
        if (i == args.size())
        {
            call_all(r, fmt, as...);
            return;
        }
        switch (args[i].cls)
        {
        case A_INT:
            dispatch(r, fmt, args, i + 1, as..., (int)args[i].i);
            break;
        case A_LONG:
            dispatch(r, fmt, args, i + 1, as..., (long)args[i].i);
            break;
        case A_LLONG:
            dispatch(r, fmt, args, i + 1, as..., (long long)args[i].i);
            break;
        case A_PTR:
            dispatch(r, fmt, args, i + 1, as..., r.phase == 0 && args[i].p_host ? args[i].p_host : args[i].p);
            break;
        case A_DBL:
            dispatch(r, fmt, args, i + 1, as..., args[i].d);
            break;
        }
    }
}

constexpr size_t kMaxArgs = 4;

inline void run_both(Result &r, const char *fmt, const std::vector<Arg> &args)
{
    r.phase = 0;
    dispatch(r, fmt, args, 0);
    r.phase = 1;
    dispatch(r, fmt, args, 0);
}

} // namespace pf
