// C01 — intrusive lists stay well-formed and ordered under any operation
// history. Targets: c_dlist, cxx_dlist, slist, hlist (+ c_dlist_enum,
// cxx_dlist_enum: every history of 3 (quick) / 4 (thorough) operations over 3
// nodes and 2 lists).
#include "vpbt.h"
#include <algorithm>
#include <igris/container/dlist.h>
#include <igris/container/slist.h>
#include <igris/datastruct/dlist.h>
#include <igris/datastruct/hlist.h>
#include <igris/datastruct/slist.h>
#include <memory>
#include <string>
#include <iterator>
#include <vector>

using namespace vpbt;

namespace
{

// how the operations of a history are chosen: from the choice sequence (random /
// fuzz) or from a mixed-radix index with a fixed small universe (enumeration)
struct Plan
{
    int nnodes, nlists, nops;
};
// the *_many targets: hundreds of nodes (size(), traversals and membership over lists longer than 255)
static bool g_many = false;
Plan make_plan(Src &s, bool enumerate)
{
    if (enumerate)
        return Plan{3, 2, tier() ? 4 : 3};
    Plan p;
    if (g_many)
    {
        p.nnodes = (int)s.range(258, 300);
        p.nlists = (int)s.range(1, 2);
        p.nops = (int)s.range(300, 800);
        return p;
    }
    p.nnodes = (int)s.range(1, 12);
    p.nlists = (int)s.range(1, 3);
    p.nops = (int)(s.coin() ? s.range(0, 12) : s.range(0, 60));
    return p;
}

std::string seq_str(const std::vector<int> &v)
{
    std::string s = "[";
    for (size_t i = 0; i < v.size(); i++)
        s += (i ? "," : "") + std::to_string(v[i]);
    return s + "]";
}

// =========================================================================
// C dlist
// =========================================================================
struct CNode
{
    int id;
    char pad[12]; // link member at a non-zero offset
    dlist_head lnk;
};
enum CState
{
    C_FREE_RAW,    // never linked / contents arbitrary (only re-adding is allowed)
    C_FREE_INIT,   // self-linked (after dlist_del_init / dlist_init)
    C_FREE_POISON, // after dlist_del
    C_LINKED,
    C_DESTROYED
};

struct CDlistWorld
{
    Case &c;
    std::vector<CNode *> nodes;
    std::vector<CState> st;
    std::vector<std::unique_ptr<dlist_head>> heads;
    std::vector<std::vector<int>> model; // ids per list, in forward order
    bool big_op = false;                 // a removal/move on a list with >= 2 elements happened
    size_t longest() const
    {
        size_t m = 0;
        for (auto &l : model)
            m = std::max(m, l.size());
        return m;
    }
    int universe;

    CDlistWorld(Case &c_, const Plan &p) : c(c_), universe(p.nnodes)
    {
        for (int i = 0; i < p.nnodes; i++)
        {
            CNode *n = new CNode;
            n->id = i;
            memset(&n->lnk, 0xA5, sizeof n->lnk);
            nodes.push_back(n);
            st.push_back(C_FREE_RAW);
        }
        for (int i = 0; i < p.nlists; i++)
        {
            heads.emplace_back(new dlist_head);
            dlist_init(heads.back().get());
            model.emplace_back();
        }
    }
    ~CDlistWorld()
    {
        for (size_t i = 0; i < nodes.size(); i++)
            if (st[i] != C_DESTROYED)
                delete nodes[i];
    }
    int list_of(int id, int *pos = nullptr)
    {
        for (size_t l = 0; l < model.size(); l++)
            for (size_t i = 0; i < model[l].size(); i++)
                if (model[l][i] == id)
                {
                    if (pos)
                        *pos = (int)i;
                    return (int)l;
                }
        return -1;
    }
    // target index t: 0..nlists-1 = heads, then nodes
    dlist_head *target_ptr(int t) { return t < (int)heads.size() ? heads[t].get() : &nodes[t - (int)heads.size()]->lnk; }
    bool target_valid(int t)
    {
        if (t < (int)heads.size())
            return true;
        return st[t - (int)heads.size()] == C_LINKED;
    }
    // model: insert id after (next=true) / before target t
    void model_insert(int id, int t, bool after)
    {
        if (t < (int)heads.size())
        {
            if (after)
                model[t].insert(model[t].begin(), id);
            else
                model[t].push_back(id);
            return;
        }
        int pos, l = list_of(t - (int)heads.size(), &pos);
        model[l].insert(model[l].begin() + pos + (after ? 1 : 0), id);
    }
    void model_remove(int id)
    {
        int pos, l = list_of(id, &pos);
        if (model[l].size() >= 2)
            big_op = true;
        model[l].erase(model[l].begin() + pos);
    }

    static bool cmp_less(CNode *a, CNode *b) { return a->id < b->id; }

    // returns false if the operation's precondition does not hold (skipped)
    bool apply(int op, int a, int t)
    {
        int nl = (int)heads.size();
        CNode *n = nodes[a];
        switch (op)
        {
        case 0: // dlist_add_next: node not in a list
        case 1: // dlist_add_prev
            if (st[a] == C_LINKED || st[a] == C_DESTROYED || !target_valid(t))
                return false;
            c.log("%s(n%d,%s%d) ", op == 0 ? "add_next" : "add_prev", a, t < nl ? "L" : "n", t < nl ? t : t - nl);
            if (op == 0)
                dlist_add_next(&n->lnk, target_ptr(t));
            else
                dlist_add_prev(&n->lnk, target_ptr(t));
            model_insert(a, t, op == 0);
            st[a] = C_LINKED;
            return true;
        case 2: // dlist_move_sorted: an insertion (never unlinks) before the first element e with id(a) < id(e)
        {
            if (st[a] == C_LINKED || st[a] == C_DESTROYED)
                return false;
            int l = t % nl;
            c.log("move_sorted(n%d,L%d) ", a, l);
            dlist_move_sorted(n, heads[l].get(), lnk, cmp_less);
            size_t i = 0;
            while (i < model[l].size() && !(a < model[l][i]))
                i++;
            model[l].insert(model[l].begin() + i, a);
            st[a] = C_LINKED;
            return true;
        }
        case 3: // dlist_del
            if (st[a] != C_LINKED)
                return false;
            c.log("del(n%d) ", a);
            dlist_del(&n->lnk);
            model_remove(a);
            st[a] = C_FREE_POISON;
            return true;
        case 4: // dlist_del_init, also on an already unlinked (self-linked) node
            if (st[a] != C_LINKED && st[a] != C_FREE_INIT)
                return false;
            c.log("del_init(n%d)%s ", a, st[a] == C_FREE_INIT ? "[again]" : "");
            if (st[a] == C_FREE_INIT)
                c.label("del_init_twice");
            dlist_del_init(&n->lnk);
            if (st[a] == C_LINKED)
                model_remove(a);
            st[a] = C_FREE_INIT;
            return true;
        case 5: // dlist_move / dlist_move_tail of a linked node to any head or linked node (itself included)
        case 6:
        {
            if (st[a] != C_LINKED || !target_valid(t))
                return false;
            bool self = t == nl + a;
            int pos, l = list_of(a, &pos);
            c.log("%s(n%d,%s%d) ", op == 5 ? "move" : "move_tail", a, t < nl ? "L" : "n", t < nl ? t : t - nl);
            if (self)
                c.label("self_move");
            else if (t >= nl)
            {
                int tp, tl = list_of(t - nl, &tp);
                if (tl == l && (tp == pos - 1 || tp == pos + 1))
                    c.label("neighbour_move");
            }
            if (model[l].size() == 1)
                c.label("single_elem");
            if (op == 5)
                dlist_move(&n->lnk, target_ptr(t));
            else
                dlist_move_tail(&n->lnk, target_ptr(t));
            if (self)
            {
                // "moving a node next to itself": it either keeps its place or ends up unlinked;
                // the lists must stay well-formed either way. Adopt what happened.
                if (n->lnk.next == &n->lnk && n->lnk.prev == &n->lnk)
                {
                    model_remove(a);
                    st[a] = C_FREE_INIT;
                }
                else if (model[l].size() >= 2)
                    big_op = true;
                return true;
            }
            model_remove(a);
            model_insert(a, t, op == 5);
            return true;
        }
        case 7: // dlist_insert_instead(iter, instead): free node takes the place of a linked one
        {
            int b = t >= nl ? t - nl : t % (int)nodes.size();
            if (st[a] == C_LINKED || st[a] == C_DESTROYED || st[b] != C_LINKED || a == b)
                return false;
            c.log("insert_instead(n%d,n%d) ", a, b);
            dlist_insert_instead(&n->lnk, &nodes[b]->lnk);
            int pos, l = list_of(b, &pos);
            model[l][pos] = a;
            st[a] = C_LINKED;
            st[b] = C_FREE_INIT;
            return true;
        }
        case 8: // destroy a node that is in no list
            if (st[a] == C_LINKED || st[a] == C_DESTROYED)
                return false;
            c.log("destroy(n%d) ", a);
            delete n;
            nodes[a] = nullptr;
            st[a] = C_DESTROYED;
            return true;
        case 9: // dlist_init of an empty list head
        {
            int l = t % nl;
            if (!model[l].empty())
                return false;
            c.log("init(L%d) ", l);
            dlist_init(heads[l].get());
            return true;
        }
        case 10: // whole-list splice: dlist_insert_instead(&new_head, &old_head), as igris::series' move does.
        {        // The new head must be unused (empty); the old one may hold nodes or be empty.
            int dst = t % nl, src = a % nl;
            if (dst == src || !model[dst].empty())
                return false;
            c.log("splice_heads(L%d<-L%d)[%zu] ", dst, src, model[src].size());
            if (model[src].empty())
                c.label("splice_empty_src");
            dlist_insert_instead(heads[dst].get(), heads[src].get());
            model[dst] = model[src];
            model[src].clear();
            return true;
        }
        }
        return false;
    }
    static const int kOps = 11;

    void check()
    {
        const int bound = universe + 2;
        for (size_t l = 0; l < heads.size(); l++)
        {
            dlist_head *h = heads[l].get();
            // bounded raw walk first: a cycle that misses the head is a failure, not a hang
            {
                dlist_head *it = h->next;
                int steps = 0;
                while (it != h)
                {
                    VP_CHECK(++steps <= bound, "c_dlist_cycle", "L%zu: forward walk does not return to the head within %d steps (model %s)", l,
                             bound, seq_str(model[l]).c_str());
                    it = it->next;
                }
                it = h->prev;
                steps = 0;
                while (it != h)
                {
                    VP_CHECK(++steps <= bound, "c_dlist_cycle_rev", "L%zu: backward walk does not return to the head within %d steps (model %s)",
                             l, bound, seq_str(model[l]).c_str());
                    it = it->prev;
                }
            }
            std::vector<int> fwd, fwd_e, fwd_safe, rev, rev_e;
            dlist_head *it, *nx;
            CNode *pos;
            dlist_for_each(it, h) fwd.push_back(dlist_entry(it, CNode, lnk)->id);
            dlist_for_each_entry(pos, h, lnk) fwd_e.push_back(pos->id);
            dlist_for_each_safe(it, nx, h) fwd_safe.push_back(dlist_entry(it, CNode, lnk)->id);
            dlist_for_each_reverse(it, h) rev.push_back(dlist_entry(it, CNode, lnk)->id);
            dlist_for_each_entry_reverse(pos, h, lnk) rev_e.push_back(pos->id);
            std::vector<int> mrev(model[l].rbegin(), model[l].rend());
            VP_CHECK(fwd == model[l], "c_dlist_forward", "L%zu forward %s, reference %s", l, seq_str(fwd).c_str(), seq_str(model[l]).c_str());
            VP_CHECK(fwd_e == model[l] && fwd_safe == model[l], "c_dlist_forward_entry", "L%zu entry/safe traversal differs from the reference %s", l,
                     seq_str(model[l]).c_str());
            VP_CHECK(rev == mrev && rev_e == mrev, "c_dlist_backward", "L%zu backward %s, reference reversed %s", l, seq_str(rev).c_str(),
                     seq_str(mrev).c_str());
            int n = (int)model[l].size();
            VP_CHECK(dlist_size(h) == n && dlist_size_reversed(h) == n, "c_dlist_size", "L%zu size %d / reversed %d, reference %d", l, dlist_size(h),
                     dlist_size_reversed(h), n);
            VP_CHECK((dlist_empty(h) != 0) == (n == 0), "c_dlist_empty", "L%zu dlist_empty=%d with %d elements", l, dlist_empty(h), n);
            VP_CHECK(dlist_check(h, bound) == n && dlist_check_reversed(h, bound) == n && dlist_is_correct(h), "c_dlist_check",
                     "L%zu dlist_check=%d reversed=%d is_correct=%d, %d elements", l, dlist_check(h, bound), dlist_check_reversed(h, bound),
                     (int)dlist_is_correct(h), n);
            {
                // a cursor walk whose *_entry argument has a side effect, and the first / last / next / prev entry macros
                std::vector<int> walk;
                dlist_head *cur = h;
                for (int k = 0; k < n; k++)
                    walk.push_back(dlist_entry(cur = cur->next, CNode, lnk)->id);
                VP_CHECK(walk == model[l] && (n == 0 || cur == h->prev), "c_dlist_entry_cursor", "L%zu: dlist_entry(cur = cur->next, ...) walk gives %s, reference %s", l,
                         seq_str(walk).c_str(), seq_str(model[l]).c_str());
                if (n > 0)
                {
                    CNode *f = dlist_first_entry(h, CNode, lnk), *b = dlist_last_entry(h, CNode, lnk);
                    VP_CHECK(f->id == model[l].front() && b->id == model[l].back(), "c_dlist_first_last_entry", "L%zu: first/last entry n%d/n%d, reference n%d/n%d", l, f->id,
                             b->id, model[l].front(), model[l].back());
                    if (n > 1)
                        VP_CHECK(dlist_next_entry(f, lnk)->id == model[l][1] && dlist_prev_entry(b, lnk)->id == model[l][(size_t)n - 2], "c_dlist_next_prev_entry",
                                 "L%zu: next of first / prev of last differ from the reference %s", l, seq_str(model[l]).c_str());
                }
            }
            // the bounded walkers need exactly n+1 looks to see an n-element ring close
            VP_CHECK(dlist_check(h, n + 1) == n && dlist_check_reversed(h, n + 1) == n, "c_dlist_check_tight",
                     "L%zu with %d elements: dlist_check(h,%d)=%d dlist_check_reversed(h,%d)=%d", l, n, n + 1, dlist_check(h, n + 1), n + 1,
                     dlist_check_reversed(h, n + 1));
            VP_CHECK(h->next->prev == h && h->prev->next == h, "c_dlist_symmetry", "L%zu head: neighbours do not point back", l);
            for (size_t i = 0; i < nodes.size(); i++)
            {
                if (st[i] == C_DESTROYED)
                    continue;
                int in_model = std::find(model[l].begin(), model[l].end(), (int)i) != model[l].end();
                VP_CHECK(dlist_in(&nodes[i]->lnk, h) == in_model, "c_dlist_membership", "dlist_in(n%zu, L%zu)=%d, reference %d", i, l,
                         dlist_in(&nodes[i]->lnk, h), in_model);
            }
        }
        for (size_t i = 0; i < nodes.size(); i++)
        {
            if (st[i] == C_LINKED)
            {
                dlist_head *k = &nodes[i]->lnk;
                VP_CHECK(k->next->prev == k && k->prev->next == k, "c_dlist_symmetry", "n%zu: neighbours do not point back", i);
                VP_CHECK(dlist_is_linked(k), "c_dlist_is_linked", "dlist_is_linked(n%zu)=0 for a linked node", i);
            }
            else if (st[i] == C_FREE_INIT)
            {
                dlist_head *k = &nodes[i]->lnk;
                VP_CHECK(k->next == k && k->prev == k, "c_dlist_selflink", "n%zu was del_init'ed but is not self-linked", i);
                VP_CHECK(!dlist_is_linked(k), "c_dlist_is_linked", "dlist_is_linked(n%zu)=1 for a del_init'ed node", i);
            }
        }
    }
};

template <class World> void run_history(Src &s, Case &c, bool enumerate, const char *name)
{
    Plan p = make_plan(s, enumerate);
    c.log("%s nodes=%d lists=%d: ", name, p.nnodes, p.nlists);
    // On a failure the world is deliberately leaked: its destructors would traverse and
    // unlink through a list that has just been found corrupt (the worker exits anyway).
    World *wp = new World(c, p);
    World &w = *wp;
    w.check();
    int ntargets = p.nlists + p.nnodes;
    size_t longest = 0;
    if (g_many)
    {
        // prelude: nearly all nodes go onto list 0 (front, back or alternating), so the random history that follows works
        // on a list of more than 255 elements
        int mode = (int)s.below(3), fill = p.nnodes - (int)s.below(8);
        for (int i = 0; i < fill; i++)
            w.apply(mode == 0 ? 1 : mode == 1 ? 0 : (i & 1), i, 0);
        w.check();
    }
    for (int i = 0; i < p.nops; i++)
    {
        longest = std::max(longest, w.longest());
        int op = (int)s.below(World::kOps);
        int a = (int)s.below((uint64_t)p.nnodes);
        int t = (int)s.below((uint64_t)ntargets);
        if (!w.apply(op, a, t))
        {
            if (enumerate)
                continue;
            // constructive fallback instead of rejection: try the other operations on the same operands
            bool done = false;
            for (int d = 1; d < World::kOps && !done; d++)
                done = w.apply((op + d) % World::kOps, a, t);
            if (!done)
                continue;
        }
        // the full check is quadratic in the number of nodes: every 16th step (and at the end) for the big worlds
        if (!g_many || i % 16 == 15 || i + 1 == p.nops)
            w.check();
    }
    c.nontrivial = w.big_op;
    if (g_many)
    {
        c.label(longest > 255 ? "list_longer_than_255" : longest > 100 ? "list_longer_than_100" : "lists_short");
        c.nontrivial = w.big_op && longest > 255;
    }
    w.finish();
    delete wp;
}

// =========================================================================
// C++ dlist
// =========================================================================
struct XNode
{
    int id;
    char pad[12];
    igris::dlist_node lnk;
};
typedef igris::dlist<XNode, &XNode::lnk> XList;

struct CxxDlistWorld
{
    Case &c;
    std::vector<XNode *> nodes; // nullptr = destroyed
    std::vector<XList *> lists; // nullptr = destroyed
    // rings: the first nlists entries belong to the lists (by index); further entries are
    // head-less rings of nodes orphaned by a splice (kept in ring order, rotation free)
    std::vector<std::vector<int>> ring;
    size_t nlists;
    bool big_op = false;
    int universe;
    size_t longest() const
    {
        size_t m = 0;
        for (size_t l = 0; l < nlists && l < ring.size(); l++)
            m = std::max(m, ring[l].size());
        return m;
    }

    CxxDlistWorld(Case &c_, const Plan &p) : c(c_), nlists((size_t)p.nlists), universe(p.nnodes)
    {
        for (int i = 0; i < p.nnodes; i++)
        {
            XNode *n = new XNode;
            n->id = i;
            nodes.push_back(n);
        }
        for (int i = 0; i < p.nlists; i++)
        {
            lists.push_back(new XList);
            ring.emplace_back();
        }
    }
    ~CxxDlistWorld()
    {
        // any order: destructors unlink
        for (auto *n : nodes)
            delete n;
        for (auto *l : lists)
            delete l;
    }
    void finish()
    {
        // destroy everything in an order taken from the model state: lists first, then nodes —
        // every node must end up unlinked when its list dies
        for (size_t l = 0; l < lists.size(); l++)
            if (lists[l])
            {
                std::vector<int> members = ring[l];
                delete lists[l];
                lists[l] = nullptr;
                ring[l].clear();
                for (int id : members)
                    VP_CHECK(nodes[id]->lnk.is_unlinked() && nodes[id]->lnk.prev == &nodes[id]->lnk, "cxx_dlist_list_dtor",
                             "n%d still linked after its list was destroyed", id);
            }
    }
    int ring_of(int id, int *pos = nullptr)
    {
        for (size_t r = 0; r < ring.size(); r++)
            for (size_t i = 0; i < ring[r].size(); i++)
                if (ring[r][i] == id)
                {
                    if (pos)
                        *pos = (int)i;
                    return (int)r;
                }
        return -1;
    }
    void model_unlink(int id)
    {
        int pos, r = ring_of(id, &pos);
        if (r < 0)
            return;
        if (ring[r].size() >= 2 && (size_t)r < nlists)
            big_op = true;
        ring[r].erase(ring[r].begin() + pos);
        normalise();
    }
    // a head-less ring of one node is just an unlinked node
    void normalise()
    {
        for (size_t r = ring.size(); r-- > nlists;)
            if (ring[r].size() <= 1)
                ring.erase(ring.begin() + r);
    }
    // insert id after/before the node `tid` (which is in some ring)
    void model_insert_rel(int id, int tid, bool after)
    {
        int pos, r = ring_of(tid, &pos);
        if (r < 0)
        {
            // target is an unlinked node: the two form a head-less ring
            ring.push_back({tid, id});
            return;
        }
        ring[r].insert(ring[r].begin() + pos + (after ? 1 : 0), id);
    }
    bool node_alive(int a) { return nodes[a] != nullptr; }

    bool apply(int op, int a, int t)
    {
        int nl = (int)nlists;
        bool t_is_list = t < nl;
        int tl = t_is_list ? t : -1, tn = t_is_list ? -1 : t - nl;
        switch (op)
        {
        case 0: // move_front / move_back into a list, node linked anywhere or unlinked
        case 1:
        {
            int l = t % nl;
            if (!node_alive(a) || !lists[l])
                return false;
            c.log("%s(L%d,n%d) ", op == 0 ? "move_front" : "move_back", l, a);
            if (ring_of(a) >= 0)
                c.label("relink_linked");
            if (op == 0)
                lists[l]->move_front(*nodes[a]);
            else
                lists[l]->move_back(*nodes[a]);
            model_unlink(a);
            if (op == 0)
                ring[l].insert(ring[l].begin(), a);
            else
                ring[l].push_back(a);
            return true;
        }
        case 2: // move_next / move_prev relative to a node (linked, unlinked, neighbour or itself)
        case 3:
        {
            int b = t_is_list ? tl % (int)nodes.size() : tn;
            if (!node_alive(a) || !node_alive(b))
                return false;
            // the member functions are reached through any live list object (they do not use it)
            XList *via = nullptr;
            for (auto *l : lists)
                if (l)
                    via = l;
            if (!via)
                return false;
            c.log("%s(n%d,n%d) ", op == 2 ? "move_next" : "move_prev", a, b);
            int pa, ra = ring_of(a, &pa), pb, rb = ring_of(b, &pb);
            if (a == b)
                c.label("self_move");
            else if (ra >= 0 && ra == rb && (pb == pa - 1 || pb == pa + 1))
                c.label("neighbour_move");
            if (ra >= 0)
                c.label("relink_linked");
            if (op == 2)
                via->move_next(*nodes[a], *nodes[b]);
            else
                via->move_prev(*nodes[a], *nodes[b]);
            if (a == b)
            {
                // either keeps its place or ends up unlinked; adopt what happened
                if (nodes[a]->lnk.is_unlinked())
                    model_unlink(a);
                return true;
            }
            model_unlink(a);
            model_insert_rel(a, b, op == 2);
            return true;
        }
        case 4: // pop(obj) / unlink, also on an unlinked node (harmless)
            if (!node_alive(a))
                return false;
            c.log("pop(n%d)%s ", a, ring_of(a) < 0 ? "[unlinked]" : "");
            if (ring_of(a) < 0)
                c.label("unlink_twice");
            if (t & 1)
                nodes[a]->lnk.unlink();
            else
            {
                XList *via = nullptr;
                for (auto *l : lists)
                    if (l)
                        via = l;
                if (via)
                    via->pop(*nodes[a]);
                else
                    nodes[a]->lnk.unlink();
            }
            model_unlink(a);
            return true;
        case 5: // pop_front / pop_back (harmless on an empty list)
        {
            int l = t % nl;
            if (!lists[l])
                return false;
            bool front = a & 1;
            c.log("%s(L%d) ", front ? "pop_front" : "pop_back", l);
            if (front)
                lists[l]->pop_front();
            else
                lists[l]->pop_back();
            if (!ring[l].empty())
            {
                if (ring[l].size() >= 2)
                    big_op = true;
                if (front)
                    ring[l].erase(ring[l].begin());
                else
                    ring[l].pop_back();
            }
            return true;
        }
        case 6: // clear
        {
            int l = t % nl;
            if (!lists[l])
                return false;
            c.log("clear(L%d) ", l);
            lists[l]->clear();
            if (ring[l].size() >= 2)
                big_op = true;
            ring[l].clear();
            return true;
        }
        case 7: // destroy a node, linked or not
            if (!node_alive(a))
                return false;
            c.log("destroy(n%d)%s ", a, ring_of(a) >= 0 ? "[linked]" : "");
            if (ring_of(a) >= 0)
                c.label("destroy_linked");
            delete nodes[a];
            nodes[a] = nullptr;
            model_unlink(a);
            return true;
        case 8: // destroy a list with its nodes in it
        {
            int l = t % nl;
            if (!lists[l])
                return false;
            c.log("destroy(L%d)[%zu nodes] ", l, ring[l].size());
            if (!ring[l].empty())
                c.label("destroy_nonempty_list");
            delete lists[l];
            lists[l] = nullptr;
            ring[l].clear();
            return true;
        }
        case 9: // dst.unlink_and_move_all_nodes_from_other(std::move(src))
        {
            int dst = t % nl, src = a % nl;
            if (dst == src || !lists[dst] || !lists[src])
                return false;
            c.log("splice(L%d<-L%d)[dst %zu, src %zu] ", dst, src, ring[dst].size(), ring[src].size());
            if (ring[src].empty())
                c.label("splice_empty_src");
            if (!ring[dst].empty())
                c.label("splice_nonempty_dst");
            lists[dst]->unlink_and_move_all_nodes_from_other(std::move(*lists[src]));
            // the destination's old nodes are cut loose as a head-less ring
            std::vector<int> orphans = ring[dst];
            ring[dst] = ring[src];
            ring[src].clear();
            if (orphans.size() >= 2)
                ring.push_back(orphans);
            return true;
        }
        }
        return false;
    }
    static const int kOps = 10;

    void check()
    {
        const size_t bound = (size_t)universe + 2;
        for (size_t l = 0; l < nlists; l++)
        {
            if (!lists[l])
                continue;
            XList &L = *lists[l];
            // bounded raw walks first
            {
                igris::dlist_node *head = L.end().current;
                igris::dlist_node *it = head->next;
                size_t steps = 0;
                while (it != head)
                {
                    VP_CHECK(++steps <= bound, "cxx_dlist_cycle", "L%zu: forward walk does not return to the head within %zu steps (model %s)", l,
                             bound, seq_str(ring[l]).c_str());
                    it = it->next;
                }
                it = head->prev;
                steps = 0;
                while (it != head)
                {
                    VP_CHECK(++steps <= bound, "cxx_dlist_cycle_rev", "L%zu: backward walk does not return to the head within %zu steps (model %s)",
                             l, bound, seq_str(ring[l]).c_str());
                    it = it->prev;
                }
                VP_CHECK(head->next->prev == head && head->prev->next == head, "cxx_dlist_symmetry", "L%zu head: neighbours do not point back", l);
            }
            std::vector<int> fwd, rev, rev2;
            for (auto it = L.begin(); it != L.end(); ++it)
                fwd.push_back(it->id);
            if (!ring[l].empty())
            {
                // the standard iterator helpers, which dispatch on the iterator's declared category
                size_t n = ring[l].size();
                auto last = std::prev(L.end());
                auto it = L.begin();
                std::advance(it, (long)n - 1);
                VP_CHECK(last->id == ring[l].back() && it->id == ring[l].back(), "cxx_dlist_std_helpers", "L%zu: std::prev(end()) is n%d, std::advance(begin(), %zu) is n%d, reference n%d",
                         l, last->id, n - 1, it->id, ring[l].back());
                std::advance(it, -((long)n - 1));
                auto e1 = std::next(L.end(), -1);
                VP_CHECK(it->id == ring[l].front() && e1->id == ring[l].back() && (size_t)std::distance(L.begin(), L.end()) == n, "cxx_dlist_std_helpers",
                         "L%zu: std::advance back by %zu gives n%d (reference n%d), std::next(end(), -1) n%d, std::distance %zu (reference %zu)", l, n - 1, it->id,
                         ring[l].front(), e1->id, (size_t)std::distance(L.begin(), L.end()), n);
            }
            {
                // the same list through a const reference (the const begin()/end() overloads, range-for)
                const auto &CL = L;
                std::vector<int> cfwd, cfor;
                for (auto it = CL.begin(); it != CL.end(); ++it)
                    cfwd.push_back(it->id);
                for (auto &x : CL)
                    cfor.push_back(x.id);
                VP_CHECK(cfwd == ring[l] && cfor == ring[l], "cxx_dlist_const_forward", "L%zu through a const reference: begin()..end() %s, range-for %s, reference %s", l,
                         seq_str(cfwd).c_str(), seq_str(cfor).c_str(), seq_str(ring[l]).c_str());
                VP_CHECK(CL.size() == ring[l].size() && CL.empty() == ring[l].empty(), "cxx_dlist_const_size", "L%zu through a const reference: size()=%zu empty()=%d, reference %zu",
                         l, CL.size(), (int)CL.empty(), ring[l].size());
            }
            for (auto it = L.rbegin(); it != L.rend(); ++it)
                rev.push_back(it->id);
            for (auto it = L.end(); it != L.begin();)
            {
                --it;
                rev2.push_back((*it).id);
            }
            // the remaining stepping forms: postfix ++ / -- of the forward iterator, prefix and postfix -- of the reverse
            // iterator (from rend() back to rbegin(): forward order), postfix ++ of the reverse iterator
            std::vector<int> fwd_post, rev_post, rrev_pre, rrev_post, rev_postinc;
            for (auto it = L.begin(); it != L.end(); it++)
                fwd_post.push_back(it->id);
            for (auto it = L.end(); it != L.begin();)
            {
                it--;
                rev_post.push_back(it->id);
            }
            for (auto it = L.rend(); it != L.rbegin();)
            {
                --it;
                rrev_pre.push_back(it->id);
            }
            for (auto it = L.rend(); it != L.rbegin();)
            {
                it--;
                rrev_post.push_back(it->id);
            }
            for (auto it = L.rbegin(); it != L.rend(); it++)
                rev_postinc.push_back(it->id);
            std::vector<int> mrev(ring[l].rbegin(), ring[l].rend());
            VP_CHECK(fwd_post == ring[l] && rrev_pre == ring[l] && rrev_post == ring[l], "cxx_dlist_iterator_steps",
                     "L%zu: it++ walk %s, --rit walk from rend() %s, rit-- walk from rend() %s, reference %s", l, seq_str(fwd_post).c_str(), seq_str(rrev_pre).c_str(),
                     seq_str(rrev_post).c_str(), seq_str(ring[l]).c_str());
            VP_CHECK(rev_post == mrev && rev_postinc == mrev, "cxx_dlist_iterator_steps", "L%zu: it-- walk from end() %s, rit++ walk %s, reference reversed %s", l,
                     seq_str(rev_post).c_str(), seq_str(rev_postinc).c_str(), seq_str(mrev).c_str());
            VP_CHECK(fwd == ring[l], "cxx_dlist_forward", "L%zu forward %s, reference %s", l, seq_str(fwd).c_str(), seq_str(ring[l]).c_str());
            VP_CHECK(rev == mrev && rev2 == mrev, "cxx_dlist_backward", "L%zu backward %s, reference reversed %s", l, seq_str(rev).c_str(),
                     seq_str(mrev).c_str());
            VP_CHECK(L.size() == ring[l].size(), "cxx_dlist_size", "L%zu size()=%zu, reference %zu", l, L.size(), ring[l].size());
            VP_CHECK(L.empty() == ring[l].empty(), "cxx_dlist_empty", "L%zu empty()=%d with %zu elements", l, (int)L.empty(), ring[l].size());
            VP_CHECK(L.is_correct(), "cxx_dlist_is_correct", "L%zu is_correct() false", l);
            if (!ring[l].empty())
            {
                // (first_entry/last_entry/cast_out do not compile -- const this vs member_container -- and are not exercised)
                VP_CHECK(L.front().id == ring[l].front() && L.first().id == ring[l].front() && L.back().id == ring[l].back() &&
                             L.first_node() == &nodes[ring[l].front()]->lnk && L.last_node() == &nodes[ring[l].back()]->lnk,
                         "cxx_dlist_front_back", "L%zu front/back accessors disagree with the reference %s", l, seq_str(ring[l]).c_str());
            }
        }
        // head-less rings: mutually consistent, in the model's cyclic order
        for (size_t r = nlists; r < ring.size(); r++)
        {
            const std::vector<int> &q = ring[r];
            for (size_t i = 0; i < q.size(); i++)
            {
                igris::dlist_node *k = &nodes[q[i]]->lnk;
                igris::dlist_node *kn = &nodes[q[(i + 1) % q.size()]]->lnk;
                VP_CHECK(k->next == kn && kn->prev == k, "cxx_dlist_orphan_ring", "orphan ring %s: n%d and n%d are not neighbours", seq_str(q).c_str(),
                         q[i], q[(i + 1) % q.size()]);
            }
        }
        for (size_t i = 0; i < nodes.size(); i++)
        {
            if (!nodes[i])
                continue;
            igris::dlist_node *k = &nodes[i]->lnk;
            VP_CHECK(k->next->prev == k && k->prev->next == k, "cxx_dlist_symmetry", "n%zu: neighbours do not point back", i);
            bool linked = ring_of((int)i) >= 0;
            VP_CHECK(k->is_linked() == linked && k->is_unlinked() == !linked && k->empty() == !linked, "cxx_dlist_linked_flag",
                     "n%zu is_linked()=%d, reference %d", i, (int)k->is_linked(), (int)linked);
            if (!linked)
                VP_CHECK(k->next == k && k->prev == k, "cxx_dlist_selflink", "unlinked n%zu is not self-linked", i);
        }
    }
};

// finish() for the C world: nothing beyond the destructor
struct CDlistWorldF : CDlistWorld
{
    using CDlistWorld::CDlistWorld;
    void finish() {}
};

void t_c_dlist(Src &s, Case &c) { run_history<CDlistWorldF>(s, c, false, "c_dlist"); }
void t_cxx_dlist(Src &s, Case &c) { run_history<CxxDlistWorld>(s, c, false, "cxx_dlist"); }
struct ManyMode
{
    ManyMode() { g_many = true; }
    ~ManyMode() { g_many = false; }
};
void t_c_dlist_many(Src &s, Case &c)
{
    ManyMode m;
    run_history<CDlistWorldF>(s, c, false, "c_dlist");
}
void t_cxx_dlist_many(Src &s, Case &c)
{
    ManyMode m;
    run_history<CxxDlistWorld>(s, c, false, "cxx_dlist");
}
void t_slist(Src &s, Case &c);
void t_hlist(Src &s, Case &c);
void t_slist_many(Src &s, Case &c)
{
    ManyMode m;
    t_slist(s, c);
}
void t_hlist_many(Src &s, Case &c)
{
    ManyMode m;
    t_hlist(s, c);
}
struct SNode
{
    int id;
    char pad[4];
    slist_head lnk;
};
typedef igris::slist<SNode, &SNode::lnk> XSlist;

// A node type with TWO link members of the same type, on two lists at once (a run queue and a wait queue through the same
// object): entries of either list must come back as the right objects whatever list was looked at first.
struct XNode2
{
    int id;
    char pad[12];
    igris::dlist_node lnk;
    int between;
    igris::dlist_node lnk2;
};
void t_cxx_dlist_two_links(Src &s, Case &c)
{
    typedef igris::dlist<XNode2, &XNode2::lnk> ListA;
    typedef igris::dlist<XNode2, &XNode2::lnk2> ListB;
    int nn = (int)s.range(1, 6);
    std::vector<std::unique_ptr<XNode2>> nodes;
    for (int i = 0; i < nn; i++)
    {
        nodes.emplace_back(new XNode2);
        nodes.back()->id = i;
        nodes.back()->between = 1000 + i;
    }
    auto *la = new ListA;
    auto *lb = new ListB;
    std::vector<int> ma, mb;
    bool b_first = s.coin(); // which list is looked at first
    c.log("two lists through two link members of %d nodes (%s observed first): ", nn, b_first ? "B" : "A");
    auto unlink = [](std::vector<int> &m, int a) { m.erase(std::remove(m.begin(), m.end(), a), m.end()); };
    auto check_a = [&]() {
        std::vector<int> got;
        for (auto it = la->begin(); it != la->end(); ++it)
        {
            VP_CHECK(&*it == nodes[(size_t)ma[got.size() < ma.size() ? got.size() : 0]].get() || got.size() >= ma.size(), "two_links_entry",
                     "list A: element %zu is not the object the reference has there", got.size());
            got.push_back(it->id);
        }
        VP_CHECK(got == ma, "two_links_forward", "list A reads %s, reference %s", seq_str(got).c_str(), seq_str(ma).c_str());
    };
    auto check_b = [&]() {
        std::vector<int> got;
        for (auto it = lb->begin(); it != lb->end(); ++it)
        {
            VP_CHECK(got.size() >= mb.size() || &*it == nodes[(size_t)mb[got.size()]].get(), "two_links_entry",
                     "list B: element %zu is not the object the reference has there (the entry pointer is off by %td bytes)", got.size(),
                     got.size() < mb.size() ? (char *)&*it - (char *)nodes[(size_t)mb[got.size()]].get() : (ptrdiff_t)0);
            got.push_back(it->id);
        }
        VP_CHECK(got == mb, "two_links_forward", "list B reads %s, reference %s", seq_str(got).c_str(), seq_str(mb).c_str());
    };
    int nops = (int)s.range(1, 24);
    for (int i = 0; i < nops; i++)
    {
        int a = (int)s.below((uint64_t)nn);
        switch (s.below(6))
        {
        case 0:
            c.log("A.back(n%d) ", a);
            la->move_back(*nodes[(size_t)a]);
            unlink(ma, a);
            ma.push_back(a);
            break;
        case 1:
            c.log("A.front(n%d) ", a);
            la->move_front(*nodes[(size_t)a]);
            unlink(ma, a);
            ma.insert(ma.begin(), a);
            break;
        case 2:
            c.log("B.back(n%d) ", a);
            lb->move_back(*nodes[(size_t)a]);
            unlink(mb, a);
            mb.push_back(a);
            break;
        case 3:
            c.log("B.front(n%d) ", a);
            lb->move_front(*nodes[(size_t)a]);
            unlink(mb, a);
            mb.insert(mb.begin(), a);
            break;
        case 4:
            c.log("unlinkA(n%d) ", a);
            nodes[(size_t)a]->lnk.unlink();
            unlink(ma, a);
            break;
        default:
            c.log("unlinkB(n%d) ", a);
            nodes[(size_t)a]->lnk2.unlink();
            unlink(mb, a);
        }
        if (b_first)
        {
            check_b();
            check_a();
        }
        else
        {
            check_a();
            check_b();
        }
    }
    c.nontrivial = !ma.empty() && !mb.empty();
    for (auto &n : nodes)
    {
        n->lnk.unlink();
        n->lnk2.unlink();
    }
    delete la;
    delete lb;
}

// Very long lists: 65530..65545 nodes (counts that do not fit 16 bits) on a C dlist, an igris::dlist and a C slist —
// size queries against traversal counts, before and after a few removals.
void t_lists_huge(Src &s, Case &c)
{
    size_t n = (size_t)s.range(65530, 65545);
    int kind = (int)s.below(3);
    c.log("%zu nodes on a %s", n, kind == 0 ? "C dlist" : kind == 1 ? "igris::dlist" : "C slist");
    c.nontrivial = true;
    if (kind == 0)
    {
        std::vector<CNode> nodes(n);
        dlist_head head;
        dlist_init(&head);
        for (size_t i = 0; i < n; i++)
        {
            nodes[i].id = (int)i;
            dlist_init(&nodes[i].lnk);
            if (i & 1)
                dlist_add_prev(&nodes[i].lnk, &head);
            else
                dlist_add_next(&nodes[i].lnk, &head);
        }
        size_t walked = 0;
        dlist_head *it;
        dlist_for_each(it, &head) walked++;
        VP_CHECK(walked == n && (size_t)dlist_size(&head) == n && (size_t)dlist_size_reversed(&head) == n && !dlist_empty(&head), "huge_dlist_size",
                 "%zu nodes: traversal counts %zu, dlist_size %d, dlist_size_reversed %d, dlist_empty %d", n, walked, dlist_size(&head), dlist_size_reversed(&head),
                 dlist_empty(&head));
        size_t drop = (size_t)s.range(1, 7);
        for (size_t i = 0; i < drop; i++)
            dlist_del_init(&nodes[i * 1000].lnk);
        VP_CHECK((size_t)dlist_size(&head) == n - drop, "huge_dlist_size", "after %zu removals dlist_size is %d, want %zu", drop, dlist_size(&head), n - drop);
        for (auto &nd : nodes)
            dlist_del_init(&nd.lnk);
    }
    else if (kind == 1)
    {
        std::vector<XNode> nodes(n);
        auto *l = new XList;
        for (size_t i = 0; i < n; i++)
        {
            nodes[i].id = (int)i;
            if (i & 1)
                l->move_back(nodes[i]);
            else
                l->move_front(nodes[i]);
        }
        size_t walked = 0;
        for (auto it = l->begin(); it != l->end(); ++it)
            walked++;
        VP_CHECK(walked == n && l->size() == n && !l->empty(), "huge_cxx_dlist_size", "%zu nodes: traversal counts %zu, size() %zu", n, walked, (size_t)l->size());
        size_t drop = (size_t)s.range(1, 7);
        for (size_t i = 0; i < drop; i++)
            nodes[i * 1000].lnk.unlink();
        VP_CHECK(l->size() == n - drop, "huge_cxx_dlist_size", "after %zu removals size() is %zu, want %zu", drop, (size_t)l->size(), n - drop);
        for (auto &nd : nodes)
            nd.lnk.unlink();
        delete l;
    }
    else
    {
        std::vector<SNode> nodes(n);
        slist_head head;
        slist_init(&head);
        for (size_t i = 0; i < n; i++)
        {
            nodes[i].id = (int)i;
            slist_add(&nodes[i].lnk, &head);
        }
        size_t walked = 0;
        slist_head *it;
        slist_for_each(it, &head) walked++;
        VP_CHECK(walked == n && (size_t)slist_size(&head) == n && !slist_empty(&head), "huge_slist_size", "%zu nodes: traversal counts %zu, slist_size %d", n, walked,
                 slist_size(&head));
        size_t drop = (size_t)s.range(1, 7);
        for (size_t i = 0; i < drop; i++)
            slist_pop_first(&head);
        VP_CHECK((size_t)slist_size(&head) == n - drop, "huge_slist_size", "after %zu pops slist_size is %d, want %zu", drop, slist_size(&head), n - drop);
    }
}

void t_c_dlist_enum(Src &s, Case &c) { run_history<CDlistWorldF>(s, c, true, "c_dlist"); }
void t_cxx_dlist_enum(Src &s, Case &c) { run_history<CxxDlistWorld>(s, c, true, "cxx_dlist"); }
template <int OPS> unsigned __int128 dl_enum_size(int tier)
{
    unsigned __int128 per = OPS * 3 * 5, t = 1;
    for (int i = 0; i < (tier ? 4 : 3); i++)
        t *= per;
    return t;
}

// =========================================================================
// slist (C functions + igris::slist)
// =========================================================================

void t_slist(Src &s, Case &c)
{
    int nnodes = g_many ? (int)s.range(258, 300) : (int)s.range(1, 10);
    int nops = g_many ? nnodes + (int)s.range(0, 200) : (int)s.range(0, 40);
    bool cxx = s.coin();
    c.log("slist(%s) nodes=%d: ", cxx ? "igris::slist" : "C", nnodes);
    std::vector<SNode *> nodes;
    std::vector<int> state(nnodes, 0); // 0 free, 1 linked, 2 destroyed
    for (int i = 0; i < nnodes; i++)
    {
        nodes.push_back(new SNode);
        nodes.back()->id = i;
        nodes.back()->lnk.next = (slist_head *)(uintptr_t)0xDEAD0000;
    }
    std::unique_ptr<slist_head> chead(new slist_head);
    slist_init(chead.get());
    XSlist xl;
    std::vector<int> model;
    bool popped_from_big = false;
    auto check = [&]() {
        std::vector<int> got, got_e;
        if (cxx)
        {
            for (auto it = xl.begin(); it != xl.end(); ++it)
                got.push_back(it->id);
            // (the const begin()/end() overloads of igris::slist do not compile; not exercised)
            for (auto it = xl.begin(); it != xl.end(); it++)
                got_e.push_back((*it).id);
            VP_CHECK(xl.empty() == model.empty(), "slist_empty", "empty()=%d with %zu elements", (int)xl.empty(), model.size());
        }
        else
        {
            slist_head *h = chead.get(), *it;
            int steps = 0;
            for (it = h->next; it != h; it = it->next)
                VP_CHECK(++steps <= nnodes + 1, "slist_cycle", "walk does not return to the head (model %s)", seq_str(model).c_str());
            slist_for_each(it, h) got.push_back(slist_entry(it, SNode, lnk)->id);
            SNode *pos;
            slist_for_each_entry(pos, h, lnk) got_e.push_back(pos->id);
            VP_CHECK(slist_size(h) == (int)model.size(), "slist_size", "slist_size=%d, reference %zu", slist_size(h), model.size());
            VP_CHECK((slist_empty(h) != 0) == model.empty(), "slist_empty", "slist_empty=%d with %zu elements", slist_empty(h), model.size());
            for (int i = 0; i < nnodes; i++)
                if (state[i] != 2)
                {
                    int in = std::find(model.begin(), model.end(), i) != model.end();
                    VP_CHECK(slist_in(h, &nodes[i]->lnk) == in, "slist_membership", "slist_in(n%d)=%d, reference %d", i, slist_in(h, &nodes[i]->lnk), in);
                }
        }
        VP_CHECK(got == model && got_e == model, "slist_forward", "traversal %s, reference %s", seq_str(got).c_str(), seq_str(model).c_str());
    };
    check();
    for (int i = 0; i < nops; i++)
    {
        int op = (int)s.below(4), a = (int)s.below((uint64_t)nnodes);
        if (g_many && i < nnodes - 3)
        {
            // prelude of the many-node target: every node is added once, then the random history continues
            op = op & 1;
            a = i;
        }
        if (op <= 1)
        {
            // add a free node at the front (C++: add_first / move_front) or after a linked node (C only)
            if (state[a] != 0)
                continue;
            int after = -1;
            if (!cxx && op == 1 && !model.empty())
                after = model[s.below(model.size())];
            c.log("add(n%d%s) ", a, after >= 0 ? (",after n" + std::to_string(after)).c_str() : "");
            if (cxx)
            {
                if (op == 0)
                    xl.add_first(*nodes[a]);
                else
                    xl.move_front(*nodes[a]);
                model.insert(model.begin(), a);
            }
            else if (after >= 0)
            {
                slist_add(&nodes[a]->lnk, &nodes[after]->lnk);
                model.insert(std::find(model.begin(), model.end(), after) + 1, a);
            }
            else
            {
                slist_add(&nodes[a]->lnk, chead.get());
                model.insert(model.begin(), a);
            }
            state[a] = 1;
        }
        else if (op == 2 && !cxx)
        {
            c.log("pop_first ");
            // every other pop of a non-empty list goes through the entry form of the macro
            const bool as_entry = !model.empty() && (model.size() + (size_t)a) % 2 == 0;
            slist_head *r = as_entry ? &slist_pop_first_entry(chead.get(), SNode, lnk)->lnk : slist_pop_first(chead.get());
            if (model.empty())
                VP_CHECK(r == nullptr, "slist_pop_empty", "slist_pop_first on an empty list returned %p", (void *)r);
            else
            {
                VP_CHECK(r == &nodes[model[0]]->lnk, "slist_pop_value", "slist_pop_first returned the wrong node");
                if (model.size() >= 2)
                    popped_from_big = true;
                state[model[0]] = 0;
                model.erase(model.begin());
            }
        }
        else if (op == 3)
        {
            if (state[a] != 0)
                continue;
            c.log("destroy(n%d) ", a);
            delete nodes[a];
            nodes[a] = nullptr;
            state[a] = 2;
        }
        if (!g_many || i % 16 == 15 || i + 1 == nops)
            check();
    }
    c.nontrivial = popped_from_big || (cxx && model.size() >= 3);
    if (g_many)
        c.label(model.size() > 255 ? "list_longer_than_255" : "lists_short");
    c.label(cxx ? "igris::slist" : "c_slist");
    for (auto *n : nodes)
        delete n;
}

// =========================================================================
// hlist
// =========================================================================
struct HNode
{
    int id;
    char pad[12]; // member at a non-zero offset: hlist_for_each_entry must still stop at the end
    hlist_node lnk;
};

void t_hlist(Src &s, Case &c)
{
    int nnodes = g_many ? (int)s.range(258, 300) : (int)s.range(1, 10), nlists = (int)s.range(1, 2);
    int nops = g_many ? nnodes + (int)s.range(0, 200) : (int)s.range(0, 40);
    c.log("hlist nodes=%d lists=%d: ", nnodes, nlists);
    std::vector<HNode *> nodes;
    std::vector<int> state(nnodes, 0); // 0 unhashed, 1 linked, 2 destroyed
    for (int i = 0; i < nnodes; i++)
    {
        nodes.push_back(new HNode);
        nodes.back()->id = i;
        nodes.back()->lnk.next = (hlist_node *)(uintptr_t)0xDEAD0000;
        hlist_node_init(&nodes.back()->lnk);
    }
    std::vector<std::unique_ptr<hlist_head>> heads;
    std::vector<std::vector<int>> model(nlists);
    for (int i = 0; i < nlists; i++)
    {
        heads.emplace_back(new hlist_head);
        hlist_head_init(heads.back().get());
    }
    bool big = false;
    auto check = [&]() {
        for (int l = 0; l < nlists; l++)
        {
            hlist_head *h = heads[l].get();
            std::vector<int> got, got_e;
            hlist_node *it;
            int steps = 0;
            for (it = h->first; it; it = it->next)
                VP_CHECK(++steps <= nnodes + 1, "hlist_cycle", "L%d: walk does not end (model %s)", l, seq_str(model[l]).c_str());
            hlist_for_each(it, h) got.push_back(hlist_entry(it, HNode, lnk)->id);
            HNode *pos;
            hlist_for_each_entry(pos, h, lnk)
            {
                VP_CHECK((int)got_e.size() <= nnodes, "hlist_for_each_entry_overrun", "L%d: hlist_for_each_entry ran past the end of the list", l);
                got_e.push_back(pos->id);
            }
            VP_CHECK(got == model[l], "hlist_forward", "L%d traversal %s, reference %s", l, seq_str(got).c_str(), seq_str(model[l]).c_str());
            VP_CHECK(got_e == model[l], "hlist_forward_entry", "L%d entry traversal %s, reference %s", l, seq_str(got_e).c_str(),
                     seq_str(model[l]).c_str());
            hlist_node **pp = &h->first;
            for (it = h->first; it; it = it->next)
            {
                VP_CHECK(it->pprev == pp && *it->pprev == it, "hlist_pprev", "L%d: pprev of n%d does not point at the link leading to it", l,
                         hlist_entry(it, HNode, lnk)->id);
                pp = &it->next;
            }
        }
    };
    check();
    for (int i = 0; i < nops; i++)
    {
        int op = (int)s.below(4), a = (int)s.below((uint64_t)nnodes), l = (int)s.below((uint64_t)nlists);
        if (g_many && i < nnodes - 3)
        {
            op = op & 1;
            a = i;
            l = 0;
        }
        if (op == 0 || op == 1)
        {
            if (state[a] != 0)
                continue;
            if (op == 1 && !model[l].empty())
            {
                size_t at = s.below(model[l].size());
                int after = model[l][at];
                c.log("add_next(n%d,after n%d) ", a, after);
                hlist_add_next(&nodes[a]->lnk, &nodes[after]->lnk.next);
                model[l].insert(model[l].begin() + at + 1, a);
            }
            else
            {
                c.log("add_next(n%d,L%d.first) ", a, l);
                hlist_add_next(&nodes[a]->lnk, &heads[l]->first);
                model[l].insert(model[l].begin(), a);
            }
            state[a] = 1;
        }
        else if (op == 2)
        {
            if (state[a] == 2)
                continue;
            c.log("del(n%d)%s ", a, state[a] == 0 ? "[unhashed]" : "");
            hlist_del(&nodes[a]->lnk);
            if (state[a] == 1)
            {
                for (auto &m : model)
                {
                    auto f = std::find(m.begin(), m.end(), a);
                    if (f != m.end())
                    {
                        if (m.size() >= 2)
                            big = true;
                        if (f == m.begin())
                            c.label("del_first");
                        else if (f + 1 == m.end())
                            c.label("del_last");
                        else
                            c.label("del_middle");
                        m.erase(f);
                    }
                }
                hlist_node_init(&nodes[a]->lnk); // as a caller does before re-use
                state[a] = 0;
            }
            else
                c.label("del_unhashed");
        }
        else
        {
            if (state[a] != 0)
                continue;
            c.log("destroy(n%d) ", a);
            delete nodes[a];
            nodes[a] = nullptr;
            state[a] = 2;
        }
        if (!g_many || i % 16 == 15 || i + 1 == nops)
            check();
    }
    c.nontrivial = big;
    if (g_many)
        c.label(model[0].size() > 255 ? "list_longer_than_255" : "lists_short");
    for (auto *n : nodes)
        delete n;
}

} // namespace

VP_TARGET("c_dlist", t_c_dlist,
          "C dlist: histories (<= 60 ops) over <= 12 individually allocated nodes (link member at a non-zero offset) and <= 3 lists: "
          "add_next/add_prev/move_sorted of unlinked nodes, del, del_init (also twice), move/move_tail to any head or linked node "
          "incl. neighbours and itself, insert_instead, destroying unlinked nodes; lock-step reference lists, every traversal "
          "macro, size/empty/membership/check queries, link symmetry, self-linked del_init'ed nodes after every op; non-trivial = a "
          "removal or move on a list with >= 2 elements");
VP_TARGET("cxx_dlist", t_cxx_dlist,
          "igris::dlist: histories over <= 12 nodes and <= 3 heap-allocated lists: move_front/back/next/prev of linked or unlinked "
          "nodes (to neighbours and themselves), pop/unlink (also twice), pop_front/back, clear, destroying linked nodes and non-empty "
          "lists, whole-list splice with empty/non-empty source and destination (orphaned nodes modelled as a head-less ring); same "
          "checks through begin/end, rbegin/rend, --end, size, empty, is_correct, front/back");
VP_TARGET("slist", t_slist, "C slist (slist_add at head / after a node, slist_pop_first incl. empty) and igris::slist (add_first, move_front): reference sequence, size/empty/membership after every op");
VP_TARGET("hlist", t_hlist,
          "hlist: hlist_add_next at the head / after a node, hlist_del of first/middle/last/unhashed nodes; hlist_for_each and "
          "hlist_for_each_entry (member at a non-zero offset) against the reference, pprev back-pointers after every op");
VP_TARGET("c_dlist_many", t_c_dlist_many,
          "C dlist with 258..300 nodes on 1..2 lists and 300..800 operations of the same kinds (lists grow past 255 elements): "
          "size, traversals, membership, symmetry checked every 16th step and at the end");
VP_TARGET("cxx_dlist_many", t_cxx_dlist_many, "igris::dlist with 258..300 nodes on 1..2 lists and 300..800 operations; same checks, every 16th step and at the end");
VP_TARGET("slist_many", t_slist_many, "C slist / igris::slist with 258..300 nodes: every node added once, then up to 200 random operations; same checks (every 16th step and at the end)");
VP_TARGET("hlist_many", t_hlist_many, "hlist with 258..300 nodes: every node added once to list 0, then up to 200 random operations; same checks (every 16th step and at the end)");
VP_TARGET("cxx_dlist_two_links", t_cxx_dlist_two_links,
          "igris::dlist: 1..6 nodes that carry two link members of the same type and sit on two lists at once (one per member); move_front/back and unlink on either; after every "
          "operation both lists must read as their reference and hand out the very node objects (in a drawn observation order); non-trivial = both lists non-empty at the end");
VP_TARGET("lists_huge", t_lists_huge,
          "65530..65545 nodes on a C dlist, an igris::dlist or a C slist: size queries equal the traversal count, before and after 1..7 removals");
VP_TARGET("c_dlist_enum", t_c_dlist_enum, "exhaustive: every history of 3 (quick) / 4 (thorough) operations x 3 nodes x 5 targets over 2 lists (C dlist)",
          dl_enum_size<11>);
VP_TARGET("cxx_dlist_enum", t_cxx_dlist_enum, "exhaustive: every history of 3 (quick) / 4 (thorough) operations x 3 nodes x 5 targets over 2 lists (igris::dlist)",
          dl_enum_size<10>);
