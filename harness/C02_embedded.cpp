// C02 — flat_map / flat_set the way a bare-metal build gets them: compat/std/vector
// makes std::vector an alias of igris::vector, so the flat containers sit on
// igris::vector. Reproduced here by aliasing a private name and renaming `vector`
// while the two flat headers are read.
#include "C02_flat.h"
#include <algorithm>
#include <functional>
#include <vector>
#include <igris/container/vector.h>
namespace std
{
    template <class T, class Alloc = std::allocator<T>> using igv_vector = igris::vector<T, Alloc>;
}
#define vector igv_vector
#define flat_map flat_map_embedded
#define flat_set flat_set_embedded
#define IGRIS_CONTAINER_FLAT_MAP_H_EMBEDDED
#include <igris/container/flat_map.h>
#include <igris/container/flat_set.h>
#undef vector
#undef flat_map
#undef flat_set

using namespace vpbt;

static void flat_embedded(Src &s, Case &c)
{
    switch (s.below(3))
    {
    case 0:
        c02flat::flat_target<igris::flat_map_embedded<int, int>, igris::flat_set_embedded<int>, int, int>(s, c, "flat_map<int,int>/flat_set<int> (igris::vector)");
        break;
    case 1:
        c02flat::flat_target<igris::flat_map_embedded<std::string, int>, igris::flat_set_embedded<std::string>, std::string, int>(
            s, c, "flat_map<string,int>/flat_set<string> (igris::vector)");
        break;
    default:
        c02flat::flat_target<igris::flat_map_embedded<int, std::string>, igris::flat_set_embedded<int>, int, std::string>(
            s, c, "flat_map<int,string>/flat_set<int> (igris::vector)");
    }
}
VP_TARGET("flat_embedded", flat_embedded,
          "the same flat_map / flat_set histories with the containers instantiated over igris::vector (what compat/std/map|set|vector "
          "give a bare-metal build)");
