// C12 — float <-> text conversion is accurate to the printed precision.
// Targets: ftoa (render, random), ftoa_sweep (all float patterns, blocks),
// atof (parse: igris_atof32 / igris_atof64 / igris_strtod / libc strtod+atof).
#include "vpbt.h"
#include <cfloat>
#include <cmath>
#include <igris/binreader.h>
#include <igris/util/numconvert.h>
#include <string>

using namespace vpbt;

extern "C"
{
    double igc_strtod(const char *nptr, char **endptr);
    double igc_atof(const char *nptr);
}

namespace
{
float f_from_bits(uint32_t b)
{
    float f;
    memcpy(&f, &b, 4);
    return f;
}
double d_from_bits(uint64_t b)
{
    double d;
    memcpy(&d, &b, 8);
    return d;
}

// effective number of fraction digits the statement allows for a request
// (0..10; the renderer clamps larger requests; negative = automatic, any 0..6)
struct Render
{
    std::string text;
    bool ok;
};

// supported magnitude range for the accuracy clause: every finite float (the
// double entry points convert to float first). DESIGN.md planned |x| < 2^31
// because the pinned renderer went through int32; since fix e226ea3 the whole
// range is exact to float precision, so the whole range is checked.
const double kAccuracyLimit = 3.5e38;

double ulp_float(float x)
{
    float ax = std::fabs(x);
    if (ax == 0)
        return 1.4e-45;
    float up = std::nextafterf(ax, INFINITY);
    if (std::isinf(up))
        return (double)ax - (double)std::nextafterf(ax, 0.0f);
    return (double)up - (double)ax;
}

enum Entry
{
    E_F32,
    E_F64,
    E_FTOA
};
const char *entry_name[] = {"igris_f32toa", "igris_f64toa", "igris_ftoa"};

// x is the value as the entry point receives it (for f64toa/ftoa a double)
void check_render(Entry en, double x, int precision, bool full_message)
{
    // worst case: sign + 39 integer digits + point + 10 fraction digits + NUL
    const size_t room = 1 + 39 + 1 + 10 + 1;
    Exact blk(room);
    memset(blk.p, 0x7e, room);
    switch (en)
    {
    case E_F32:
        igris_f32toa((float)x, blk.c(), (int8_t)precision);
        break;
    case E_F64:
        igris_f64toa(x, blk.c(), (int8_t)precision);
        break;
    default:
        igris_ftoa(x, blk.c(), (int8_t)precision);
    }
    size_t len = strnlen(blk.c(), room);
    VP_CHECK(len < room, "ftoa_unterminated", "%s(%a, %d): no terminator within %zu bytes", entry_name[en], x, precision, room);
    std::string t(blk.c(), len);
    // "no write beyond the text": everything behind the terminator still holds the fill pattern
    for (size_t i = len + 1; i < room; i++)
        VP_CHECK(blk.p[i] == 0x7e, "ftoa_wrote_beyond_text", "%s(%a, %d) = '%s' (%zu characters) but the byte %zu behind the terminator was overwritten with 0x%02x",
                 entry_name[en], x, precision, t.c_str(), len, i - len, blk.p[i]);
    float xf = (float)x; // the renderer works on the float value
    if (std::isnan(xf))
    {
        VP_CHECK(t == "nan" || t == "-nan" || t == "+nan", "ftoa_nan_token", "%s(nan) = '%s'", entry_name[en], t.c_str());
        return;
    }
    if (std::isinf(xf))
    {
        VP_CHECK(t == (xf > 0 ? "+inf" : "-inf") || (xf > 0 && t == "inf"), "ftoa_inf_token", "%s(%sinf) = '%s'", entry_name[en],
                 xf > 0 ? "+" : "-", t.c_str());
        return;
    }
    // alphabet and shape: -?digits(.digits)?
    size_t i = 0;
    if (i < t.size() && t[i] == '-')
        i++;
    size_t ib = i;
    while (i < t.size() && t[i] >= '0' && t[i] <= '9')
        i++;
    size_t idigits = i - ib, fdigits = 0;
    bool point = false;
    if (i < t.size() && t[i] == '.')
    {
        point = true;
        i++;
        size_t fb = i;
        while (i < t.size() && t[i] >= '0' && t[i] <= '9')
            i++;
        fdigits = i - fb;
    }
    if (i != t.size() || idigits == 0 || (point && fdigits == 0))
    {
        if (full_message)
            VP_FAIL("ftoa_shape", "%s(%.9g [%a], %d) = '%s' [%s]: not -?digits(.digits)?", entry_name[en], x, x, precision, t.c_str(),
                    hexdump(t.data(), t.size(), 60).c_str());
        VP_FAIL("ftoa_shape", "%s(%a, %d): malformed text", entry_name[en], x, precision);
    }
    VP_CHECK((t[0] == '-') == (xf < 0 || (xf == 0 && std::signbit(xf) && t[0] == '-')), "ftoa_sign", "%s(%.9g, %d) = '%s': sign", entry_name[en], x,
             precision, t.c_str());
    int want = precision > 10 ? 10 : precision;
    if (precision >= 0)
        VP_CHECK((int)fdigits == want, "ftoa_fraction_digits", "%s(%.9g, %d) = '%s': %zu fraction digits, want %d", entry_name[en], x, precision,
                 t.c_str(), fdigits, want);
    else
        VP_CHECK(fdigits <= 6, "ftoa_fraction_digits", "%s(%.9g, auto) = '%s': %zu fraction digits", entry_name[en], x, t.c_str(), fdigits);
    if (std::fabs((double)xf) < kAccuracyLimit)
    {
        double v = strtod(t.c_str(), nullptr);
        double tol = std::pow(10.0, -(double)fdigits) + 4 * ulp_float(xf);
        double err = std::fabs(v - (double)xf);
        VP_CHECK(err <= tol, "ftoa_accuracy", "%s(%.9g, %d) = '%s': off by %.3g (allowed one unit of the last digit %.3g + 4 float ulp)",
                 entry_name[en], x, precision, t.c_str(), err, std::pow(10.0, -(double)fdigits));
    }
}

float gen_float(Src &s, Case &c)
{
    switch (s.weighted({3, 2, 3, 2, 2, 2}))
    {
    case 0:
    {
        static const float sp[] = {0.0f, -0.0f, 1.0f, 0.1f, 0.5f, 0.05f, 9.95f, 9.995f, 99.5f, 0.999999f, 0.9999995f, 123.456f, 1e-7f, 1e9f, 2147483520.0f, 2147483648.0f, 4294967296.0f, 1e10f, 1e20f, 3.4028235e38f, 1.17549435e-38f, 1e-45f, 16777216.0f, 16777217.0f, 42.0f};
        c.label("special_value");
        float v = sp[s.below(sizeof sp / sizeof sp[0])];
        return s.below(4) == 0 ? -v : v;
    }
    case 1:
    {
        c.label("nonfinite");
        switch (s.below(3))
        {
        case 0:
            return INFINITY;
        case 1:
            return -INFINITY;
        default:
            return NAN;
        }
    }
    case 2:
    {
        // short decimal
        long n = (long)s.range(-9999999, 9999999);
        int sc = (int)s.range(0, 9);
        c.label("short_decimal");
        return (float)((double)n / std::pow(10.0, sc));
    }
    case 3:
    {
        // all-nines patterns: x.9999995 etc. (carry into the integer part / ':' digit)
        int nines = (int)s.range(1, 8);
        double v = (double)s.range(0, 1000) + 1.0 - std::pow(10.0, -nines) * (s.coin() ? 0.5 : 1.0);
        c.label("nines");
        return (float)(s.coin() ? v : -v);
    }
    case 4:
    {
        int e = (int)s.range(-149, 127);
        float v = std::ldexp(1.0f, e);
        int k = (int)s.range(-1, 1);
        if (k > 0)
            v = std::nextafterf(v, INFINITY);
        if (k < 0)
            v = std::nextafterf(v, 0.0f);
        c.label("pow2");
        return s.coin() ? v : -v;
    }
    default:
        c.label("random_bits");
        return f_from_bits(s.u32());
    }
}

void t_ftoa(Src &s, Case &c)
{
    Entry en = (Entry)s.weighted({3, 2, 1});
    int precision = (int)s.range(-1, 12);
    double x;
    if (en == E_F32 || s.below(3) != 0)
        x = gen_float(s, c);
    else
    {
        // a genuine double for the double entry points
        switch (s.below(3))
        {
        case 0:
            x = d_from_bits(s.u64());
            c.label("random_double_bits");
            break;
        case 1:
            x = (double)s.range(-99999999, 99999999) / std::pow(10.0, (double)s.range(0, 12));
            c.label("short_decimal_double");
            break;
        default:
        {
            static const double sp[] = {DBL_MAX, DBL_MIN, 1e300, 1e-300, 4.9e-324, 3.4028235e38, 3.5e38, 1e39, 0.1, 2147483647.5, 0.30000000000000004};
            x = sp[s.below(sizeof sp / sizeof sp[0])] * (s.coin() ? 1 : -1);
            c.label("double_extreme");
        }
        }
    }
    c.log("%s(x=%.17g [%a], precision=%d)", entry_name[en], x, x, precision);
    float xf = (float)x;
    if (std::isfinite(xf) && ((precision >= 1 && xf != std::floor(xf)) || std::fabs(xf) >= 16777216.0f))
        c.nontrivial = true;
    c.label(entry_name[en]);
    if (std::isfinite(xf) && std::fabs(xf) >= kAccuracyLimit)
        c.label("beyond_int32");
    check_render(en, x, precision, true);
}

// ---- exhaustive sweep over float bit patterns (blocks of 2^16 patterns) ----
// thorough: all 2^32 patterns x precisions {-1,0,1,2,3,6,10}; quick: 256 blocks
// stratified over every exponent (block index = high 16 bits).
unsigned __int128 sweep_size(int tier) { return tier ? 65536 : 512; }
void t_ftoa_sweep(Src &s, Case &c)
{
    uint64_t total = (uint64_t)sweep_size(tier());
    uint64_t k = s.below(total);
    // quick: 512 blocks = each sign/exponent combination once (bits 31..23), low mantissa block
    uint32_t hi = tier() ? (uint32_t)k : (uint32_t)(k << 7) | (uint32_t)((k * 37) & 0x7f);
    static const int precs[7] = {-1, 0, 1, 2, 3, 6, 10};
    c.log("float patterns %04x0000..%04xffff x precisions {-1,0,1,2,3,6,10} through igris_f32toa", hi, hi);
    c.nontrivial = true;
    for (uint32_t lo = 0; lo < 65536; lo++)
    {
        float f = f_from_bits((hi << 16) | lo);
        for (int pi = 0; pi < 7; pi++)
            check_render(E_F32, (double)f, precs[pi], true);
    }
}

// ------------------------------------------------------------------ parsing
enum PEntry
{
    P_ATOF32,
    P_ATOF64,
    P_IGRIS_STRTOD,
    P_LIBC_STRTOD,
    P_LIBC_ATOF
};
const char *pentry_name[] = {"igris_atof32", "igris_atof64", "igris_strtod", "strtod(shim)", "atof(shim)"};

double ulp_double(double x)
{
    double ax = std::fabs(x);
    if (ax == 0)
        return 4.9406564584124654e-324;
    double up = std::nextafter(ax, INFINITY);
    if (std::isinf(up))
        return ax - std::nextafter(ax, 0.0);
    return up - ax;
}

// value within 8 (double) / 4 (float) ulp of host strtod/strtof and end pointer at the end of the literal
static void check_parse(Case &c, PEntry pe, const std::string &lit, Exact &blk, unsigned char term)
{
    char *end = nullptr;
    double ref = strtod(lit.c_str(), nullptr);
    double got;
    bool have_end = true;
    double tol;
    switch (pe)
    {
    case P_ATOF32:
    {
        float reff = strtof(lit.c_str(), nullptr);
        if (!std::isfinite(reff) || (reff != 0 && std::fabs(reff) < FLT_MIN))
        {
            c.log(" (outside float's normal range: skipped)");
            return;
        }
        got = igris_atof32(blk.c(), &end);
        ref = reff;
        tol = 4 * ulp_float(reff);
        {
            // the same text through the stream reader of binreader.h: same value, and the reader stands where the literal ends
            igris::binreader br(blk.c());
            float f = -12345.0f;
            br.read_ascii_decimal_float(&f);
            char nx = 0x55;
            br.read_binary(nx);
            float g32 = (float)got;
            VP_CHECK(memcmp(&f, &g32, sizeof f) == 0, "binreader_float_value", "binreader::read_ascii_decimal_float(\"%s\") = %.9g, igris_atof32 gives %.9g", lit.c_str(),
                     (double)f, got);
            VP_CHECK(end && nx == *end, "binreader_float_position", "after read_ascii_decimal_float(\"%s\") the next byte read is 0x%02x, the literal is followed by 0x%02x",
                     lit.c_str(), (unsigned char)nx, end ? (unsigned char)*end : 0);
        }
        break;
    }
    case P_ATOF64:
        got = igris_atof64(blk.c(), &end);
        tol = 8 * ulp_double(ref);
        break;
    case P_IGRIS_STRTOD:
        got = igris_strtod(blk.c(), &end);
        tol = 8 * ulp_double(ref);
        break;
    case P_LIBC_STRTOD:
        got = igc_strtod(blk.c(), &end);
        tol = 8 * ulp_double(ref);
        break;
    default:
        got = igc_atof(blk.c());
        have_end = false;
        tol = 8 * ulp_double(ref);
    }
    if (pe != P_ATOF32 && (!std::isfinite(ref) || (ref != 0 && std::fabs(ref) < DBL_MIN)))
    {
        // outside double's normal range the digits are not compared, the kind of result is: a literal the host turns
        // into +-inf must come out as +-inf (or the largest finite value: the last half ulp may round either way), one
        // the host turns into a denormal must come out tiny
        if (std::isinf(ref))
            VP_CHECK(got == ref || got == (ref > 0 ? DBL_MAX : -DBL_MAX), "atof_overflow", "%s(\"%s\") = %.17g, strtod gives %s", pentry_name[pe], lit.c_str(), got,
                     ref > 0 ? "inf" : "-inf");
        else
            VP_CHECK(std::fabs(got) <= 2 * DBL_MIN, "atof_underflow", "%s(\"%s\") = %.17g, strtod gives the denormal %.17g", pentry_name[pe], lit.c_str(), got, ref);
        c.log(" (outside double's normal range: only the kind of result is compared)");
    }
    else if (pe != P_ATOF32 && ref == 0 && got != 0)
    {
        // the host underflowed to zero (or the literal is a zero): at most the smallest denormal may come out
        VP_CHECK(std::fabs(got) <= 4.9406564584124654e-324, "atof_underflow", "%s(\"%s\") = %.17g, strtod gives 0", pentry_name[pe], lit.c_str(), got);
    }
    else
    {
        double err = std::fabs(got - ref);
        VP_CHECK(err <= tol && std::isfinite(got), "atof_value", "%s(\"%s\") = %.17g, strtod gives %.17g (off by %.1f ulp)", pentry_name[pe], lit.c_str(),
                 got, ref, err / (tol / (pe == P_ATOF32 ? 4 : 8)));
        double ulps = err / (tol / (pe == P_ATOF32 ? 4 : 8));
        if (ulps > 2)
            c.label("err>2ulp");
        else if (ulps > 0.5)
            c.label("err>0.5ulp");
    }
    if (have_end)
        VP_CHECK(end == blk.c() + lit.size(), "atof_end", "%s(\"%s\" + 0x%02x): end at offset %td, literal ends at %zu", pentry_name[pe], lit.c_str(),
                 term, end ? end - blk.c() : -1, lit.size());
}

void t_atof(Src &s, Case &c)
{
    PEntry pe = (PEntry)s.weighted({3, 3, 1, 2, 1});
    std::string lit;
    int sign = (int)s.weighted({4, 2, 2});
    if (sign == 1)
        lit += '-';
    if (sign == 2)
        lit += '+';
    int sig_budget = 19;
    int nint = 0, nfrac = 0;
    bool has_frac = false, has_exp = false;
    if (s.below(4) == 0)
    {
        // rendering of a random double by the host, %.17g (may contain e+NN)
        char b[64];
        double v = s.coin() ? d_from_bits(s.u64()) : (double)s.range(-100000, 100000) / std::pow(10.0, (double)s.range(0, 6));
        if (!std::isfinite(v))
            v = 1.5;
        snprintf(b, sizeof b, "%.17g", std::fabs(v));
        lit += b;
        has_frac = strchr(b, '.') != nullptr;
        has_exp = strchr(b, 'e') != nullptr;
        c.label("host_rendered");
    }
    else
    {
        int shape = (int)s.weighted({3, 4, 2, 1}); // d+ | d+.d* | .d+ | d+.
        if (shape != 2)
        {
            nint = (int)s.range(1, 10);
            if (s.below(6) == 0)
                nint = (int)s.range(1, 19);
            for (int i = 0; i < nint; i++)
                lit += (char)('0' + s.below(10));
            sig_budget -= nint;
        }
        if (shape != 0)
        {
            lit += '.';
            has_frac = true;
            nfrac = shape == 3 ? 0 : (int)s.range(1, std::max(1, std::min(sig_budget, 12)));
            for (int i = 0; i < nfrac; i++)
                lit += (char)('0' + s.below(10));
        }
        if (s.below(3) == 0)
        {
            has_exp = true;
            lit += s.coin() ? 'e' : 'E';
            int es = (int)s.weighted({3, 3, 2});
            if (es == 1)
                lit += '-';
            if (es == 2)
                lit += '+';
            int ev = (int)(s.below(3) == 0 ? s.range(0, 300) : s.range(0, 30));
            if (pe == P_ATOF32)
                ev = (int)s.range(0, 30);
            if (s.below(12) == 0)
            {
                // long exponent fields: leading zeros and/or an exponent far out of range (the value
                // is then 0 or inf for every parser; what is checked is the end of the literal)
                c.label("long_exponent_field");
                for (int z = (int)s.below(6); z > 0; z--)
                    lit += '0';
                if (s.coin())
                    ev = (int)s.pick({99999, 100000, 100001, 999999, 1000000, 1000005, 4194304, 123456789});
            }
            lit += std::to_string(ev);
        }
    }
    // terminator: any byte that cannot continue the literal
    static const unsigned char terms[] = {0, 0, 0, ' ', ',', 'x', 'f', ';', '-', '+', 'z', '\n', 0x80, 0xff, ')', 'g'};
    unsigned char term = terms[s.below(sizeof terms)];
    if (!has_exp && (term == 'e' || term == 'E'))
        term = 0;
    if (!has_frac && !has_exp && term == '.')
        term = 0;
    std::string text = lit;
    if (term)
    {
        text += (char)term;
        if (s.coin())
            text += "1";
    }
    Exact blk(text.c_str(), text.size() + 1);
    c.log("%s(\"%s\") literal length %zu term 0x%02x", pentry_name[pe], lit.c_str(), lit.size(), term);
    c.label(pentry_name[pe]);
    if (has_frac || has_exp)
        c.nontrivial = true;
    if (has_exp)
        c.label("exponent");
    if (sign == 2)
        c.label("plus_sign");
    if (nint == 0 && has_frac)
        c.label("leading_point");

    check_parse(c, pe, lit, blk, term);
}

// Long literals of the same grammar: 20..60 significant digits, integer or fraction parts padded with up to 400
// zeros (values far from what their digit count suggests, some overflowing to inf or underflowing to 0 for every
// parser), long exponents that bring such values back into range.
void t_atof_long(Src &s, Case &c)
{
    PEntry pe = (PEntry)s.weighted({3, 3, 1, 2, 1});
    std::string lit;
    int sign = (int)s.weighted({4, 2, 2});
    if (sign == 1)
        lit += '-';
    if (sign == 2)
        lit += '+';
    auto digits = [&](int n, bool nonzero_first) {
        uint64_t seed = s.u64();
        int style = (int)s.below(4); // 0 pseudo-random, 1 all nines, 2 one then zeros, 3 repeated drawn digit
        char d0 = (char)('0' + s.below(10));
        for (int i = 0; i < n; i++)
        {
            seed = seed * 6364136223846793005ull + 1442695040888963407ull;
            char d = style == 0 ? (char)('0' + (seed >> 33) % 10) : style == 1 ? '9' : style == 2 ? (i == 0 ? '1' : '0') : d0;
            if (i == 0 && nonzero_first && d == '0')
                d = '7';
            lit += d;
        }
    };
    int shape = (int)s.weighted({3, 3, 3, 2, 3});
    int expo = 0;
    bool has_exp = false;
    switch (shape)
    {
    case 4: // ordinary mantissa, exponent far outside the double range (the scaling steps of the parser: 256, 512, 768, 1024, ...)
    {
        int ni = (int)s.range(1, 6), nf = (int)s.range(0, 6);
        digits(ni, true);
        if (nf)
        {
            lit += '.';
            digits(nf, false);
        }
        has_exp = true;
        expo = s.coin() ? (int)s.pick({255, 256, 257, 308, 309, 324, 325, 511, 512, 513, 767, 768, 769, 1023, 1024, 1025, 1279, 1280, 2048, 4932, 4933, 5000}) : (int)s.range(250, 1300);
        expo += (int)s.range(-3, 3);
        if (s.coin())
            expo = -expo;
        c.label("exponent_far_outside_the_range");
        break;
    }
    case 0: // many significant digits around the point
    {
        int ni = (int)s.range(0, 40), nf = (int)s.range(ni ? 0 : 1, 40);
        digits(ni, true);
        if (nf || s.coin())
            lit += '.';
        digits(nf, false);
        c.label("many_significant_digits");
        break;
    }
    case 1: // digits followed by a long run of zeros (large magnitude), maybe a negative exponent
    {
        int ni = (int)s.range(1, 25), nz = (int)s.range(20, 400);
        digits(ni, true);
        lit.append((size_t)nz, '0');
        if (s.coin())
        {
            lit += '.';
            digits((int)s.range(0, 10), false);
        }
        if (s.coin())
        {
            has_exp = true;
            expo = -(int)s.range(0, ni + nz + 20);
        }
        c.label("trailing_zero_run");
        break;
    }
    case 2: // 0.000...digits (tiny magnitude), maybe a positive exponent
    {
        int nz = (int)s.range(20, 400), nd = (int)s.range(1, 25);
        if (s.coin())
            lit += '0';
        lit += '.';
        lit.append((size_t)nz, '0');
        digits(nd, true);
        if (s.coin())
        {
            has_exp = true;
            expo = (int)s.range(0, nz + 20);
        }
        c.label("leading_zero_run");
        break;
    }
    default: // leading zeros before an ordinary number
    {
        lit.append((size_t)s.range(1, 300), '0');
        digits((int)s.range(1, 17), false);
        if (s.coin())
        {
            lit += '.';
            digits((int)s.range(1, 8), false);
        }
        if (s.below(3) == 0)
        {
            has_exp = true;
            expo = (int)s.range(-30, 30);
        }
        c.label("leading_zeros");
    }
    }
    if (has_exp)
    {
        lit += s.coin() ? 'e' : 'E';
        if (expo < 0)
            lit += '-';
        else if (s.coin())
            lit += '+';
        lit += std::to_string(expo < 0 ? -expo : expo);
    }
    static const unsigned char terms[] = {0, 0, 0, ' ', ',', 'x', 'f', ';', '-', '+', 'z', '\n', 0x80, 0xff, ')', 'g'};
    unsigned char term = terms[s.below(sizeof terms)];
    if (!has_exp && (term == 'e' || term == 'E'))
        term = 0;
    std::string text = lit;
    if (term)
    {
        text += (char)term;
        if (s.coin())
            text += "1";
    }
    Exact blk(text.c_str(), text.size() + 1);
    c.log("%s(\"%s\") literal length %zu term 0x%02x", pentry_name[pe], lit.c_str(), lit.size(), term);
    c.label(pentry_name[pe]);
    c.nontrivial = true;
    check_parse(c, pe, lit, blk, term);
}

// Arbitrary short strings over the literal's own alphabet {0-9 . e E + -}: texts without any digit, dangling
// exponents ("1e", "1e+x"), second points or signs. The literal is whatever host strtod takes from the front
// (possibly nothing: value 0, end == start); the end cursor is re-used from an earlier call. Characters that
// would let the host go beyond the statement's grammar (white space, inf/nan, hex floats) are never generated.
void t_atof_partial(Src &s, Case &c)
{
    PEntry pe = (PEntry)s.weighted({3, 3, 1, 2, 1});
    static const char al[] = {'0', '1', '5', '9', '.', 'e', 'E', '+', '-', '7'};
    size_t n = (size_t)s.range(0, 9);
    std::string text;
    for (size_t i = 0; i < n; i++)
        text += al[s.below(sizeof al)];
    static const unsigned char terms[] = {0, 0, ',', ' ', 'z', 'f', ';', 0x80, ')', 'g'};
    unsigned char term = terms[s.below(sizeof terms)];
    if (text.empty() && term == ' ')
        term = ','; // leading white space is the host's business (strtod skips it), not the grammar's
    std::string full = text;
    if (term)
    {
        full += (char)term;
        if (s.coin())
            full += "1";
    }
    char *hend = nullptr;
    strtod(full.c_str(), &hend);
    std::string lit = full.substr(0, (size_t)(hend - full.c_str()));
    Exact blk(full.c_str(), full.size() + 1);
    c.log("%s(\"%s\" + 0x%02x): host takes %zu characters", pentry_name[pe], text.c_str(), term, lit.size());
    c.label(pentry_name[pe]);
    c.label(lit.empty() ? "no_literal" : lit.size() < text.size() ? "literal_is_a_proper_prefix" : "whole_text");
    c.nontrivial = lit.size() < text.size();
    check_parse(c, pe, lit, blk, term);
}

// Literals at the edges of the types' ranges: FLT_MAX, FLT_MIN, DBL_MAX, DBL_MIN and their neighbours, and the
// half-ulp windows just above the maxima where the correctly rounded result is still the finite maximum — rendered by
// the host with 8..21 significant digits from a long double scaled by (1 + k * 2^-27), k in -64..64.
void t_atof_limits(Src &s, Case &c)
{
    PEntry pe = (PEntry)s.weighted({4, 3, 1, 2, 1});
    static const long double bases[] = {(long double)FLT_MAX, (long double)FLT_MIN, (long double)DBL_MAX, (long double)DBL_MIN, 16777216.0L, 1.0L,
                                        9007199254740992.0L, (long double)FLT_EPSILON, 3.4028235677973366e38L /* FLT_MAX + half ulp */};
    int bi = pe == P_ATOF32 ? (int)s.pick({0, 0, 0, 1, 4, 5, 7, 8, 8}) : (int)s.below(9);
    long double x = bases[bi];
    int k = (int)s.range(-64, 64);
    if (s.coin())
        k = (int)s.pick({-2, -1, 0, 0, 1, 2});
    x *= 1.0L + (long double)k * 0x1p-27L;
    int digits = (int)s.range(8, 21);
    char b[80];
    snprintf(b, sizeof b, s.coin() ? "%.*Lg" : "%.*Le", digits, x);
    std::string lit = s.below(4) == 0 ? std::string("-") + b : std::string(b);
    static const unsigned char terms[] = {0, 0, 0, ' ', ',', 'x', 'f', ';', 'z'};
    unsigned char term = terms[s.below(sizeof terms)];
    std::string text = lit;
    if (term)
        text += (char)term;
    Exact blk(text.c_str(), text.size() + 1);
    c.log("%s(\"%s\") term 0x%02x (base value #%d, k=%d, %d digits)", pentry_name[pe], lit.c_str(), term, bi, k, digits);
    c.label(pentry_name[pe]);
    static const char *bn[] = {"near_FLT_MAX", "near_FLT_MIN", "near_DBL_MAX", "near_DBL_MIN", "near_2^24", "near_1", "near_2^53", "near_FLT_EPSILON",
                               "near_FLT_MAX_plus_half_ulp"};
    c.label(bn[bi]);
    c.nontrivial = true;
    check_parse(c, pe, lit, blk, term);
}

} // namespace

VP_TARGET("ftoa", t_ftoa,
          "igris_f32toa / igris_f64toa / igris_ftoa: floats from boundary classes (specials, nines, short decimals, powers of two "
          "+- ulp, inf/nan, random bit patterns; genuine doubles for the double entry points) x precision -1..12, into a "
          "worst-case-sized exact buffer; oracle = shape -?digits(.digits{p})?, inf/nan tokens, only numeric characters, "
          "|value - x| <= one unit of the last digit + 4 float ulp for |x| < 2^31; non-trivial = p >= 1 with a fraction, or |x| >= 2^24");
VP_TARGET("ftoa_sweep", t_ftoa_sweep,
          "exhaustive in the thorough tier: all 2^32 float bit patterns x precisions {-1,0,1,2,3,6,10} through igris_f32toa "
          "(blocks of 65536 patterns); quick: 512 blocks, one per sign/exponent",
          sweep_size);
VP_TARGET("atof_limits", t_atof_limits,
          "host renderings (8..21 significant digits, %Lg or %Le) of FLT_MAX, FLT_MIN, DBL_MAX, DBL_MIN, 2^24, 2^53, 1, FLT_EPSILON and FLT_MAX + half ulp, each scaled "
          "by 1 + k*2^-27 (k in -64..64): the edges of the representable ranges, where the correctly rounded result is still finite; same oracle as atof");
VP_TARGET("atof_partial", t_atof_partial,
          "strings of 0..9 characters over {0 1 5 7 9 . e E + -} followed by a terminator: differential against host strtod on how much of the text is a "
          "literal (nothing at all, a proper prefix such as \"1\" of \"1e+\", or everything), its value and the end cursor; non-trivial = the literal is a "
          "proper prefix of the generated text");
VP_TARGET("atof_long", t_atof_long,
          "long literals of the same grammar: up to 80 significant digits, zero runs of 20..400 before or after the digits, leading "
          "zeros, exponents that bring the value back into range; same oracle as atof (values outside the normal range of the "
          "target type are compared for the end pointer only)");
VP_TARGET("atof", t_atof,
          "literals of the grammar [+-]d*[.d*][(e|E)[+-]d+] (>= 1 digit, <= 19 significant digits, exponent to +-300) or host "
          "%.17g renderings, followed by a terminator byte, through igris_atof32, igris_atof64, igris_strtod and the libc "
          "strtod/atof shims; oracle = within 8 ulp (double) / 4 ulp (float) of host strtod and end == end of the literal; "
          "non-trivial = literal has a fraction or an exponent");
