/* Shadow <ctype.h> used when /repo/compat/libc sources are compiled against the
 * host headers: routes to the shim's own ctype (compat/libc/include/ctype.h ->
 * igris/util/ctype.h), so its isspace/tolower/... are the ones exercised.
 * The driver passes -DIGC_REPO_CTYPE="<repo>/compat/libc/include/ctype.h". */
#include IGC_REPO_CTYPE
