// C14 — fixed-capacity containers never exceed capacity or write outside storage.
// Targets over the primary headers: svec_int, svec_tracked, sstring. The twins inside
// std_portable.h are in C14_portable.cpp; the harness itself is C14_common.h.
#include "C14_common.h"
#include <igris/container/static_string.h>
#include <igris/container/static_vector.h>

using namespace vpbt;

namespace
{
    struct VecApi
    {
        static constexpr bool initlist = true, range = true, erase = true, primary = true;
        static constexpr const char *name = "igris";
    };
    struct StrApi
    {
        static constexpr bool portable = false;
        static constexpr const char *name = "igris";
    };
}

static void svec_int(Src &s, Case &c) { c14::vec_target<igris::static_vector, int, VecApi>(s, c); }
static void svec_tracked(Src &s, Case &c) { c14::vec_target<igris::static_vector, c14::Tracked, VecApi>(s, c); }
static void sstring(Src &s, Case &c) { c14::str_target<igris::static_string, StrApi>(s, c); }

#define C14_VEC_RULE(what)                                                                             \
    "history of <= 40 operations on up to 3 " what " objects, N in {1,2,3,5,8}: construction "        \
    "(default, copy, move, initializer list / iterator range of 0..2N values from vector, list, "    \
    "pointer range, static_vector<2N>, another object), push_back, emplace_back, back_inserter of "  \
    "0..2N values, resize(0..2N), erase(first,last), clear, copy/move assignment incl. self, "       \
    "destruction; non-trivial = at least one operation offered more elements than the remaining room"

static void svec_small(Src &s, Case &c)
{
    if (s.coin())
        c14::vec_target<igris::static_vector, signed char, VecApi>(s, c);
    else
        c14::vec_target<igris::static_vector, short, VecApi>(s, c);
}
VP_TARGET("svec_small", svec_small, C14_VEC_RULE("static_vector<signed char,N> / static_vector<short,N>"));
VP_TARGET("svec_int", svec_int, C14_VEC_RULE("static_vector<int,N>"));
VP_TARGET("svec_tracked", svec_tracked, C14_VEC_RULE("static_vector<Tracked,N>"));
VP_TARGET("sstring", sstring,
          "history of <= 40 operations on up to 3 static_string<N> objects, N in {1,2,3,5,8,12}: construction "
          "(default, C string of 0..2N chars, copy, move), push_back incl. on a full string, copy/move "
          "assignment incl. self, c_str, iteration, destruction; non-trivial = at least one operation offered "
          "more characters than the remaining room");
