// C20, race-detector tier: the same generated thread programs on free-running threads,
// built with -fsanitize=thread (no interposition, no controlled schedule). Any
// ThreadSanitizer report is a failure (the process aborts on the first one). This samples
// interleavings, it does not enumerate them.
#include "C20_prog.h"
#include <algorithm>
#include <atomic>
#include <chrono>
#include <igris/event/safe_queue.h>
#include <igris/osinter/wait.h>
#include <igris/sync/syslock.h>
#include <map>
#include <thread>
#include <unistd.h>

using namespace vpbt;
using namespace c20;

namespace
{
struct FreeWorld
{
    igris::dlist_base *queue[kQueues];
    igris::safe_queue<long> *sq;
    int cs_owner = -1; // protected by the system lock: a broken lock shows up as a data race on it
    long cs_counter = 0;
    std::vector<long> popped; // single consumer (thread 0)
    std::atomic<int> finished{0};
    std::atomic<bool> excl_violation{false};
};

void run_ops(FreeWorld *w, int tid, const std::vector<Op> *ops, const std::vector<uint8_t> *pauses)
{
    int depth = 0;
    size_t pi = 0;
    std::vector<int> styles;
    std::vector<igris::syslock_guard *> guards;
    auto leave = [&]() {
        int style = styles.empty() ? 0 : styles.back();
        if (!styles.empty())
            styles.pop_back();
        if (style == 2 && !guards.empty())
        {
            delete guards.back();
            guards.pop_back();
        }
        else if (style == 1)
            igris::syslock().unlock();
        else
            system_unlock();
    };
    for (const Op &o : *ops)
    {
        uint8_t pause = pi < pauses->size() ? (*pauses)[pi++] : 0;
        if (pause & 1)
            sched_yield();
        if (pause & 2)
            usleep((pause >> 2) & 31);
        switch (o.k)
        {
        case O_LOCK:
            if (o.prio == 2)
                guards.push_back(new igris::syslock_guard);
            else if (o.prio == 1)
                igris::syslock().lock();
            else
                system_lock();
            styles.push_back(o.prio);
            if (w->cs_owner != -1 && w->cs_owner != tid)
                w->excl_violation = true;
            w->cs_owner = tid;
            w->cs_counter++;
            depth++;
            break;
        case O_UNLOCK:
            if (!depth)
                break;
            if (--depth == 0)
                w->cs_owner = -1;
            leave();
            break;
        case O_SAVE_RESTORE:
        {
            if (!depth)
                break;
            w->cs_owner = -1;
            struct syslock_save_pair sv = system_lock_save();
            sched_yield();
            system_lock_restore(sv);
            if (w->cs_owner != -1 && w->cs_owner != tid)
                w->excl_violation = true;
            w->cs_owner = tid;
            break;
        }
        case O_WAIT:
        {
            if (depth)
                break;
            void *fut = nullptr;
            wait_current_schedee(w->queue[o.q], o.prio, &fut);
            break;
        }
        case O_UNWAIT_ONE:
            unwait_one(w->queue[o.q], (intptr_t)o.val);
            break;
        case O_UNWAIT_ALL:
            unwait_all(w->queue[o.q], (intptr_t)o.val);
            break;
        case O_PUSH:
            w->sq->push(o.val);
            break;
        case O_TRYPOP:
            if (w->sq->size() > 0)
                w->popped.push_back(w->sq->pop());
            break;
        default:
            sched_yield();
        }
    }
    while (depth-- > 0)
    {
        if (depth == 0)
            w->cs_owner = -1;
        leave();
    }
    w->finished++;
}

void t_tsan(Src &s, Case &c)
{
    Program p = gen_program(s);
    c.log("program: %s", program_str(p).c_str());
    std::vector<long> pushed;
    for (auto &th : p)
        for (auto &o : th)
            if (o.k == O_PUSH)
                pushed.push_back(o.val);
    int runs = tier() ? 6 : 3;
    for (int r = 0; r < runs; r++)
    {
        FreeWorld w;
        for (int i = 0; i < kQueues; i++)
            w.queue[i] = new igris::dlist_base;
        w.sq = new igris::safe_queue<long>;
        std::vector<std::vector<uint8_t>> pauses(p.size());
        for (size_t t = 0; t < p.size(); t++)
            for (size_t i = 0; i < p[t].size(); i++)
                pauses[t].push_back(s.u8());
        std::vector<std::thread> th;
        for (size_t t = 0; t < p.size(); t++)
            th.emplace_back(run_ops, &w, (int)t, &p[t], &pauses[t]);
        // wake whatever is still parked until every thread has finished
        auto t0 = std::chrono::steady_clock::now();
        bool stuck = false;
        while (w.finished.load() < (int)p.size())
        {
            for (int q = 0; q < kQueues; q++)
                unwait_all(w.queue[q], -1);
            usleep(20);
            if (std::chrono::steady_clock::now() - t0 > std::chrono::seconds(6))
            {
                stuck = true;
                break;
            }
        }
        if (stuck)
        {
            // a wall-clock budget is never a verdict: the controlled scheduler decides deadlocks exactly
            c.log(" (run %d did not finish within 6 s: inconclusive, skipped)", r);
            for (auto &t : th)
                t.detach();
            throw Discard{};
        }
        for (auto &t : th)
            t.join();
        VP_CHECK(!w.excl_violation.load(), "tsan_two_owners", "two threads were inside the system lock at once (run %d)", r);
        std::vector<long> got = w.popped;
        while (w.sq->size() > 0)
            got.push_back(w.sq->pop());
        std::vector<long> a = pushed, b = got;
        std::sort(a.begin(), a.end());
        std::sort(b.begin(), b.end());
        VP_CHECK(a == b, "tsan_safe_queue_multiset", "pushed %zu items, popped %zu (run %d)", a.size(), b.size(), r);
        std::map<long, long> last;
        for (long v : got)
        {
            VP_CHECK(!last.count(v / 100) || last[v / 100] < v, "tsan_safe_queue_order", "items of producer %ld out of order (run %d)", v / 100, r);
            last[v / 100] = v;
        }
        for (int i = 0; i < kQueues; i++)
            delete w.queue[i];
        delete w.sq;
    }
    c.nontrivial = p.size() >= 2;
    c.work = (uint64_t)runs;
}
} // namespace

VP_TARGET("tsan", t_tsan,
          "the generated thread programs of `sched` on free-running threads under ThreadSanitizer, with generated yields/sleeps, "
          "3 (quick) / 6 (thorough) runs per program; any ThreadSanitizer report (data race, use of a destroyed mutex/condvar, "
          "lock-order inversion) aborts the case; safe_queue multiset/order and system-lock exclusion are checked as well");
