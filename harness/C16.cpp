// C16 — timers fire exactly when due, in deadline order, without drift.
// Targets: timer_manager (histories of plan/unplan/exec with scripted
// callbacks against a validating reference scheduler), stimer.
#include "vpbt.h"
#include <igris/datastruct/stimer.h>
#include <igris/time/timer_manager.h>
#include <map>
#include <memory>
#include <string>
#include <functional>
#include <vector>

using namespace vpbt;

namespace
{

const int kMaxTimers = 6;

// what a timer's callback does when it fires (generated per timer)
enum Script
{
    S_NOTHING,
    S_UNPLAN_SELF,
    S_UNPLAN_OTHER,
    S_REPLAN_SELF,     // new (start', interval') from the script arguments
    S_PLAN_OTHER_DUE,  // plan another timer with a deadline that has already passed
    S_PLAN_OTHER_LATER // plan another timer with a deadline in the future
};
const char *script_name[] = {"nothing", "unplan_self", "unplan_other", "replan_self", "plan_other_due", "plan_other_later"};

struct RefTimer
{
    bool planned = false;
    int64_t start = 0, interval = 0; // interval 0 = never given parameters yet
    int64_t finish() const { return start + interval; }
    bool due(int64_t now) const { return planned && now - start >= interval; }
};

struct World;
World *g_world;
void fire(int id);

struct World
{
    Case &c;
    igris::timer_manager mgr;
    std::vector<std::unique_ptr<igris::timer<int>>> tim;
    std::vector<RefTimer> ref;
    std::vector<Script> script;
    std::vector<int> script_other;
    std::vector<int64_t> script_a, script_b;
    int64_t now = 0;
    bool in_exec = false;
    int fired_in_exec = 0, acted_in_exec = 0;
    int64_t last_deadline_in_exec = 0;
    bool earlier_planned_in_exec = false;
    bool nontrivial = false;
    std::string fail_sig, fail_msg; // failures found inside callbacks are raised after exec returns

    World(Case &c_, int n) : c(c_)
    {
        for (int i = 0; i < n; i++)
        {
            tim.emplace_back(new igris::timer<int>(igris::make_delegate(fire), (int)i));
            ref.emplace_back();
            script.push_back(S_NOTHING);
            script_other.push_back(0);
            script_a.push_back(0);
            script_b.push_back(1);
        }
    }
    void latch(const char *sig, const std::string &msg)
    {
        if (fail_sig.empty())
        {
            fail_sig = sig;
            fail_msg = msg;
        }
    }
    void do_plan(int id, int64_t start, int64_t interval)
    {
        mgr.plan(*tim[id], start, interval);
        ref[id].planned = true;
        ref[id].start = start;
        ref[id].interval = interval;
    }
    void do_unplan(int id)
    {
        tim[id]->unplan();
        ref[id].planned = false;
    }

    void on_fire(int id)
    {
        if (!in_exec)
            return latch("timer_fired_outside_exec", fmt("t%d fired outside exec", id));
        RefTimer &r = ref[id];
        if (!r.planned)
            return latch("timer_unplanned_fired", fmt("t%d fired at now=%lld although it is not planned", id, (long long)now));
        if (!r.due(now))
            return latch("timer_fired_early", fmt("t%d fired at now=%lld, deadline %lld (start %lld + interval %lld)", id, (long long)now,
                                                  (long long)r.finish(), (long long)r.start, (long long)r.interval));
        // it must be (one of) the earliest deadline(s) among the planned timers
        for (size_t k = 0; k < ref.size(); k++)
            if (ref[k].planned && ref[k].finish() < r.finish())
                return latch("timer_not_earliest",
                             fmt("t%d (deadline %lld) fired at now=%lld while t%zu with deadline %lld is planned", id, (long long)r.finish(),
                                 (long long)now, k, (long long)ref[k].finish()));
        if (fired_in_exec > 0 && !earlier_planned_in_exec && r.finish() < last_deadline_in_exec)
            return latch("timer_deadline_order", fmt("t%d (deadline %lld) fired after a callback with deadline %lld in the same exec", id,
                                                     (long long)r.finish(), (long long)last_deadline_in_exec));
        last_deadline_in_exec = r.finish();
        fired_in_exec++;
        c.log("<t%d@%lld:%s> ", id, (long long)r.finish(), script_name[script[id]]);
        // the script (applied to the implementation and to the reference alike)
        int o = script_other[id];
        int64_t prev_deadline = r.finish();
        // scripts that keep planning each other as "already due" would keep any scheduler busy
        // for ever: after 8 actions within one exec the callbacks stop acting
        Script sc = acted_in_exec >= 8 ? S_NOTHING : script[id];
        switch (sc)
        {
        case S_NOTHING:
            break;
        case S_UNPLAN_SELF:
            do_unplan(id);
            acted_in_exec++;
            break;
        case S_UNPLAN_OTHER:
            do_unplan(o);
            acted_in_exec++;
            break;
        case S_REPLAN_SELF:
            do_plan(id, now + script_a[id], script_b[id]);
            acted_in_exec++;
            break;
        case S_PLAN_OTHER_DUE:
            if (o != id)
            {
                // deadline already passed, but not before the one being served
                int64_t iv = script_b[id];
                int64_t deadline = std::max(prev_deadline, now - script_a[id]);
                do_plan(o, deadline - iv, iv);
                acted_in_exec++;
            }
            break;
        case S_PLAN_OTHER_LATER:
            if (o != id)
            {
                do_plan(o, now + 1 + script_a[id], script_b[id]);
                acted_in_exec++;
            }
            break;
        }
        // "a timer left planned by its callback is re-armed at the previous deadline plus its interval"
        // (with the values in force after the callback)
        if (ref[id].planned)
            ref[id].start += ref[id].interval;
    }

    void compare(const char *op)
    {
        bool any = false;
        int64_t minfin = 0;
        for (size_t k = 0; k < ref.size(); k++)
        {
            VP_CHECK(tim[k]->is_planned() == ref[k].planned, "timer_planned_flag", "%s: t%zu is_planned()=%d, reference %d", op, k,
                     (int)tim[k]->is_planned(), (int)ref[k].planned);
            if (ref[k].planned)
            {
                VP_CHECK(tim[k]->finish() == ref[k].finish(), "timer_deadline", "%s: t%zu deadline %lld, reference %lld (start %lld interval %lld)", op, k,
                         (long long)tim[k]->finish(), (long long)ref[k].finish(), (long long)ref[k].start, (long long)ref[k].interval);
                if (!any || ref[k].finish() < minfin)
                    minfin = ref[k].finish();
                any = true;
            }
        }
        VP_CHECK(mgr.empty() == !any, "timer_empty", "%s: empty()=%d, reference has %s planned timers", op, (int)mgr.empty(), any ? "some" : "no");
        if (any)
            VP_CHECK(mgr.minimal_interval(now) == minfin - now, "timer_minimal_interval", "%s: minimal_interval(%lld)=%lld, reference %lld", op,
                     (long long)now, (long long)mgr.minimal_interval(now), (long long)(minfin - now));
    }

    void do_exec(int64_t t)
    {
        now = t;
        in_exec = true;
        fired_in_exec = acted_in_exec = 0;
        earlier_planned_in_exec = false;
        mgr.exec(now);
        in_exec = false;
        if (!fail_sig.empty())
            VP_FAIL(fail_sig, "%s", fail_msg.c_str());
        for (size_t k = 0; k < ref.size(); k++)
            VP_CHECK(!ref[k].due(now), "timer_due_not_fired", "exec(%lld) returned although t%zu is planned with deadline %lld", (long long)now, k,
                     (long long)ref[k].finish());
        if (fired_in_exec >= 2 && acted_in_exec >= 1)
            nontrivial = true;
    }
};

void fire(int id) { g_world->on_fire(id); }

// every time quantity of the history is multiplied by this (timer_manager_big: deadlines and elapsed times beyond 32 bits)
static int64_t g_tm_scale = 1;
void t_timer_manager(Src &s, Case &c)
{
    int n = (int)s.range(1, kMaxTimers);
    World *w = new World(c, n); // leaked on failure (its list may be corrupt)
    g_world = w;
    int nops = (int)(s.coin() ? s.range(0, 15) : s.range(0, 80));
    c.log("timers=%d: ", n);
    int64_t now = (int64_t)s.range(0, 1000);
    const int64_t K = g_tm_scale; // 1, or 2^28 / 2^31 / 2^33 in the timer_manager_big target (every time quantity scaled)
    if (K > 1)
        now = (int64_t)s.pick<int64_t>({0, 2147483147LL, 4294966796LL, 1LL << 40}) + now;
    w->now = now;
    for (int k = 0; k < nops; k++)
    {
        int op = (int)s.weighted({4, 1, 2, 4, 2});
        int id = (int)s.below((uint64_t)n);
        switch (op)
        {
        case 0: // plan(t, start, interval): deliberately few distinct intervals so deadlines collide
        {
            int64_t interval = K * (int64_t)s.pick({1, 2, 5, 10, 10, 50, 7});
            int64_t start = now - K * (int64_t)s.pick({0, 0, 1, 5, 9, 10, 11, 100}) + K * (int64_t)s.pick({0, 0, 0, 10, 20});
            c.log("plan(t%d,start=%lld,int=%lld) ", id, (long long)start, (long long)interval);
            w->do_plan(id, start, interval);
            break;
        }
        case 1: // plan(t) with its current parameters (interval must be positive: planned at least once before)
        {
            if (w->ref[id].interval <= 0)
                break;
            if ((k + id) % 2)
            {
                // the two-step restart: a new start time through the timer's own setter, then plan(t) — the queue position
                // and the deadline must follow the new start (the new start is a function of the position in the history)
                int64_t ns = now + K * (int64_t)(((k * 7) % 5 - 2) * 3);
                c.log("t%d.set_start(%lld)+plan(t%d) ", id, (long long)ns, id);
                w->tim[id]->set_start(ns);
                w->ref[id].start = ns;
            }
            else
                c.log("plan(t%d) ", id);
            w->mgr.plan(*w->tim[id]);
            w->ref[id].planned = true;
            break;
        }
        case 2:
            c.log("unplan(t%d) ", id);
            w->do_unplan(id);
            break;
        case 3: // exec with non-decreasing time
        {
            int64_t step;
            int64_t iv = w->ref[id].interval;
            switch (s.below(6))
            {
            case 0:
                step = 0;
                break;
            case 1:
                step = 1;
                break;
            case 2:
                step = iv - 1;
                break;
            case 3:
                step = iv;
                break;
            case 4:
                step = iv + 1;
                break;
            default:
                step = iv * (int64_t)s.range(2, 12) + (int64_t)s.below(3); // many periods ahead
            }
            if (step < 0)
                step = 0;
            now += step;
            c.log("exec(%lld) ", (long long)now);
            w->do_exec(now);
            break;
        }
        default: // give a timer a callback script
        {
            Script sc = (Script)s.below(6);
            w->script[id] = sc;
            w->script_other[id] = (int)s.below((uint64_t)n);
            w->script_a[id] = K * (int64_t)s.pick({0, 1, 5, 10});
            w->script_b[id] = K * (int64_t)s.pick({1, 3, 10, 10});
            c.log("script(t%d:%s,other=t%d,a=%lld,b=%lld) ", id, script_name[sc], w->script_other[id], (long long)w->script_a[id],
                  (long long)w->script_b[id]);
            break;
        }
        }
        w->compare("after op");
    }
    c.nontrivial = w->nontrivial;
    // unplan everything before the timers go away
    for (int i = 0; i < n; i++)
        w->tim[i]->unplan();
    delete w;
    g_world = nullptr;
}

// ------------------------------------------------------------------ stimer
// the stimer_big target: times, intervals and elapsed times beyond 2^31 and 2^32 (the API takes long)
static bool g_stimer_big = false;
static long big_interval(Src &s) { return (long)s.pick<int64_t>({1, 1000, 1000000000LL, 2147483647LL, 2147483648LL, 4294967296LL, 8589934593LL}); }

void t_stimer(Src &s, Case &c)
{
    stimer_head t;
    stimer_init(&t, 0, 1);
    bool planned = false;
    long start = 0, interval = 1, now = (long)s.range(0, 100);
    if (g_stimer_big)
        now = (long)s.pick<int64_t>({0, 2147483643LL, 4294967293LL, 1099511627776LL, 1LL << 60});
    int nops = (int)s.range(0, 30);
    int fired = 0;
    c.log("stimer: ");
    for (int k = 0; k < nops; k++)
    {
        switch (s.below(5))
        {
        case 0:
            start = now - (long)s.pick({0, 1, 5, 10});
            interval = (long)s.pick({1, 2, 10, 50});
            if (g_stimer_big)
                interval = big_interval(s);
            c.log("plan(%ld,%ld) ", start, interval);
            stimer_plan(&t, start, interval);
            planned = true;
            break;
        case 1:
            start = now;
            interval = (long)s.pick({1, 2, 10, 50});
            if (g_stimer_big)
                interval = big_interval(s);
            c.log("init(%ld,%ld) ", start, interval);
            stimer_init(&t, start, interval);
            planned = false;
            break;
        case 2:
            start = now + (long)s.below(3);
            c.log("start(%ld) ", start);
            stimer_start(&t, start);
            planned = true;
            break;
        case 3:
            now += (long)s.pick({0L, 1L, interval - 1, interval, interval + 1, interval * 3 + 1});
            if (g_stimer_big && s.coin())
                now += (long)s.pick<int64_t>({2147483647LL, 2147483648LL, 4294967295LL, 4294967296LL, 3500000000LL});
            c.log("t=%ld ", now);
            break;
        default:
        {
            // periodic use: one period is consumed per call while the timer is due
            c.log("periodic@%ld ", now);
            bool want = planned && now - start >= interval;
            bool got = false;
            STIMER_PERIODIC(&t, now) { got = true; }
            VP_CHECK(got == want, "stimer_periodic", "STIMER_PERIODIC at %ld: fired=%d, reference %d (start %ld interval %ld planned %d)", now, (int)got,
                     (int)want, start, interval, (int)planned);
            if (want)
            {
                start += interval;
                fired++;
            }
        }
        }
        bool want = planned && now - start >= interval;
        VP_CHECK((stimer_check(&t, now) != 0) == want, "stimer_check", "stimer_check(%ld)=%d, reference %d (start %ld interval %ld planned %d)", now,
                 stimer_check(&t, now), (int)want, start, interval, (int)planned);
        VP_CHECK((long)stimer_finish(&t) == start + interval, "stimer_finish", "stimer_finish=%ld, reference %ld", (long)stimer_finish(&t), start + interval);
    }
    c.nontrivial = fired >= 2;
}

// The manager instantiated with an unsigned clock (timer_spec<uint32_t>: a free-running 32-bit tick counter, the usual
// time base on a microcontroller). Starts are never later than the current time (with an unsigned difference a start in
// the future is indistinguishable from a long-elapsed one), callbacks only record.
struct UFire
{
    int id;
    uint32_t deadline;
};
static std::vector<UFire> g_ufired;
static std::vector<igris::timer_basic<igris::timer_spec<uint32_t>, int> *> *g_utims;
static void ufire(int id) { g_ufired.push_back(UFire{id, (uint32_t)(*g_utims)[(size_t)id]->finish()}); }
void t_timer_manager_u32(Src &s, Case &c)
{
    typedef igris::timer_spec<uint32_t> Spec;
    typedef igris::timer_basic<Spec, int> Tim;
    int n = (int)s.range(1, 4);
    auto *mgr = new igris::timer_manager_basic<Spec>; // leaked on failure
    auto *tims = new std::vector<Tim *>;
    g_utims = tims;
    struct R
    {
        bool planned = false;
        uint32_t start = 0, interval = 1;
    };
    std::vector<R> ref((size_t)n);
    for (int i = 0; i < n; i++)
        tims->push_back(new Tim(igris::make_delegate(ufire), (int)i));
    uint32_t now = (uint32_t)s.pick<uint32_t>({1000u, 0x7FFFFF00u, 0xFFFFF000u}); // also across 2^31 and the 2^32 wrap
    int nops = (int)s.range(1, 30);
    c.log("u32 clock, %d timers, t0=%u: ", n, now);
    bool fired_any = false;
    for (int k = 0; k < nops; k++)
    {
        int id = (int)s.below((uint64_t)n);
        switch (s.weighted({4, 2, 4}))
        {
        case 0:
        {
            uint32_t interval = (uint32_t)s.pick({1, 2, 5, 10, 50});
            uint32_t start = now - (uint32_t)s.pick({0, 0, 1, 5, 9, 30});
            c.log("plan(t%d,%u,%u) ", id, start, interval);
            mgr->plan(*(*tims)[(size_t)id], start, interval);
            ref[(size_t)id] = R{true, start, interval};
            break;
        }
        case 1:
            c.log("unplan(t%d) ", id);
            (*tims)[(size_t)id]->unplan();
            ref[(size_t)id].planned = false;
            break;
        default:
        {
            now += (uint32_t)s.pick({0, 1, 4, 10, 25, 120});
            c.log("exec(%u) ", now);
            g_ufired.clear();
            mgr->exec(now);
            // reference: while some planned timer is due, the one with the earliest deadline fires and is re-armed one period later
            std::vector<UFire> want;
            for (;;)
            {
                int best = -1;
                for (int i = 0; i < n; i++)
                    if (ref[(size_t)i].planned && now - ref[(size_t)i].start >= ref[(size_t)i].interval)
                        if (best < 0 || (uint32_t)(ref[(size_t)i].start + ref[(size_t)i].interval - now) + 0u < (uint32_t)(ref[(size_t)best].start + ref[(size_t)best].interval - now) + 0u ||
                            (int32_t)((ref[(size_t)i].start + ref[(size_t)i].interval) - (ref[(size_t)best].start + ref[(size_t)best].interval)) < 0)
                            best = i;
                if (best < 0)
                    break;
                want.push_back(UFire{best, ref[(size_t)best].start + ref[(size_t)best].interval});
                ref[(size_t)best].start += ref[(size_t)best].interval;
                if (want.size() > 100000)
                    break;
            }
            // compare as multisets of (timer, deadline) and demand non-decreasing deadlines (relative to now) in the real order
            auto key = [](const UFire &f) { return ((uint64_t)(uint32_t)f.id << 32) | f.deadline; };
            std::vector<uint64_t> a, b;
            for (auto &f : g_ufired)
                a.push_back(key(f));
            for (auto &f : want)
                b.push_back(key(f));
            std::sort(a.begin(), a.end());
            std::sort(b.begin(), b.end());
            VP_CHECK(a == b, "u32_timer_firings", "exec(%u) fired %zu callbacks, the reference scheduler %zu (a due timer was skipped, or one fired early or twice)", now,
                     g_ufired.size(), want.size());
            for (size_t i = 1; i < g_ufired.size(); i++)
                VP_CHECK((int32_t)(g_ufired[i].deadline - g_ufired[i - 1].deadline) >= 0, "u32_timer_order", "exec(%u): deadline %u served after deadline %u", now,
                         g_ufired[i].deadline, g_ufired[i - 1].deadline);
            if (g_ufired.size() >= 2)
                fired_any = true;
            break;
        }
        }
        for (int i = 0; i < n; i++)
        {
            Tim *t = (*tims)[(size_t)i];
            VP_CHECK(t->is_planned() == ref[(size_t)i].planned, "u32_timer_planned", "t%d is_planned()=%d, reference %d", i, (int)t->is_planned(), (int)ref[(size_t)i].planned);
            if (ref[(size_t)i].planned)
                VP_CHECK((uint32_t)t->finish() == ref[(size_t)i].start + ref[(size_t)i].interval, "u32_timer_deadline", "t%d deadline %u, reference %u", i, (uint32_t)t->finish(),
                         ref[(size_t)i].start + ref[(size_t)i].interval);
        }
    }
    c.nontrivial = fired_any;
    for (auto *t : *tims)
    {
        t->unplan();
        delete t;
    }
    delete tims;
    delete mgr;
    g_utims = nullptr;
}

// The manager with other signed time bases: an explicitly narrower difference type (timer_spec<int64_t,int32_t>: 64-bit
// milliseconds, 32-bit intervals) and an all-32-bit spec. Clock values on both sides of 2^31 for the 64-bit clock. Starts
// lie around the current time, intervals are small, callbacks only record.
struct SFire
{
    int id;
    int64_t deadline;
};
static std::vector<SFire> g_sfired;
static std::function<int64_t(int)> g_sfinish;
static void sfire(int id) { g_sfired.push_back(SFire{id, g_sfinish(id)}); }
template <class Spec> static void spec_history(Src &s, Case &c, const char *what, std::initializer_list<int64_t> bases)
{
    typedef typename Spec::time_t T;
    typedef typename Spec::difftime_t D;
    typedef igris::timer_basic<Spec, int> Tim;
    int n = (int)s.range(1, 4);
    auto *mgr = new igris::timer_manager_basic<Spec>; // leaked on failure
    auto *tims = new std::vector<Tim *>;
    g_sfinish = [tims](int id) { return (int64_t)(*tims)[(size_t)id]->finish(); };
    struct R
    {
        bool planned = false;
        int64_t start = 0, interval = 1;
    };
    std::vector<R> ref((size_t)n);
    for (int i = 0; i < n; i++)
        tims->push_back(new Tim(igris::make_delegate(sfire), (int)i));
    int64_t now = s.pick<int64_t>(bases);
    int nops = (int)s.range(1, 30);
    c.log("%s, %d timers, t0=%lld: ", what, n, (long long)now);
    bool fired_any = false;
    for (int k = 0; k < nops; k++)
    {
        int id = (int)s.below((uint64_t)n);
        switch (s.weighted({4, 2, 4, 1}))
        {
        case 0:
        {
            int64_t interval = (int64_t)s.pick({1, 2, 5, 10, 50});
            int64_t start = now + (int64_t)s.pick({0, 0, -1, -5, -9, -30, 3, 20});
            c.log("plan(t%d,%lld,%lld) ", id, (long long)start, (long long)interval);
            mgr->plan(*(*tims)[(size_t)id], (T)start, (D)interval);
            ref[(size_t)id] = R{true, start, interval};
            break;
        }
        case 1:
            c.log("unplan(t%d) ", id);
            (*tims)[(size_t)id]->unplan();
            ref[(size_t)id].planned = false;
            break;
        case 3:
        {
            // the two-step form: set_start / set_interval, then plan(tim)
            int64_t interval = (int64_t)s.pick({1, 3, 10, 40});
            int64_t start = now + (int64_t)s.pick({0, -2, -12, 7});
            c.log("set_start(t%d,%lld) set_interval(%lld) plan ", id, (long long)start, (long long)interval);
            (*tims)[(size_t)id]->set_start((T)start);
            (*tims)[(size_t)id]->set_interval((D)interval);
            mgr->plan(*(*tims)[(size_t)id]);
            ref[(size_t)id] = R{true, start, interval};
            break;
        }
        default:
        {
            now += (int64_t)s.pick({0, 1, 4, 10, 25, 120});
            c.log("exec(%lld) ", (long long)now);
            g_sfired.clear();
            mgr->exec((T)now);
            std::vector<SFire> want;
            for (;;)
            {
                int best = -1;
                for (int i = 0; i < n; i++)
                    if (ref[(size_t)i].planned && now - ref[(size_t)i].start >= ref[(size_t)i].interval)
                        if (best < 0 || ref[(size_t)i].start + ref[(size_t)i].interval < ref[(size_t)best].start + ref[(size_t)best].interval)
                            best = i;
                if (best < 0)
                    break;
                want.push_back(SFire{best, ref[(size_t)best].start + ref[(size_t)best].interval});
                ref[(size_t)best].start += ref[(size_t)best].interval;
                if (want.size() > 100000)
                    break;
            }
            auto key = [](const SFire &f) { return std::make_pair(f.id, f.deadline); };
            std::vector<std::pair<int, int64_t>> a, b;
            for (auto &f : g_sfired)
                a.push_back(key(f));
            for (auto &f : want)
                b.push_back(key(f));
            std::sort(a.begin(), a.end());
            std::sort(b.begin(), b.end());
            VP_CHECK(a == b, "spec_timer_firings", "%s: exec(%lld) fired %zu callbacks, the reference scheduler %zu (a due timer was skipped, or one fired early or twice)",
                     what, (long long)now, g_sfired.size(), want.size());
            for (size_t i = 1; i < g_sfired.size(); i++)
                VP_CHECK(g_sfired[i].deadline >= g_sfired[i - 1].deadline, "spec_timer_order", "%s: exec(%lld): deadline %lld served after deadline %lld", what,
                         (long long)now, (long long)g_sfired[i].deadline, (long long)g_sfired[i - 1].deadline);
            if (g_sfired.size() >= 2)
                fired_any = true;
            break;
        }
        }
        for (int i = 0; i < n; i++)
        {
            Tim *t = (*tims)[(size_t)i];
            VP_CHECK(t->is_planned() == ref[(size_t)i].planned, "spec_timer_planned", "%s: t%d is_planned()=%d, reference %d", what, i, (int)t->is_planned(),
                     (int)ref[(size_t)i].planned);
            if (ref[(size_t)i].planned)
                VP_CHECK((int64_t)t->finish() == ref[(size_t)i].start + ref[(size_t)i].interval, "spec_timer_deadline", "%s: t%d deadline %lld, reference %lld", what, i,
                         (long long)t->finish(), (long long)(ref[(size_t)i].start + ref[(size_t)i].interval));
        }
    }
    c.nontrivial = fired_any;
    for (auto *t : *tims)
    {
        t->unplan();
        delete t;
    }
    delete tims;
    delete mgr;
    g_sfinish = nullptr;
}
void t_timer_manager_specs(Src &s, Case &c)
{
    switch (s.below(3))
    {
    case 0:
        c.label("int64_time_int32_diff");
        spec_history<igris::timer_spec<int64_t, int32_t>>(s, c, "timer_spec<int64_t,int32_t>", {1000, 2147481000LL, 2147483648LL, 2160000000LL, 4294966000LL, 1LL << 40});
        break;
    case 1:
        c.label("int32_time");
        spec_history<igris::timer_spec<int32_t>>(s, c, "timer_spec<int32_t>", {1000, 1000000000LL, -1000, -2000000000LL});
        break;
    default:
        c.label("int64_time_int64_diff");
        spec_history<igris::timer_spec<int64_t, int64_t>>(s, c, "timer_spec<int64_t,int64_t>", {1000, 2147483000LL, 4294967000LL, 1LL << 40, -(1LL << 33)});
    }
}

// How the callback is bound (delegate.h) and what it is handed: a plain function, a function with a context pointer (null
// included), a member function; bound arguments of class type (a name) next to an int. Every firing must deliver the bound
// values, the 2nd and 10th firing as much as the first.
struct CbRec
{
    int kind;
    const void *ctx;
    std::string name;
    int num;
};
static std::vector<CbRec> g_cb;
static void cb_plain(std::string name, int num) { g_cb.push_back(CbRec{0, nullptr, name, num}); }
static void cb_ext(void *ctx, std::string name, int num) { g_cb.push_back(CbRec{1, ctx, name, num}); }
struct CbObj
{
    int tag;
    void fire(std::string name, int num) { g_cb.push_back(CbRec{2, this, name, num}); }
};
void t_timer_callbacks(Src &s, Case &c)
{
    typedef igris::timer<std::string, int> Tim;
    auto *mgr = new igris::timer_manager; // leaked on failure
    static int ctx_cell;
    CbObj *obj = new CbObj{7};
    int n = (int)s.range(1, 4);
    struct W
    {
        int kind;
        const void *ctx;
        std::string name;
        int num;
        int64_t interval;
    };
    std::vector<W> want;
    std::vector<Tim *> tims;
    for (int i = 0; i < n; i++)
    {
        int kind = (int)s.below(4);
        std::string name = s.coin() ? std::string("t") + std::to_string(i) : std::string(24 + (size_t)i, (char)('A' + i)); // short and heap-allocated names
        int num = (int)s.biased_int<int16_t>();
        int64_t interval = (int64_t)s.pick({1, 2, 5, 10});
        Tim *t;
        const void *ctx = nullptr;
        switch (kind)
        {
        case 0:
            t = new Tim(igris::make_delegate(cb_plain), std::string(name), int(num));
            break;
        case 1:
            ctx = &ctx_cell;
            t = new Tim(igris::make_delegate(cb_ext, (void *)&ctx_cell), std::string(name), int(num));
            break;
        case 2:
            t = new Tim(igris::make_delegate(cb_ext, (void *)nullptr), std::string(name), int(num)); // no context wanted
            kind = 1;
            break;
        default:
            ctx = obj;
            t = new Tim(igris::make_delegate(&CbObj::fire, obj), std::string(name), int(num));
            kind = 2;
        }
        tims.push_back(t);
        want.push_back(W{kind, ctx, name, num, interval});
        mgr->plan(*t, 0, interval);
        c.log("t%d: %s, args (\"%s\", %d), every %lld; ", i, kind == 0 ? "plain function" : kind == 2 ? "member function" : ctx ? "function+context" : "function+null context",
              name.c_str(), num, (long long)interval);
    }
    int64_t now = 0;
    size_t firings = 0;
    for (int k = 0, steps = (int)s.range(1, 8); k < steps; k++)
    {
        now += (int64_t)s.pick({1, 3, 10, 25});
        g_cb.clear();
        mgr->exec(now);
        c.log("exec(%lld): %zu firings; ", (long long)now, g_cb.size());
        for (auto &r : g_cb)
        {
            bool ok = false;
            for (auto &w : want)
                ok |= w.kind == r.kind && w.ctx == r.ctx && w.name == r.name && w.num == r.num;
            VP_CHECK(ok, "timer_callback_arguments", "exec(%lld): a callback of kind %d ran with context %p and arguments (\"%s\", %d), which no timer was given", (long long)now,
                     r.kind, r.ctx, r.name.c_str(), r.num);
        }
        firings += g_cb.size();
    }
    // total firings: every timer catches up one firing per elapsed period
    size_t total = 0;
    for (auto &w : want)
        total += (size_t)(now / w.interval);
    VP_CHECK(firings == total, "timer_callback_count", "%zu callbacks ran up to t=%lld, the periods that elapsed are %zu", firings, (long long)now, total);
    c.nontrivial = firings >= 2;
    for (auto *t : tims)
    {
        t->unplan();
        delete t;
    }
    delete mgr;
    delete obj;
}

void t_timer_manager_big(Src &s, Case &c)
{
    g_tm_scale = (int64_t)s.pick<int64_t>({1LL << 28, 1LL << 31, (1LL << 33) + 1});
    struct G
    {
        ~G() { g_tm_scale = 1; }
    } g;
    c.log("time scale %lld: ", (long long)g_tm_scale);
    t_timer_manager(s, c);
    c.label("big_times");
}
void t_stimer_big(Src &s, Case &c)
{
    struct G
    {
        G() { g_stimer_big = true; }
        ~G() { g_stimer_big = false; }
    } g;
    t_stimer(s, c);
    c.label("big_times");
}

} // namespace

VP_TARGET("timer_manager_u32", t_timer_manager_u32,
          "timer_manager_basic<timer_spec<uint32_t>> (unsigned 32-bit clock starting at 1000, just below 2^31 or just below the 2^32 wrap): plan with starts not later than now, "
          "unplan, exec with non-decreasing time; the (timer, deadline) firings of every exec equal those of a reference scheduler and come in deadline order; planned flags and "
          "deadlines after every operation; non-trivial = an exec fired at least two callbacks");
VP_TARGET("timer_callbacks", t_timer_callbacks,
          "igris::timer<std::string,int> bound to a plain function, a function with a context pointer (null included) or a member function, names short or heap-allocated: "
          "1..4 periodic timers, 1..8 exec calls; every callback receives exactly the context and arguments some timer was given (on every firing, catch-up firings included) "
          "and the number of firings equals the elapsed periods; non-trivial = at least two firings");
VP_TARGET("timer_manager_specs", t_timer_manager_specs,
          "timer_manager_basic over other signed time bases: timer_spec<int64_t,int32_t> (64-bit clock on both sides of 2^31 and 2^32, 32-bit intervals), timer_spec<int32_t>, "
          "timer_spec<int64_t,int64_t>: plan(tim,start,interval), set_start + set_interval + plan(tim), unplan, exec with non-decreasing time; firings against a reference "
          "scheduler, deadline order, planned flags and deadlines after every operation; non-trivial = an exec fired at least two callbacks");
VP_TARGET("timer_manager_big", t_timer_manager_big,
          "the timer_manager histories with every interval, start offset, script offset and time step multiplied by 2^28, 2^31 or 2^33+1 and the clock starting "
          "near 2^31, 2^32 or at 2^40 (deadlines and elapsed times that do not fit 32 bits); same reference scheduler and checks");
VP_TARGET("stimer_big", t_stimer_big,
          "the stimer history with start times up to 2^60, intervals from {1, 1000, 1e9, 2^31-1, 2^31, 2^32, 2^33+1} and time steps of 2^31-1 .. 2^32 and "
          "3.5e9 on top of the usual ones (elapsed times that do not fit 32 bits); same due rule; non-trivial = >= 2 periodic hits");
VP_TARGET("timer_manager", t_timer_manager,
          "histories (<= 80 ops) over <= 6 timers: plan(t,start,interval) with few distinct intervals (colliding deadlines), plan(t), "
          "unplan, exec(now) with non-decreasing time in steps {0,1,interval-1,interval,interval+1,many periods}, and per-timer "
          "callback scripts (nothing, unplan self/another, re-plan self, plan another timer due / not yet due); every callback "
          "invocation is validated against a reference scheduler (planned, due, earliest deadline, non-decreasing deadlines), after "
          "exec no planned timer may be due, and planned flags, deadlines (re-arming without drift), empty() and minimal_interval() "
          "must equal the reference after every operation; non-trivial = an exec fired >= 2 callbacks of which one acted on a timer");
VP_TARGET("stimer", t_stimer,
          "flag-style stimer: plan/init/start/time steps/STIMER_PERIODIC against the due rule planned && now-start >= interval, one "
          "period consumed per periodic hit; non-trivial = >= 2 periodic hits");
