// C20 — system lock, wait queues and safe_queue are correct under every thread
// schedule. Targets: sched (random programs x random schedules), sched_enum
// (small programs x every schedule with a bounded number of pre-emptions).
#include "C20_sched.h"
#include "C20_prog.h"
#include "vpbt.h"
#include <algorithm>
#include <igris/event/safe_queue.h>
#include <igris/osinter/wait.h>
#include <igris/sync/syslock.h>
#include <igris/syncxx/event.h>
#include <chrono>
#include <memory>

using namespace vpbt;
using namespace c20;

namespace
{


// per-thread bookkeeping for the oracle
struct TCtx
{
    OpKind cur = O_NONE;
    int q = 0, prio = 0;
    long val = 0;
    bool enqueued = false;
    int removed = 0;
    // as a waiter:
    bool woken = false;
    long expected_future = 0;
    int depth = 0; // system lock nesting of this thread (harness view)
    std::vector<int> lock_style;                 // how each level was taken (0 system_lock, 1 igris::syslock, 2 igris::syslock_guard)
    std::vector<igris::syslock_guard *> guards;  // live guard objects, innermost last
};

struct World
{
    igris::dlist_base *queue[kQueues];
    igris::safe_queue<long> *sq;
    igris::event *ev[kEvents];
    void *delegates = nullptr; // std::vector<DelegateWaiter *>: the delegate waiters currently parked
    std::vector<TCtx> ctx;
    std::vector<std::vector<igris::dlist_node *>> model; // per queue: nodes in order
    std::map<igris::dlist_node *, int> owner;             // waiter node -> thread
    int cs_owner = -1;
    std::vector<long> pushed, popped;
    int preempt_points = 0;
};
World *W;

igris::dlist_node *head_of(igris::dlist_base *q) { return (igris::dlist_node *)q; } // its only member, at offset 0

void latch(const char *sig, const std::string &msg) { sched::S().latch(sig, msg); }

std::vector<igris::dlist_node *> snapshot(igris::dlist_base *q)
{
    std::vector<igris::dlist_node *> v;
    igris::dlist_node *h = head_of(q);
    for (igris::dlist_node *n = h->next; n != h && v.size() < 32; n = n->next)
        v.push_back(n);
    return v;
}

// Called at every scheduling point for the thread that ran since the previous one: the wait
// queues may only change by the running thread's own enqueue / by its unwait taking the front.
void observe(int runner)
{
    World &w = *W;
    if (runner < 0 || runner >= (int)w.ctx.size())
        return;
    TCtx &r = w.ctx[runner];
    for (int qi = 0; qi < kQueues; qi++)
    {
        std::vector<igris::dlist_node *> now = snapshot(w.queue[qi]);
        std::vector<igris::dlist_node *> &m = w.model[qi];
        if (now == m)
            continue;
        if ((r.cur == O_WAIT || r.cur == O_DWAIT) && !r.enqueued && r.q == qi && now.size() == m.size() + 1)
        {
            std::vector<igris::dlist_node *> expect = m;
            igris::dlist_node *fresh = r.prio ? now.front() : now.back();
            if (r.prio)
                expect.insert(expect.begin(), fresh);
            else
                expect.push_back(fresh);
            if (expect == now && !w.owner.count(fresh))
            {
                w.owner[fresh] = runner;
                r.enqueued = true;
                m = now;
                continue;
            }
        }
        if ((r.cur == O_UNWAIT_ONE || r.cur == O_UNWAIT_ALL) && r.q == qi && now.size() + 1 == m.size() &&
            std::equal(now.begin(), now.end(), m.begin() + 1))
        {
            if (r.cur == O_UNWAIT_ONE && r.removed >= 1)
                latch("unwait_one_removed_two", fmt("T%d: one unwait_one call removed a second waiter", runner));
            igris::dlist_node *gone = m.front();
            int wt = w.owner.count(gone) ? w.owner[gone] : -1;
            if (wt >= 0)
            {
                w.ctx[wt].woken = true;
                w.ctx[wt].expected_future = wide_future(r.val);
                w.owner.erase(gone);
            }
            r.removed++;
            m = now;
            continue;
        }
        latch("wait_queue_changed_illegally",
              fmt("after a step of T%d (%s) wait queue q%d went from %zu to %zu entries in a way that is neither its own enqueue nor an unwait "
                  "taking the front",
                  runner, op_str(Op{r.cur, r.q, r.prio, r.val}).c_str(), qi, m.size(), now.size()));
        m = now;
    }
}

void yield_point()
{
    if (!sched::tl_self)
        return;
    sched::tl_self->state = sched::T_RUNNABLE;
    sched::yield_now();
}

// A waiter of the caller's own making (wait.h: waiter_delegate_init): the handler must be called with the object that was
// registered, which is not at the waiter's address.
struct DelegateWaiter
{
    long pad[3] = {1, 2, 3};
    waiter w;
    igris::event ev;
    long magic = 0x5EEDF00D;
};
void delegate_wait_handler(void *arg)
{
    DelegateWaiter *d = (DelegateWaiter *)arg;
    DelegateWaiter **reg = nullptr;
    (void)reg;
    if (!W)
        return;
    bool known = false;
    for (auto *k : *(std::vector<DelegateWaiter *> *)W->delegates)
        known |= k == d;
    if (!known)
    {
        latch("waiter_handler_wrong_object", "the wake handler of a delegate waiter was called with a pointer that is not the object registered with waiter_delegate_init");
        // wake the registered waiters all the same so that the run can end
        for (auto *k : *(std::vector<DelegateWaiter *> *)W->delegates)
            k->ev.signal();
        return;
    }
    d->ev.signal();
}

void run_op(int tid, const Op &o)
{
    World &w = *W;
    TCtx &c = w.ctx[tid];
    c.cur = o.k;
    c.q = o.q;
    c.prio = o.prio;
    c.val = o.val;
    c.enqueued = false;
    c.removed = 0;
    switch (o.k)
    {
    case O_LOCK:
        if (o.prio == 2)
            c.guards.push_back(new igris::syslock_guard);
        else if (o.prio == 1)
            igris::syslock().lock();
        else
            system_lock();
        c.lock_style.push_back(o.prio);
        if (w.cs_owner != -1 && w.cs_owner != tid)
            latch("system_lock_two_owners", fmt("T%d entered the system lock while T%d is inside (nesting depth %d)", tid, w.cs_owner, w.ctx[w.cs_owner].depth));
        w.cs_owner = tid;
        c.depth++;
        if (syslock_counter() != c.depth)
            latch("system_lock_counter", fmt("T%d: syslock_counter()=%d after %d nested acquisitions", tid, syslock_counter(), c.depth));
        break;
    case O_UNLOCK:
        if (c.depth == 0)
            break;
        c.depth--;
        if (c.depth == 0)
            w.cs_owner = -1;
        {
            int style = c.lock_style.empty() ? 0 : c.lock_style.back();
            if (!c.lock_style.empty())
                c.lock_style.pop_back();
            if (style == 2 && !c.guards.empty())
            {
                igris::syslock_guard *g = c.guards.back();
                c.guards.pop_back();
                delete g;
            }
            else if (style == 1)
                igris::syslock().unlock();
            else
                system_unlock();
        }
        if (syslock_counter() != c.depth)
            latch("system_lock_counter", fmt("T%d: syslock_counter()=%d after leaving down to a nesting depth of %d", tid, syslock_counter(), c.depth));
        break;
    case O_SAVE_RESTORE:
    {
        if (c.depth == 0)
            break;
        int d = c.depth;
        w.cs_owner = -1; // fully released while saved
        struct syslock_save_pair sv = system_lock_save();
        yield_point();
        system_lock_restore(sv);
        if (w.cs_owner != -1 && w.cs_owner != tid)
            latch("system_lock_two_owners", fmt("T%d got the system lock back (restore) while T%d is inside", tid, w.cs_owner));
        w.cs_owner = tid;
        if (syslock_counter() != d)
            latch("system_lock_counter", fmt("T%d: syslock_counter()=%d after restoring a nesting depth of %d", tid, syslock_counter(), d));
        break;
    }
    case O_WAIT:
    {
        if (c.depth != 0) // parking while holding the system lock is a caller error (it would never be released)
            break;
        c.woken = false;
        void *fut = nullptr;
        wait_current_schedee(w.queue[o.q], o.prio, &fut);
        if (!c.woken)
            latch("spurious_wakeup", fmt("T%d returned from wait_current_schedee(q%d) although no unwait removed it from the queue", tid, o.q));
        else if ((long)(intptr_t)fut != c.expected_future)
            latch("wrong_future", fmt("T%d woke with future %ld, the unwait that removed it passed %ld", tid, (long)(intptr_t)fut, c.expected_future));
        break;
    }
    case O_UNWAIT_ONE:
        unwait_one(w.queue[o.q], (intptr_t)wide_future(o.val));
        break;
    case O_UNWAIT_ALL:
        unwait_all(w.queue[o.q], (intptr_t)wide_future(o.val));
        break;
    case O_PUSH:
        w.sq->push(o.val);
        w.pushed.push_back(o.val);
        break;
    case O_TRYPOP:
        if (w.sq->size() > 0)
            w.popped.push_back(w.sq->pop());
        break;
    case O_YIELD:
        yield_point();
        break;
    case O_EV_WAIT:
        if (c.depth != 0) // as for O_WAIT
            break;
        if (o.prio)
        {
            // time does not pass in the model: the only way out of a timed wait is the signal
            bool got = w.ev[o.q]->wait(std::chrono::hours(1));
            if (!got)
                latch("event_timed_wait_false", fmt("T%d: event%d.wait(1 h) returned false", tid, o.q));
        }
        else
            w.ev[o.q]->wait();
        if (!w.ev[o.q]->isset())
            latch("event_wait_returned_unsignalled", fmt("T%d returned from event%d.wait although the event was never signalled", tid, o.q));
        break;
    case O_EV_SIGNAL:
        w.ev[o.q]->signal();
        break;
    case O_DWAIT:
    {
        if (c.depth != 0)
            break;
        c.woken = false;
        DelegateWaiter d;
        waiter_delegate_init(&d.w, delegate_wait_handler, &d);
        auto *reg = (std::vector<DelegateWaiter *> *)w.delegates;
        system_lock();
        reg->push_back(&d);
        w.queue[o.q]->move_back(d.w.lnk);
        system_unlock();
        d.ev.wait();
        system_lock();
        reg->erase(std::find(reg->begin(), reg->end(), &d));
        system_unlock();
        if (!c.woken)
            latch("spurious_wakeup", fmt("T%d: its delegate waiter on q%d was signalled although no unwait removed it from the queue", tid, o.q));
        else if ((long)d.w.future != c.expected_future)
            latch("wrong_future", fmt("T%d's delegate waiter got future %ld, the unwait that removed it passed %ld", tid, (long)d.w.future, c.expected_future));
        break;
    }
    default:
        break;
    }
    c.cur = O_NONE;
}

struct ExecResult
{
    std::string sig, msg;
    std::vector<sched::Decision> trace;
    int preemptions = 0;
};

// One execution of a program under a schedule (prefix of forced choices, then `fallback`).
ExecResult execute(const Program &prog, const std::vector<int> &prefix, std::function<int(int, bool)> fallback, int preemption_bound,
                   int spurious_bound)
{
    sched::reset();
    sched::Scheduler &s = sched::S();
    s.spurious_bound = spurious_bound;
    World w;
    W = &w;
    for (int i = 0; i < kQueues; i++)
        w.queue[i] = new igris::dlist_base;
    {
        long qinit = -1;
        for (auto &th : prog)
            for (auto &o : th)
                if (o.k == O_QINIT)
                    qinit = o.val;
        // items 901.. belong to a producer of their own
        switch (qinit)
        {
        case -1:
            w.sq = new igris::safe_queue<long>;
            break;
        case 0:
            w.sq = new igris::safe_queue<long>(std::initializer_list<long>{});
            break;
        case 1:
            w.sq = new igris::safe_queue<long>{901};
            break;
        case 2:
            w.sq = new igris::safe_queue<long>{901, 902};
            break;
        case 3:
            w.sq = new igris::safe_queue<long>{901, 902, 903};
            break;
        default:
            w.sq = new igris::safe_queue<long>{901, 902, 903, 904};
            qinit = 4;
        }
        for (long k = 0; k < qinit; k++)
            w.pushed.push_back(901 + k);
    }
    for (int i = 0; i < kEvents; i++)
        w.ev[i] = new igris::event;
    std::vector<DelegateWaiter *> delegates;
    w.delegates = &delegates;
    w.model.assign(kQueues, {});
    w.ctx.assign(prog.size() + 64, TCtx{}); // + clean-up threads
    s.prefix = prefix;
    s.fallback = fallback;
    s.preemption_bound = preemption_bound;
    s.observer = observe;
    for (size_t t = 0; t < prog.size(); t++)
    {
        const std::vector<Op> *ops = &prog[t];
        int tid = (int)t;
        sched::add_thread([ops, tid]() {
            for (const Op &o : *ops)
                run_op(tid, o);
            // leave the system lock if the program did not
            while (W->ctx[tid].depth > 0)
                run_op(tid, Op{O_UNLOCK});
        });
    }
    bool done = sched::run_until_quiescent();
    // Threads may be parked. Waiters that nobody woke are legal: wake everything that is still
    // queued (as often as there is something queued) and see whether all threads then finish —
    // what remains parked with empty queues is a lost wake-up or a deadlock.
    for (int round = 0; !done && !s.step_limit_hit && round < 60; round++)
    {
        bool queued = false;
        for (int q = 0; q < kQueues; q++)
            if (!w.queue[q]->empty())
                queued = true;
        // a thread parked on an event nobody has signalled yet is legal as well; one parked on a signalled event is not
        bool ev_pending = false;
        for (size_t t = 0; t < prog.size(); t++)
            if (w.ctx[t].cur == O_EV_WAIT && !w.ev[w.ctx[t].q]->isset())
                ev_pending = true;
        if (!queued && !ev_pending)
            break;
        int ct = (int)s.threads.size();
        sched::add_thread([ct, ev_pending]() {
            for (int q = 0; q < kQueues; q++)
                run_op(ct, Op{O_UNWAIT_ALL, q, 0, -1});
            if (ev_pending)
                for (int e = 0; e < kEvents; e++)
                    run_op(ct, Op{O_EV_SIGNAL, e, 0, 0});
        });
        done = sched::run_until_quiescent();
    }
    ExecResult r;
    r.trace = s.trace;
    r.preemptions = s.preemptions;
    if (s.step_limit_hit)
        s.latch("schedule_step_limit", "the threads were still taking steps after " + std::to_string(s.step_limit) + " scheduling points (live-lock)");
    if (!done && s.violation_sig.empty())
        s.latch("deadlock_or_lost_wakeup", "no thread can run but these have not finished: " + sched::describe_blocked());
    if (s.violation_sig.empty())
    {
        sched::join_finished();
        // drain what the consumers left and compare: nothing lost, duplicated or reordered
        while (w.sq->size() > 0)
            w.popped.push_back(w.sq->pop());
        std::vector<long> a = w.pushed, b = w.popped;
        std::sort(a.begin(), a.end());
        std::sort(b.begin(), b.end());
        if (a != b)
            s.latch("safe_queue_multiset", fmt("pushed %zu items, popped %zu: the multisets differ", a.size(), b.size()));
        std::map<long, long> last; // per producer (value / 100): pops must be in push order
        for (long v : w.popped)
        {
            long p = v / 100;
            if (last.count(p) && last[p] > v)
                s.latch("safe_queue_order", fmt("items of producer %ld came out as %ld after %ld", p, v, last[p]));
            last[p] = v;
        }
        for (int i = 0; i < kQueues; i++)
            if (!w.queue[i]->empty())
                s.latch("wait_queue_not_empty", fmt("q%d still has entries after every thread finished", i));
        // the queue's semaphore is its lock: never two threads between its wait and its post
        for (auto &kv : s.sems)
            if ((const char *)kv.first >= (const char *)w.sq && (const char *)kv.first < (const char *)w.sq + sizeof *w.sq && kv.second.max_inside > 1)
                s.latch("safe_queue_two_threads_inside", fmt("%d threads were inside safe_queue operations at the same time (its semaphore let them all in)", kv.second.max_inside));
    }
    r.sig = s.violation_sig;
    r.msg = s.violation_msg;
    if (r.sig.empty())
    {
        for (int i = 0; i < kQueues; i++)
            delete w.queue[i];
        delete w.sq;
        for (int i = 0; i < kEvents; i++)
            delete w.ev[i];
    }
    W = nullptr;
    return r;
}

std::string trace_str(const std::vector<sched::Decision> &t)
{
    std::string s;
    for (auto &d : t)
        s += fmt("%d/%d ", d.chosen, d.options);
    return s;
}

// ------------------------------------------------------------------ random target
void t_sched(Src &s, Case &c)
{
    Program p = gen_program(s);
    c.log("program: %s", program_str(p).c_str());
    // schedule: at each point with a choice, mostly continue the running thread (few pre-emptions
    // at random depths), otherwise pick by the next choice byte
    Src *src = &s;
    auto fallback = [src](int nopts, bool can_continue) -> int {
        if (can_continue && src->below(4) != 0)
            return 0;
        return (int)src->below((uint64_t)nopts);
    };
    int spurious = (int)src->below(3); // up to two spurious condition-variable wake-ups in this execution
    ExecResult r = execute(p, {}, fallback, INT_MAX, spurious);
    c.log(" schedule: %s(%d pre-emptions)", trace_str(r.trace).c_str(), r.preemptions);
    // non-trivial: >= 2 threads operate on the same object and the schedule pre-empted between them
    bool shared = false;
    {
        int users[4] = {0, 0, 0, 0}; // q0, q1, syslock, safe_queue
        for (auto &th : p)
        {
            bool u[4] = {false, false, false, false};
            for (auto &o : th)
            {
                if (o.k == O_WAIT || o.k == O_UNWAIT_ONE || o.k == O_UNWAIT_ALL)
                    u[o.q] = true;
                if (o.k == O_LOCK)
                    u[2] = true;
                if (o.k == O_PUSH || o.k == O_TRYPOP)
                    u[3] = true;
            }
            for (int i = 0; i < 4; i++)
                users[i] += u[i];
        }
        for (int i = 0; i < 4; i++)
            if (users[i] >= 2)
                shared = true;
    }
    c.nontrivial = shared && r.preemptions >= 1;
    c.label(p.size() == 2 ? "threads_2" : p.size() == 3 ? "threads_3" : "threads_4");
    if (r.preemptions >= 3)
        c.label("preemptions>=3");
    VP_CHECK(r.sig.empty(), r.sig, "%s", r.msg.c_str());
}

// -------------------------------------------------------------- the timed wait of igris::event
// Single-threaded facts about event::wait(duration): a signalled event is reported as such whatever the timeout
// (negative ones — a deadline that has already passed — included), an unsignalled one times out.
void t_event_timed(Src &s, Case &c)
{
    igris::event ev;
    bool sig = s.below(4) != 0;
    long ms = (long)s.pick({-1000, -1, 0, 1, 3});
    c.log("event %s, wait(%ld ms)", sig ? "signalled" : "not signalled", ms);
    c.nontrivial = sig && ms <= 0;
    if (sig)
        ev.signal();
    bool r = ev.wait(std::chrono::milliseconds(ms));
    VP_CHECK(r == sig, "event_timed_wait", "wait(%ld ms) on a%s event returned %d", ms, sig ? " signalled" : "n unsignalled", (int)r);
    if (sig)
    {
        // still signalled (wait does not consume the flag): an untimed wait returns at once
        ev.wait();
    }
}

// ------------------------------------------------------------------ event programs
void t_sched_events(Src &s, Case &c)
{
    Program p = gen_event_program(s);
    c.log("program: %s", program_str(p).c_str());
    Src *src = &s;
    auto fallback = [src](int nopts, bool can_continue) -> int {
        if (can_continue && src->below(4) != 0)
            return 0;
        return (int)src->below((uint64_t)nopts);
    };
    int spurious = (int)src->below(3);
    ExecResult r = execute(p, {}, fallback, INT_MAX, spurious);
    c.log(" schedule: %s(%d pre-emptions)", trace_str(r.trace).c_str(), r.preemptions);
    int waiters = 0, timed = 0, signallers = 0, qusers = 0;
    for (auto &th : p)
    {
        bool wv = false, sg = false, qu = false;
        for (auto &o : th)
        {
            if (o.k == O_EV_WAIT)
                wv = true, timed += o.prio;
            if (o.k == O_EV_SIGNAL)
                sg = true;
            if (o.k == O_PUSH || o.k == O_TRYPOP)
                qu = true;
        }
        waiters += wv, signallers += sg, qusers += qu;
    }
    c.nontrivial = ((waiters >= 1 && signallers >= 1) || qusers >= 2) && r.preemptions >= 1;
    if (timed)
        c.label("timed_wait");
    if (qusers >= 2)
        c.label("queue_shared");
    for (auto &o : p[0])
        if (o.k == O_QINIT)
            c.label(o.val >= 2 ? "queue_starts_with>=2" : o.val == 1 ? "queue_starts_with_1" : "queue_starts_empty");
    VP_CHECK(r.sig.empty(), r.sig, "%s", r.msg.c_str());
}

// -------------------------------------------------------------- exhaustive target
std::vector<Program> small_programs()
{
    auto wait = [](int q, int prio = 0) { return Op{O_WAIT, q, prio, 0}; };
    auto one = [](int q, long v) { return Op{O_UNWAIT_ONE, q, 0, v}; };
    auto all = [](int q, long v) { return Op{O_UNWAIT_ALL, q, 0, v}; };
    Op lock{O_LOCK}, unlock{O_UNLOCK}, sr{O_SAVE_RESTORE}, yld{O_YIELD}, pop{O_TRYPOP};
    auto push = [](long v) { return Op{O_PUSH, 0, 0, v}; };
    return {
        {{wait(0)}, {one(0, 7)}},
        {{wait(0)}, {all(0, 5)}},
        {{wait(0), wait(0)}, {one(0, 1), one(0, 2)}},
        {{wait(0)}, {wait(0, 1)}, {one(0, 3), one(0, 4)}},
        {{wait(0)}, {one(0, 1)}, {one(0, 2)}},
        {{wait(0)}, {wait(1)}, {all(1, 8), all(0, 9)}},
        {{lock, yld, unlock}, {lock, yld, unlock}},
        {{lock, lock, unlock, unlock}, {lock, unlock}},
        {{lock, sr, unlock}, {lock, yld, unlock}},
        {{lock, lock, sr, unlock, unlock}, {lock, unlock}, {lock, unlock}},
        {{lock, one(0, 6), unlock}, {wait(0)}},
        {{pop, pop}, {push(101), push(102)}},
        {{pop, push(1), pop}, {push(101)}, {push(201)}},
        {{wait(0), push(1)}, {push(101), one(0, 2)}},
        {{wait(0)}, {lock, all(0, 4), sr, unlock}},
        {{wait(0), wait(1)}, {one(1, 1), one(0, 2)}},
        // the C++ entry points: nested igris::syslock_guard objects and igris::syslock against a plain locker
        {{Op{O_LOCK, 0, 2, 0}, Op{O_LOCK, 0, 2, 0}, unlock, yld, unlock}, {lock, unlock}},
        {{Op{O_LOCK, 0, 1, 0}, Op{O_LOCK, 0, 2, 0}, unlock, unlock}, {Op{O_LOCK, 0, 2, 0}, yld, unlock}},
        // igris::event: untimed and timed waiters against one signaller; a queue that starts with two items
        {{Op{O_EV_WAIT, 0, 0, 0}}, {Op{O_EV_SIGNAL, 0, 0, 0}}},
        {{Op{O_EV_WAIT, 0, 1, 0}}, {Op{O_EV_SIGNAL, 0, 0, 0}}},
        {{Op{O_EV_WAIT, 0, 1, 0}}, {Op{O_EV_WAIT, 0, 0, 0}}, {yld, Op{O_EV_SIGNAL, 0, 0, 0}}},
        {{Op{O_QINIT, 0, 0, 2}, pop, pop}, {push(101), push(102)}, {push(201)}},
    };
}
unsigned __int128 enum_size(int) { return small_programs().size(); }
void t_sched_enum(Src &s, Case &c)
{
    std::vector<Program> progs = small_programs();
    size_t pi = (size_t)s.below(progs.size());
    const Program &p = progs[pi];
    // the pre-emption bound depends on the size of the schedule tree: programs with three
    // threads of which two park have by far the largest one
    int nwait_threads = 0;
    for (auto &th : p)
        for (auto &o : th)
            if (o.k == O_WAIT)
            {
                nwait_threads++;
                break;
            }
    bool big = p.size() >= 3 && nwait_threads >= 2;
    int bound = big ? (tier() ? 2 : 1) : (tier() ? 4 : 3);
    c.log("program #%zu: %s; every schedule with <= %d pre-emptions and <= 1 spurious condition-variable wake-up: ", pi, program_str(p).c_str(), bound);
    c.nontrivial = true;
    // stateless depth-first search over the schedule tree
    std::vector<int> prefix;
    long execs = 0;
    for (;;)
    {
        ExecResult r = execute(p, prefix, nullptr, bound, 1);
        execs++;
        if (!r.sig.empty())
        {
            c.log("FAILED after %ld executions at schedule %s", execs, trace_str(r.trace).c_str());
            VP_FAIL(r.sig, "%s [schedule %s]", r.msg.c_str(), trace_str(r.trace).c_str());
        }
        // next schedule: deepest decision that still has an untried alternative
        int i = (int)r.trace.size() - 1;
        while (i >= 0 && r.trace[(size_t)i].chosen + 1 >= r.trace[(size_t)i].options)
            i--;
        if (i < 0)
            break;
        prefix.clear();
        for (int k = 0; k < i; k++)
            prefix.push_back(r.trace[(size_t)k].chosen);
        prefix.push_back(r.trace[(size_t)i].chosen + 1);
        if (execs > 2000000)
        {
            c.log("(stopped after %ld executions) ", execs);
            break;
        }
    }
    c.log("%ld executions", execs);
    fprintf(stderr, "sched_enum program #%zu: %ld executions\n", pi, execs);
    c.work = (uint64_t)execs;
}

} // namespace

VP_TARGET("sched", t_sched,
          "random programs (2-4 threads x <= 6 operations from system_lock/unlock nested to depth 3, system_lock_save/restore, "
          "wait_current_schedee with and without priority, unwait_one, unwait_all, safe_queue push, size()+pop() by a single "
          "consumer, yields) under a random schedule chosen at every synchronisation operation by a controlled scheduler (few "
          "pre-emptions at random depths); oracle = one owner of the system lock at a time incl. across save/restore, wait "
          "queues change only by the caller's enqueue (back, or front with priority) and by an unwait taking the front, a "
          "waiter returns iff an unwait removed it and with that call's future, unwait_one removes at most one, nothing is "
          "notified after its owner destroyed it, every thread finishes once everything still queued is woken (no lost wake-up / "
          "deadlock), safe_queue pops = pushes with per-producer order; non-trivial = >= 2 threads use the same object and >= 1 pre-emption");
VP_TARGET("sched_events", t_sched_events,
          "random programs of 2-4 threads x <= 5 operations over two igris::event objects (wait(), wait(1 h), signal()), a safe_queue built from an initializer list of 0..4 items "
          "(push, size()+pop() by one consumer) and the system lock, under the controlled scheduler (time does not pass: a timed wait ends only by the signal): a waiter "
          "returns only from a signalled event, wait(duration) returns true, every thread finishes once the events still waited for are signalled (a waiter left parked on a "
          "signalled event = lost wake-up), never two threads inside safe_queue operations at once, pops = initial items + pushes with per-producer order; non-trivial = a "
          "waiter and a signaller (or two queue users) and >= 1 pre-emption");
VP_TARGET("event_timed", t_event_timed,
          "igris::event::wait(duration), single-threaded: a signalled event reports true for timeouts -1000, -1, 0, 1, 3 ms, an unsignalled one false; non-trivial = signalled with a "
          "timeout <= 0");
VP_TARGET("sched_enum", t_sched_enum,
          "16 small programs (2-3 threads x <= 5 operations) x EVERY schedule with <= 3 (quick) / <= 4 (thorough) pre-emptions (1 / 2 for the two programs with three threads of which two park) and <= 1 spurious condition-variable wake-up, by "
          "stateless depth-first search over the scheduler's decision tree; one case = one program, its executions are counted as "
          "work units",
          enum_size);
