// C02 — igris::vector (primary header) and flat_map/flat_set over the host std::vector.
#include "C02_common.h"
#include <functional>
#include "C02_flat.h"
#include <igris/container/flat_map.h>
#include <igris/container/flat_set.h>
#include <igris/container/vector.h>

using namespace vpbt;

static void vector_int(Src &s, Case &c) { c02::vec_target<igris::vector<int>, int>(s, c, "igris::vector<int>"); }
static void vector_tracked(Src &s, Case &c) { c02::vec_target<igris::vector<trk::Tracked>, trk::Tracked>(s, c, "igris::vector<Tracked>"); }
static void flat_hosted(Src &s, Case &c)
{
    switch (s.below(3))
    {
    case 0:
        c02flat::flat_target<igris::flat_map<int, int>, igris::flat_set<int>, int, int>(s, c, "flat_map<int,int>/flat_set<int> (host vector)");
        break;
    case 1:
        c02flat::flat_target<igris::flat_map<std::string, int>, igris::flat_set<std::string>, std::string, int>(
            s, c, "flat_map<string,int>/flat_set<string> (host vector)");
        break;
    default:
        c02flat::flat_target<igris::flat_map<int, std::string>, igris::flat_set<int>, int, std::string>(s, c,
                                                                                                      "flat_map<int,string>/flat_set<int> (host vector)");
    }
}

static void flat_hosted_cmp(Src &s, Case &c)
{
    if (s.coin())
        c02flat::flat_target<igris::flat_map<int, int, std::greater<int>>, igris::flat_set<int, std::greater<int>>, int, int, std::greater<int>>(
            s, c, "flat_map<int,int,greater>/flat_set<int,greater> (host vector)");
    else
        c02flat::flat_target<igris::flat_map<std::string, int, std::greater<std::string>>, igris::flat_set<std::string, c02flat::NoCase>, std::string, int,
                             std::greater<std::string>, c02flat::NoCase>(s, c, "flat_map<string,int,greater>/flat_set<string,NoCase> (host vector)");
}

#define VEC_RULE                                                                                                                        \
    "history of <= 50 operations over 3 vectors: push/emplace_back, insert/emplace at every position, range insert from another "     \
    "container, erase(pos), erase(range), pop_back, resize, reserve, clear, insert_sorted, copy/move construction and assignment "   \
    "(self included), initializer-list / iterator-range / count construction, == != <, at() in and out of range; reference = "       \
    "std::vector driven in lock step (size, capacity >= size, element sequence, comparison results, exceptions); non-trivial = a "    \
    "reallocation happened and an insert/erase hit strictly inside a vector of >= 2 elements"
VP_TARGET("vector_int", vector_int, "igris::vector<int>: " VEC_RULE);
static void vector_cmp(Src &s, Case &c) { c02::cmp_target<igris::vector<double>, igris::vector<c02::KeyTag>>(s, c, "igris::vector"); }
VP_TARGET("vector_cmp", vector_cmp,
          "== / != / < of two igris::vector<double> over {0.0, -0.0, NaN, 1.0, 2.5, -1.0} (mostly equal up to the sign of zero) and of two vectors of a trivially "
          "copyable record whose operator== compares one field only, against std::vector; non-trivial = same length with a NaN / negative zero, or records equal by key");
static void vector_nested(Src &s, Case &c)
{
    c02::vec_target<igris::vector<c02::Nest<igris::vector<int>>>, c02::Nest<igris::vector<int>>>(s, c, "igris::vector<Nest{igris::vector<int>}>");
}
VP_TARGET("vector_nested", vector_nested,
          "igris::vector whose elements each hold an igris::vector<int> (value x = x+1 ints equal to x): the same histories; element copies, moves and "
          "assignments run the inner vector's own copy / move construction and assignment, self-assignment included");
static void vector_int_big(Src &s, Case &c)
{
    c02::BigMode bm;
    vector_int(s, c);
}
static void vector_tracked_big(Src &s, Case &c)
{
    c02::BigMode bm;
    vector_tracked(s, c);
}
VP_TARGET("vector_int_big", vector_int_big,
          "igris::vector<int>, the same histories with resize / reserve / count construction jumping to 250..262, 41..600 and 1000..1100 "
          "elements (several capacity doublings, counts beyond one-byte range)");
VP_TARGET("vector_tracked_big", vector_tracked_big, "igris::vector<Tracked> with the big-size histories of vector_int_big");
VP_TARGET("vector_tracked", vector_tracked,
          "igris::vector<Tracked> (element owns heap memory and registers its lifetime: constructing over a live object, "
          "assigning to / moving from / reading / destroying a dead one, leaks and imbalance are failures): " VEC_RULE);
VP_TARGET("flat_hosted_cmp", flat_hosted_cmp,
          "flat_map / flat_set with a Compare other than std::less (std::greater for both; for flat_set also a case-insensitive string order under which 'b' and 'B' are one "
          "key): histories and checks of flat_hosted against std::map / std::set with the same Compare");
VP_TARGET("flat_hosted", flat_hosted,
          "flat_map / flat_set over the host std::vector, key/mapped types int and std::string: histories of insert, emplace, "
          "operator[] (read and write), set insert, clear, copy/assign, initializer lists with duplicate keys; after every "
          "operation size, count, find, at (incl. out_of_range) agree with std::map / std::set for every key of the universe; "
          "non-trivial = a duplicate-key insertion and a miss occurred");
