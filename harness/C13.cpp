// C13 — printf engine: floating conversions are memory-safe and correctly
// rounded. Target: printf_fp.
#include "printf_common.h"
#include <cfloat>
#include <cmath>

using namespace vpbt;
using pf::Arg;

namespace
{

double from_bits(uint64_t b)
{
    double d;
    memcpy(&d, &b, 8);
    return d;
}
uint64_t to_bits(double d)
{
    uint64_t b;
    memcpy(&b, &d, 8);
    return b;
}

double gen_double(Src &s, Case &c)
{
    switch (s.weighted({2, 2, 3, 3, 3, 2, 2, 2}))
    {
    case 0:
    {
        static const double sp[] = {0.0, -0.0, 1.0, -1.0, 0.5, 2.5, 0.125, 1.5, 9.5, 99.5, 0.05, 9.995, 1e15, 1e16, 1e17, 123.456, 0.1, 0.3, 1e-5, 0.0001, 100000.0, 999999.5, 1e6, 10.0};
        c.label("special_value");
        return sp[s.below(sizeof sp / sizeof sp[0])] * (s.below(4) == 0 ? -1 : 1);
    }
    case 1:
    {
        c.label("extreme");
        static const double ex[] = {DBL_MAX, DBL_MIN, 4.9406564584124654e-324, 2.2250738585072009e-308, 1e300, 1e-300, 1e64, 1e65, 1e100, 1.7976931348623157e308, 9.999999999999999e22, 1e22, 1e23};
        return ex[s.below(sizeof ex / sizeof ex[0])] * (s.coin() ? -1 : 1);
    }
    case 2:
    {
        // power of ten (+- a few ulps)
        int e = (int)s.range(-30, 30);
        if (s.below(6) == 0)
            e = (int)s.range(-320, 308);
        double v = std::pow(10.0, e);
        int k = (int)s.range(-2, 2);
        for (; k > 0; k--)
            v = std::nextafter(v, INFINITY);
        for (; k < 0; k++)
            v = std::nextafter(v, 0.0);
        c.label("pow10");
        return s.below(5) == 0 ? -v : v;
    }
    case 3:
    {
        // power of two (+- a few ulps)
        int e = (int)s.range(-70, 70);
        if (s.below(6) == 0)
            e = (int)s.range(-1074, 1023);
        double v = std::ldexp(1.0, e);
        int k = (int)s.range(-1, 1);
        if (k > 0)
            v = std::nextafter(v, INFINITY);
        if (k < 0)
            v = std::nextafter(v, 0.0);
        c.label("pow2");
        return s.below(5) == 0 ? -v : v;
    }
    case 4:
    {
        // decimal tie at some digit: n + 0.5 scaled by a power of ten
        long long n = (long long)s.range(0, 100000);
        int sc = (int)s.range(0, 8);
        double v = ((double)n + 0.5) / std::pow(10.0, sc);
        c.label("decimal_tie");
        return s.below(5) == 0 ? -v : v;
    }
    case 5:
    {
        // "ordinary" decimal with a few digits
        long long n = (long long)s.range(-99999999, 99999999);
        int sc = (int)s.range(0, 10);
        c.label("short_decimal");
        return (double)n / std::pow(10.0, sc);
    }
    case 6:
    {
        c.label("nonfinite");
        switch (s.below(4))
        {
        case 0:
            return INFINITY;
        case 1:
            return -INFINITY;
        case 2:
            return NAN;
        default:
            return -NAN;
        }
    }
    default:
    {
        c.label("random_bits");
        return from_bits(s.u64());
    }
    }
}

struct Spec
{
    unsigned flags; // bit0 '-', bit1 '+', bit2 ' ', bit3 '#', bit4 '0'
    int width_kind, width;
    int prec_kind, prec; // 0 none, 1 ".", 2 ".N", 3 ".*"
    char conv;
    bool left() const { return (flags & 1) || (width_kind == 2 && width < 0); }
    int eff_width() const { return width_kind == 0 ? 0 : width < 0 ? -width : width; }
    int eff_prec() const
    {
        if (prec_kind == 0 || (prec_kind == 3 && prec < 0))
            return 6;
        return prec_kind == 1 ? 0 : prec;
    }
};

long double ulp_of(double x)
{
    double ax = std::fabs(x);
    if (ax == 0)
        return 4.9406564584124654e-324L;
    double up = std::nextafter(ax, INFINITY);
    if (std::isinf(up))
        return (long double)ax - (long double)std::nextafter(ax, 0.0);
    return (long double)up - (long double)ax;
}

// decimal exponent of a finite non-zero value (exact: via the host's %.17e)
int dec_exponent(double v)
{
    char b[64];
    snprintf(b, sizeof b, "%.17e", v);
    const char *e = strchr(b, 'e');
    return e ? atoi(e + 1) : 0;
}

// Check an output that is not byte-identical to the host's: ISO shape for the
// directive + padding/sign rules + accuracy of the printed digits.
void check_shape(const Spec &sp, double x, const std::string &out, bool judge_accuracy = true)
{
    const char lc = (char)tolower(sp.conv);
    const bool upper = sp.conv != lc;
    int width = sp.eff_width();
    VP_CHECK((int)out.size() >= width, "fp_width", "output '%s' shorter than width %d", out.c_str(), width);
    // padding and sign: with the ' ' flag the first blank before a non-negative number is the
    // sign position, any further blanks are padding
    const bool neg = std::signbit(x);
    const char want_sign = neg ? '-' : (sp.flags & 2) ? '+' : (sp.flags & 4) ? ' ' : 0;
    size_t b = 0, e = out.size();
    if (sp.left())
        while (e > b && out[e - 1] == ' ')
            e--;
    else if (!(sp.flags & 16))
        while (b < e && out[b] == ' ')
            b++;
    if (want_sign == ' ' && b > 0)
        b--; // give the sign blank back
    if (b != 0 || e != out.size())
        VP_CHECK((int)out.size() == width, "fp_padding", "output '%s' padded beyond width %d", out.c_str(), width);
    std::string core = out.substr(b, e - b);
    size_t p = 0;
    if (want_sign)
    {
        VP_CHECK(!core.empty() && core[0] == want_sign, "fp_sign", "sign position of '%s' is not '%c'", out.c_str(), want_sign);
        p = 1;
    }
    std::string num = core.substr(p);
    // zero padding: leading zeros only with the 0 flag (no '-') and only up to the width
    if (num.size() > 1 && num[0] == '0' && isdigit((unsigned char)num[1]))
    {
        VP_CHECK((sp.flags & 16) && !sp.left() && (int)out.size() == width, "fp_zero_pad",
                 "leading zeros in '%s' not justified by the 0 flag and width %d", out.c_str(), width);
        size_t z = 0;
        while (z + 1 < num.size() && num[z] == '0' && isdigit((unsigned char)num[z + 1]))
            z++;
        num = num.substr(z);
    }
    // split mantissa / exponent
    size_t epos = num.find(upper ? 'E' : 'e');
    std::string mant = epos == std::string::npos ? num : num.substr(0, epos);
    std::string expo = epos == std::string::npos ? "" : num.substr(epos + 1);
    size_t dot = mant.find('.');
    std::string ip = dot == std::string::npos ? mant : mant.substr(0, dot);
    std::string fp = dot == std::string::npos ? "" : mant.substr(dot + 1);
    VP_CHECK(!ip.empty(), "fp_shape", "no integer digits in '%s'", out.c_str());
    for (char ch : ip)
        VP_CHECK(isdigit((unsigned char)ch), "fp_shape", "non-digit '%c' in '%s'", ch, out.c_str());
    for (char ch : fp)
        VP_CHECK(isdigit((unsigned char)ch), "fp_shape", "non-digit '%c' in '%s'", ch, out.c_str());
    int xexp = 0;
    if (epos != std::string::npos)
    {
        VP_CHECK(expo.size() >= 3 && (expo[0] == '+' || expo[0] == '-'), "fp_shape", "exponent '%s' in '%s' (want sign + at least 2 digits)",
                 expo.c_str(), out.c_str());
        for (size_t i = 1; i < expo.size(); i++)
            VP_CHECK(isdigit((unsigned char)expo[i]), "fp_shape", "exponent '%s' in '%s'", expo.c_str(), out.c_str());
        xexp = atoi(expo.c_str());
        VP_CHECK(ip.size() == 1, "fp_shape", "e-style mantissa '%s' in '%s' needs exactly one integer digit", mant.c_str(), out.c_str());
        VP_CHECK(ip[0] != '0' || x == 0, "fp_shape", "e-style mantissa of a non-zero value starts with 0 in '%s'", out.c_str());
    }
    int P = sp.eff_prec();
    std::string numtext = mant + (expo.empty() ? "" : "e" + expo);
    long double v = strtold(numtext.c_str(), nullptr);
    long double ax = std::fabs((long double)x);
    long double tol;
    if (lc == 'f')
    {
        VP_CHECK(epos == std::string::npos, "fp_shape", "%%f output '%s' has an exponent", out.c_str());
        VP_CHECK((int)fp.size() == P, "fp_shape", "%%.%df printed %zu fraction digits: '%s'", P, fp.size(), out.c_str());
        VP_CHECK((dot != std::string::npos) == (P > 0 || (sp.flags & 8)), "fp_shape", "decimal point wrong in '%s'", out.c_str());
        tol = 0.5L * powl(10.0L, -P);
    }
    else if (lc == 'e')
    {
        VP_CHECK(epos != std::string::npos, "fp_shape", "%%e output '%s' has no exponent", out.c_str());
        VP_CHECK((int)fp.size() == P, "fp_shape", "%%.%de printed %zu fraction digits: '%s'", P, fp.size(), out.c_str());
        VP_CHECK((dot != std::string::npos) == (P > 0 || (sp.flags & 8)), "fp_shape", "decimal point wrong in '%s'", out.c_str());
        tol = 0.5L * powl(10.0L, xexp - P);
    }
    else
    {
        int Pg = P == 0 ? 1 : P;
        // ISO: X = exponent of the (rounded) e-style conversion; f-style iff Pg > X >= -4
        int X = v == 0 ? 0 : dec_exponent((double)v);
        bool want_f = Pg > X && X >= -4;
        VP_CHECK((epos == std::string::npos) == want_f, "fp_g_style", "%%.%dg of a value with exponent %d printed in %s style: '%s'", P, X,
                 epos == std::string::npos ? "f" : "e", out.c_str());
        int maxfrac = want_f ? Pg - 1 - X : Pg - 1;
        if (sp.flags & 8)
        {
            VP_CHECK((int)fp.size() == maxfrac && dot != std::string::npos, "fp_g_digits", "%%#.%dg printed %zu fraction digits, want %d: '%s'", P,
                     fp.size(), maxfrac, out.c_str());
        }
        else
        {
            VP_CHECK((int)fp.size() <= maxfrac, "fp_g_digits", "%%.%dg printed %zu fraction digits, at most %d allowed: '%s'", P, fp.size(),
                     maxfrac, out.c_str());
            VP_CHECK(fp.empty() ? dot == std::string::npos : fp.back() != '0', "fp_g_trailing", "trailing zeros / bare point in %%g output '%s'",
                     out.c_str());
        }
        tol = 0.5L * powl(10.0L, X - (Pg - 1));
    }
    long double err = fabsl(v - ax);
    if (!judge_accuracy)
        return;
    VP_CHECK(err <= tol + 4 * ulp_of(x), "fp_accuracy", "'%s' is %.3Lg away from the argument (allowed %.3Lg + 4 ulp)", out.c_str(), err, tol);
}

// the printf_fp_reentrant target: the output callback re-enters __printf with floating conversions (printf_common.h)
static int g_reenter_every = 0;
static double g_reenter_dbl = 0;

void t_printf_fp(Src &s, Case &c)
{
    Spec sp;
    sp.conv = "fFeEgG"[s.weighted({4, 1, 4, 1, 4, 1})];
    sp.flags = s.below(3) == 0 ? 0 : (unsigned)s.below(32);
    sp.width_kind = (int)s.weighted({3, 3, 2});
    sp.width = sp.width_kind == 1 ? (int)s.range(1, 40) : sp.width_kind == 2 ? (int)s.range(-40, 40) : 0;
    sp.prec_kind = (int)s.weighted({3, 1, 5, 2});
    sp.prec = sp.prec_kind == 2 ? (int)s.range(0, 17) : sp.prec_kind == 3 ? (int)s.range(-3, 17) : 0;
    if (sp.prec_kind == 2 && s.below(16) == 0)
        sp.prec = (int)s.range(18, 40);
    double x = gen_double(s, c);

    std::string fmt = "%";
    static const char fl[] = {'-', '+', ' ', '#', '0'};
    for (int i = 0; i < 5; i++)
        if (sp.flags & (1u << i))
            fmt += fl[i];
    std::vector<Arg> args;
    if (sp.width_kind == 1)
        fmt += std::to_string(sp.width);
    else if (sp.width_kind == 2)
    {
        fmt += "*";
        args.push_back(Arg{pf::A_INT, sp.width});
    }
    if (sp.prec_kind == 1)
        fmt += ".";
    else if (sp.prec_kind == 2)
        fmt += "." + std::to_string(sp.prec);
    else if (sp.prec_kind == 3)
    {
        fmt += ".*";
        args.push_back(Arg{pf::A_INT, sp.prec});
    }
    // the l length modifier is allowed on floating conversions and has no effect (ISO C 7.21.6.1); a third of the directives
    // carry it (a function of the directive's other fields, no extra choice)
    if (((unsigned)sp.width * 5u + (unsigned)sp.prec * 3u + (unsigned)sp.conv + (unsigned)sp.prec_kind) % 3u == 0)
    {
        fmt += 'l';
        c.label("l_modifier");
    }
    fmt += sp.conv;
    Arg a{pf::A_DBL};
    a.d = x;
    args.push_back(a);
    c.log("fmt=\"%s\" width=%d prec=%d x=%.17g (bits %016llx)", fmt.c_str(), sp.width, sp.prec, x, (unsigned long long)to_bits(x));
    bool integral = std::isfinite(x) && x == std::floor(x);
    if ((sp.flags || sp.width_kind || sp.prec_kind) && !integral)
        c.nontrivial = true;
    static const char *cl[] = {"conv_f", "conv_F", "conv_e", "conv_E", "conv_g", "conv_G"};
    c.label(cl[strchr("fFeEgG", sp.conv) - "fFeEgG"]);

    pf::Result r;
    if (g_reenter_every)
    {
        r.cap.reenter_every = g_reenter_every;
        r.cap.reenter_fp = true;
        r.cap.reenter_val = 42;
        r.cap.reenter_dbl = g_reenter_dbl;
    }
    pf::run_both(r, fmt.c_str(), args);
    VP_CHECK(r.igris_ret == (int)r.cap.calls && r.cap.calls == (long)r.cap.out.size(), "ret_vs_emitted", "returned %d, callback calls %ld",
             r.igris_ret, r.cap.calls);
    if (g_reenter_every && r.cap.inner_runs)
    {
        char want[128];
        snprintf(want, sizeof want, "%lld;%.3f;%10.4f", 42LL, g_reenter_dbl, g_reenter_dbl);
        c.label("callback_reentered");
        VP_CHECK(r.cap.inner_out == want, "reentrant_inner_output", "the call made from inside the output callback printed '%s', host '%s'", r.cap.inner_out.c_str(), want);
    }
    if (!std::isfinite(x))
        return; // termination, memory safety and the count are all the statement asks here
    if (r.cap.out == r.host)
    {
        c.label("equals_host");
        return;
    }
    c.label("differs_from_host");
    c.log(" igris='%s' host='%s'", r.cap.out.c_str(), r.host.c_str());
    check_shape(sp, x, r.cap.out);
}

// Several directives in one call. Metamorphic oracle: the text (and count) of "D1|D2|D3" equals the texts of the
// one-directive calls D1, D2, D3 joined by '|' — whatever a directive sets up (flags, precision, case) must not
// leak into the next one. The pieces on their own are judged by the other targets.
void t_printf_fp_multi(Src &s, Case &c)
{
    struct Piece
    {
        std::string fmt;
        std::vector<Arg> args;
    };
    auto fp_piece = [&]() {
        Piece p;
        p.fmt = "%";
        unsigned flags = s.below(3) == 0 ? 0 : (unsigned)s.below(32);
        static const char fl[] = {'-', '+', ' ', '#', '0'};
        for (int i = 0; i < 5; i++)
            if (flags & (1u << i))
                p.fmt += fl[i];
        int wk = (int)s.weighted({3, 3, 1});
        if (wk == 1)
            p.fmt += std::to_string((int)s.range(1, 14));
        else if (wk == 2)
        {
            p.fmt += "*";
            p.args.push_back(Arg{pf::A_INT, (long long)s.range(-12, 12)});
        }
        int pk = (int)s.weighted({3, 1, 4, 1});
        if (pk == 1)
            p.fmt += ".";
        else if (pk == 2)
            p.fmt += "." + std::to_string((int)s.range(0, 9));
        else if (pk == 3)
        {
            p.fmt += ".*";
            p.args.push_back(Arg{pf::A_INT, (long long)s.range(-2, 9)});
        }
        p.fmt += "fFeEgG"[s.weighted({4, 1, 3, 1, 3, 1})];
        Arg a{pf::A_DBL};
        Case dummy;
        dummy.want_desc = false;
        a.d = gen_double(s, dummy);
        p.args.push_back(a);
        return p;
    };
    auto int_piece = [&]() {
        Piece p;
        static const char *forms[] = {"%d", "%+d", "%05d", "%-6d", "%x", "%X", "%#o", "%.3d", "% d", "%8.4X", "%u"};
        p.fmt = forms[s.below(11)];
        p.args.push_back(Arg{pf::A_INT, (long long)s.pick({0, 1, -1, 42, 255, -4096, 2147483647})});
        return p;
    };
    std::vector<Piece> pieces;
    int n = (int)s.range(2, 3);
    for (int i = 0; i < n; i++)
        pieces.push_back(i + 1 < n && s.below(3) == 0 ? int_piece() : fp_piece());
    std::string fmt, want;
    std::vector<Arg> args;
    long want_ret = 0;
    for (size_t i = 0; i < pieces.size(); i++)
    {
        if (args.size() + pieces[i].args.size() > pf::kMaxArgs)
        {
            pieces.resize(i);
            break;
        }
        pf::Result one;
        pf::run_both(one, pieces[i].fmt.c_str(), pieces[i].args);
        if (i)
        {
            fmt += "|";
            want += "|";
            want_ret++;
        }
        fmt += pieces[i].fmt;
        want += one.cap.out;
        want_ret += one.igris_ret;
        args.insert(args.end(), pieces[i].args.begin(), pieces[i].args.end());
    }
    c.log("fmt=\"%s\" (%zu directives)", fmt.c_str(), pieces.size());
    c.nontrivial = pieces.size() >= 2;
    c.label(pieces.size() >= 3 ? "three_directives" : "two_directives");
    pf::Result r;
    pf::run_both(r, fmt.c_str(), args);
    VP_CHECK(r.cap.out == want, "multi_directive_text", "\"%s\" printed '%s'; its directives one per call give '%s'", fmt.c_str(), r.cap.out.c_str(), want.c_str());
    VP_CHECK(r.igris_ret == want_ret && r.igris_ret == (int)r.cap.calls, "multi_directive_count", "\"%s\" returned %d (callback calls %ld), the one-directive calls add up to %ld",
             fmt.c_str(), r.igris_ret, r.cap.calls, want_ret);
}

void t_printf_fp_reentrant(Src &s, Case &c)
{
    g_reenter_every = (int)s.range(1, 4);
    // multiples of 1/8: their %.3f / %.4f renderings are exact (no rounding, so no tie can make igris and the host differ)
    g_reenter_dbl = (double)s.range(-99999, 99999) / 8.0;
    struct Off
    {
        ~Off() { g_reenter_every = 0; }
    } off;
    c.log("callback re-enters __printf every %d character(s) with %.3f; ", g_reenter_every, g_reenter_dbl);
    t_printf_fp(s, c);
}

// Wide fields. Widths of 41..1100 with the precisions of the quantified domain (0..17): everything is judged.
// Precisions of 41..1100 are outside the domain the accuracy clause is quantified over (and printf_impl.c documents
// that it generates at most 64 fraction digits and fills with zeros): there the clauses that hold "with any
// flags, width and precision" are judged — termination, memory safety, return == emitted, width — plus the ISO
// shape (digit counts, point, exponent form, padding); the parsed-back value is not.
void t_printf_fp_wide(Src &s, Case &c)
{
    Spec sp;
    sp.conv = "fFeEgG"[s.weighted({4, 1, 4, 1, 4, 1})];
    sp.flags = s.below(3) == 0 ? 0 : (unsigned)s.below(32);
    auto big = [&]() -> int {
        switch (s.weighted({3, 2, 2}))
        {
        case 0:
            return (int)s.range(250, 262);
        case 1:
            return (int)s.range(41, 600);
        default:
            return (int)s.range(1000, 1100);
        }
    };
    bool wide_prec = s.below(3) == 0;
    sp.width_kind = wide_prec ? (int)s.weighted({2, 2, 2}) : 1 + (int)s.below(2);
    sp.width = sp.width_kind ? big() : 0;
    if (sp.width_kind == 2 && s.below(3) == 0)
        sp.width = -sp.width;
    if (wide_prec)
    {
        sp.prec_kind = 2 + (int)s.below(2);
        sp.prec = big();
    }
    else
    {
        sp.prec_kind = (int)s.weighted({3, 1, 5, 2});
        sp.prec = sp.prec_kind == 2 ? (int)s.range(0, 17) : sp.prec_kind == 3 ? (int)s.range(-3, 17) : 0;
    }
    double x = gen_double(s, c);
    std::string fmt = "%";
    static const char fl[] = {'-', '+', ' ', '#', '0'};
    for (int i = 0; i < 5; i++)
        if (sp.flags & (1u << i))
            fmt += fl[i];
    std::vector<Arg> args;
    if (sp.width_kind == 1)
        fmt += std::to_string(sp.width);
    else if (sp.width_kind == 2)
    {
        fmt += "*";
        args.push_back(Arg{pf::A_INT, sp.width});
    }
    if (sp.prec_kind == 1)
        fmt += ".";
    else if (sp.prec_kind == 2)
        fmt += "." + std::to_string(sp.prec);
    else if (sp.prec_kind == 3)
    {
        fmt += ".*";
        args.push_back(Arg{pf::A_INT, sp.prec});
    }
    // the l length modifier is allowed on floating conversions and has no effect (ISO C 7.21.6.1); a third of the directives
    // carry it (a function of the directive's other fields, no extra choice)
    if (((unsigned)sp.width * 5u + (unsigned)sp.prec * 3u + (unsigned)sp.conv + (unsigned)sp.prec_kind) % 3u == 0)
    {
        fmt += 'l';
        c.label("l_modifier");
    }
    fmt += sp.conv;
    Arg a{pf::A_DBL};
    a.d = x;
    args.push_back(a);
    c.log("fmt=\"%s\" width=%d prec=%d x=%.17g (bits %016llx)", fmt.c_str(), sp.width, sp.prec, x, (unsigned long long)to_bits(x));
    c.nontrivial = true;
    c.label(wide_prec ? "wide_precision" : "wide_width");
    pf::Result r;
    pf::run_both(r, fmt.c_str(), args);
    VP_CHECK(r.igris_ret == (int)r.cap.calls && r.cap.calls == (long)r.cap.out.size(), "ret_vs_emitted", "returned %d, callback calls %ld",
             r.igris_ret, r.cap.calls);
    if (!std::isfinite(x))
        return;
    if (r.cap.out == r.host)
    {
        c.label("equals_host");
        return;
    }
    c.label("differs_from_host");
    if (wide_prec && tolower(sp.conv) == 'g')
    {
        // %g chooses its style and digit count from the decimal exponent of the correctly rounded value; with hundreds of
        // requested digits that choice hinges on digits far beyond the accuracy the statement quantifies over
        // (e.g. %#.250g of 1e153): only the width is judged here
        VP_CHECK((int)r.cap.out.size() >= sp.eff_width(), "fp_width", "output shorter than width %d", sp.eff_width());
        return;
    }
    check_shape(sp, x, r.cap.out, !wide_prec);
}

} // namespace

VP_TARGET("printf_fp_multi", t_printf_fp_multi,
          "two or three directives in one format (floating directives with any flags / width / precision, sometimes an integer directive in front), separated by '|': "
          "the text and the count must equal those of the same directives formatted one per call, joined — no option may leak from one directive into the next");
VP_TARGET("printf_fp_reentrant", t_printf_fp_reentrant,
          "the directives of printf_fp with an output callback that itself calls __printf (\"%lld;%.3f;%10.4f\" of a drawn multiple of 1/8: exactly representable, no rounding involved) every 1..4 characters: "
          "the outer checks are unchanged and the inner output must equal the host's");
VP_TARGET("printf_fp_wide", t_printf_fp_wide,
          "the same directives with widths 41..1100 (literal or *, negative * included) and precisions 0..17, or with precisions "
          "41..1100: return == emitted, ASan-clean, width, ISO shape (f/e; for g the width only); parsed-back accuracy judged for precisions <= 17 only "
          "(the quantified domain; beyond 64 fraction digits the implementation documents zero fill)");
VP_TARGET("printf_fp", t_printf_fp,
          "%[flags][width|*][.prec|.*](f|F|e|E|g|G) with any flag subset, widths 0..40/*, precisions none/0..17 (tail "
          "to 40)/.*, doubles from boundary-biased classes (zero, +-0, denormals, DBL_MIN/MAX, powers of two and ten "
          "+- ulps, decimal ties, short decimals, inf/nan, random bit patterns); oracle = terminates, ASan-clean, "
          "return == emitted, and for finite values equal to host snprintf or ISO shape + half-digit accuracy; "
          "non-trivial = flag/width/precision present and value not integral");
