// Shared by C04 (round trip) and C05 (receiver on arbitrary streams):
// alphabets, an independent CRC-8 / stuffing reference, and the receiver
// adaptors (configurable C++ receiver in this TU, legacy C receiver behind
// gstuff_legacy_shim.cpp because the two headers define clashing macros).
#pragma once
#include "vpbt.h"
#include <memory>
#include <string>
#include <vector>

namespace gs
{
typedef std::vector<uint8_t> Bytes;

struct Alphabet
{
    uint8_t start, stop, stub, c_start, c_stop, c_stub;
    bool same() const { return start == stop; }
};
// values copied from the documentation of the protocol, not from the headers' macros
const Alphabet kV1 = {0xA8, 0xB2, 0xC5, 0x8A, 0x2B, 0x5C};
const Alphabet kV0 = {0xAC, 0xAC, 0xAD, 0xAE, 0xAE, 0xAF};

// CRC-8, poly 0x31, MSB first, init 0xFF (bit-serial, independent of igris_strmcrc8)
inline uint8_t crc8(const uint8_t *p, size_t n, uint8_t crc = 0xFF)
{
    for (size_t i = 0; i < n; i++)
        for (int b = 7; b >= 0; b--)
        {
            int in = (p[i] >> b) & 1, top = (crc >> 7) & 1;
            crc = (uint8_t)(crc << 1);
            if (top ^ in)
                crc ^= 0x31;
        }
    return crc;
}

inline void ref_stuff_byte(const Alphabet &a, uint8_t c, Bytes &out)
{
    if (c == a.start)
    {
        out.push_back(a.stub);
        out.push_back(a.c_start);
    }
    else if (c == a.stub)
    {
        out.push_back(a.stub);
        out.push_back(a.c_stub);
    }
    else if (c == a.stop)
    {
        out.push_back(a.stub);
        out.push_back(a.c_stop);
    }
    else
        out.push_back(c);
}
// reference frame: START, stuffed payload, stuffed CRC, STOP
inline Bytes ref_frame(const Alphabet &a, const Bytes &payload)
{
    Bytes f;
    f.push_back(a.start);
    for (uint8_t c : payload)
        ref_stuff_byte(a, c, f);
    ref_stuff_byte(a, crc8(payload.data(), payload.size()), f);
    f.push_back(a.stop);
    return f;
}
// Un-escape a frame body (no delimiters inside). Returns false when a STUB is
// followed by something that is not one of the three codes, or is last.
inline bool ref_unstuff(const Alphabet &a, const uint8_t *p, size_t n, Bytes &out)
{
    out.clear();
    for (size_t i = 0; i < n; i++)
    {
        if (p[i] != a.stub)
        {
            out.push_back(p[i]);
            continue;
        }
        if (++i >= n)
            return false;
        if (p[i] == a.c_start)
            out.push_back(a.start);
        else if (p[i] == a.c_stop)
            out.push_back(a.stop);
        else if (p[i] == a.c_stub)
            out.push_back(a.stub);
        else
            return false;
    }
    return true;
}

// statuses, normalised across the two receivers
enum Status
{
    S_CONTINUE,
    S_NEWPACKAGE,
    S_CRC_ERROR,
    S_OVERFLOW,
    S_STUFFING_ERROR,
    S_FORCE_RESTART,
    S_GARBAGE,
    S_OTHER
};
inline const char *status_name(Status s)
{
    static const char *n[] = {"CONTINUE", "NEWPACKAGE", "CRC_ERROR", "OVERFLOW", "STUFFING_ERROR", "FORCE_RESTART", "GARBAGE", "OTHER"};
    return n[s];
}

// A receiver over an exactly-sized heap buffer of `cap` bytes.
struct Receiver
{
    virtual ~Receiver() {}
    virtual Status feed(uint8_t c) = 0;
    virtual size_t size() = 0;
    // content of the completed packet (for the legacy receiver: the line minus its CRC byte)
    virtual Bytes packet() = 0;
    virtual size_t raw_len() = 0; // bytes currently stored in the line buffer
    // hand the receiver a new, exactly-sized buffer of `cap` bytes through its setbuf call; the previous
    // buffer is freed (any later access to it is an ASan fault)
    virtual void rearm(size_t cap) = 0;
};
// make_cfg_receiver(alphabet, cap): gstuff_cfg_impl.h
std::unique_ptr<Receiver> make_legacy_receiver(size_t cap);                 // gstuff_legacy_shim.cpp
int legacy_encode(const uint8_t *data, int size, uint8_t *out);             // gstuff_legacy_shim.cpp

} // namespace gs
