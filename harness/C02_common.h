// C02 — igris::vector and the flat associative shims behave like the std
// containers. Templated vector harness shared by C02.cpp (primary header) and
// C02_portable.cpp (the twin inside std_portable.h).
#pragma once
#include <cmath>
#include <limits>
#include "tracked.h"
#include "vpbt.h"
#include <algorithm>
#include <memory>
#include <stdexcept>
#include <string>
#include <vector>

namespace c02
{
using namespace vpbt;
using trk::ledger;
using trk::Tracked;

template <class T> struct El;
template <> struct El<int>
{
    static constexpr bool tracked = false;
    static int get(const int &x) { return x; }
};
template <> struct El<Tracked>
{
    static constexpr bool tracked = true;
    static int get(const Tracked &x) { return x.get(); }
};

// An element that is itself a vector of the implementation under test: value x is held as x+1 ints equal to x, so
// every element copy / move / assignment of the outer vector runs the inner vector's own copy / move / assignment
// (self-assignment included, e.g. erase of an empty range moves elements onto themselves) and a lost or emptied inner
// vector reads back as a wrong value.
template <class IV> struct Nest
{
    IV body;
    Nest() : Nest(0) {}
    explicit Nest(int x)
    {
        for (int k = 0; k <= x; k++)
            body.push_back(x);
    }
    int get() const
    {
        int n = (int)body.size();
        if (n == 0)
            return -1000;
        for (int k = 0; k < n; k++)
            if (body[(size_t)k] != n - 1)
                return -2000 - k;
        return n - 1;
    }
    bool operator==(const Nest &o) const { return get() == o.get(); }
    bool operator!=(const Nest &o) const { return get() != o.get(); }
    bool operator<(const Nest &o) const { return get() < o.get(); }
};
template <class IV> struct El<Nest<IV>>
{
    static constexpr bool tracked = false;
    static int get(const Nest<IV> &x) { return x.get(); }
};

inline std::string show(const std::vector<int> &v)
{
    std::string s = "[";
    for (size_t i = 0; i < v.size(); i++)
        s += (i ? "," : "") + std::to_string(v[i]);
    return s + "]";
}

// what compiles for a given vector implementation (bodies that do not instantiate cannot be
// detected with `requires`)
struct ApiPrimary
{
    static constexpr bool host_iter_range_ctor = true, erase_range = true;
};
struct ApiPortable
{
    // the twin's range constructor needs igris iterator tags and its erase(first,last) calls a
    // three-argument igris::move that std_portable.h does not define: neither instantiates
    static constexpr bool host_iter_range_ctor = false, erase_range = false;
};

// The *_big targets: resize / reserve / count construction jump to sizes around 256, 512 and up to 1100, so that
// capacities and element counts leave the range of one-byte counters and several doublings happen in one history.
inline bool &big_mode()
{
    static bool b = false;
    return b;
}
struct BigMode
{
    BigMode() { big_mode() = true; }
    ~BigMode() { big_mode() = false; }
};
inline size_t big_size(Src &s, bool huge_ok = false)
{
    // trivially constructible elements only: counts around 65536 (two-byte counters)
    if (huge_ok && s.below(40) == 0)
        return (size_t)s.range(65530, 65545);
    switch (s.weighted({3, 2, 2, 1, 2}))
    {
    case 4:
        return (size_t)s.pick<uint32_t>({255, 256, 257, 511, 512, 513, 768, 1024});
    case 0:
        return (size_t)s.range(250, 262);
    case 1:
        return (size_t)s.range(0, 40);
    case 2:
        return (size_t)s.range(41, 600);
    default:
        return (size_t)s.range(1000, 1100);
    }
}

template <class V, class T, class Api = ApiPrimary> struct VecRun
{
    static constexpr int NS = 3;
    Case &c;
    V *slot[NS] = {nullptr, nullptr, nullptr};
    std::vector<int> model[NS];
    bool realloc_seen = false, inner_edit = false;

    explicit VecRun(Case &c_) : c(c_)
    {
        for (int i = 0; i < NS; i++)
            slot[i] = new V();
    }

    void lifetimes(const char *op)
    {
        if constexpr (El<T>::tracked)
        {
            auto &l = ledger();
            VP_CHECK(!l.viol, std::string("lifetime_") + l.viol, "%s: %s at %p", op, l.viol, (const void *)l.viol_at);
            size_t want = 0;
            for (int i = 0; i < NS; i++)
                want += model[i].size();
            VP_CHECK(l.live.size() == want, "lifetime_live_count", "%s: %zu element objects alive, the vectors hold %zu", op, l.live.size(), want);
        }
    }

    void check(const char *op)
    {
        for (int i = 0; i < NS; i++)
        {
            V &v = *slot[i];
            const std::vector<int> &m = model[i];
            VP_CHECK(v.size() == m.size(), "vec_size", "%s: v%d size()=%zu, std::vector %zu", op, i, (size_t)v.size(), m.size());
            VP_CHECK(v.capacity() >= v.size(), "vec_capacity", "%s: v%d capacity %zu < size %zu", op, i, (size_t)v.capacity(), (size_t)v.size());
            VP_CHECK(v.empty() == m.empty(), "vec_empty", "%s: v%d empty()=%d with %zu elements", op, i, (int)v.empty(), m.size());
            std::vector<int> got;
            for (size_t k = 0; k < m.size(); k++)
                got.push_back(El<T>::get(v[k]));
            VP_CHECK(got == m, "vec_content", "%s: v%d holds %s, std::vector %s", op, i, show(got).c_str(), show(m).c_str());
            std::vector<int> it_got;
            for (auto it = v.begin(); it != v.end(); ++it)
                it_got.push_back(El<T>::get(*it));
            VP_CHECK(it_got == m, "vec_iteration", "%s: v%d iterates %s, std::vector %s", op, i, show(it_got).c_str(), show(m).c_str());
            if (!m.empty())
                VP_CHECK(El<T>::get(v.front()) == m.front() && El<T>::get(v.back()) == m.back() && El<T>::get(v.data()[0]) == m[0], "vec_front_back",
                         "%s: v%d front/back/data differ from %s", op, i, show(m).c_str());
        }
        lifetimes(op);
    }

    void note_cap(size_t before, int i)
    {
        if (slot[i]->capacity() != before && before != 0)
            realloc_seen = true;
    }

    void step(Src &s)
    {
        int op = (int)s.below(24);
        int i = (int)s.below(NS), j = (int)s.below(NS);
        V &v = *slot[i];
        std::vector<int> &m = model[i];
        int x = (int)s.below(6);
        size_t n = m.size();
        size_t cap0 = v.capacity();
        char name[96];
        switch (op)
        {
        case 0:
            snprintf(name, sizeof name, "v%d.push_back(%d)", i, x);
            c.log("%s ", name);
            v.push_back(T(x));
            m.push_back(x);
            break;
        case 1:
            snprintf(name, sizeof name, "v%d.emplace_back(%d)", i, x);
            c.log("%s ", name);
            v.emplace_back(x);
            m.push_back(x);
            break;
        case 2:
        case 3:
        case 4:
        {
            size_t pos = s.below(n + 1);
            snprintf(name, sizeof name, "v%d.%s(%zu,%d)", i, op == 2 ? "insert" : op == 3 ? "insert_int" : "emplace", pos, x);
            c.log("%s ", name);
            if (pos > 0 && pos < n && n >= 2)
                inner_edit = true;
            typename V::const_iterator cpos = v.data() + pos;
            typename V::iterator r;
            if (op == 2)
                r = v.insert(cpos, T(x));
            else if (op == 3)
                r = v.insert((int)pos, T(x));
            else
                r = v.emplace(cpos, x);
            m.insert(m.begin() + pos, x);
            VP_CHECK(r == v.data() + pos, "vec_insert_return", "%s: returned iterator is not at the inserted element", name);
            break;
        }
        case 5:
        {
            // insert(pos, first, last) with the range taken from *another* container (the std contract)
            size_t pos = s.below(n + 1);
            std::vector<int> src;
            bool from_slot = j != i && s.coin();
            if (from_slot)
                src = model[j];
            else if (big_mode())
            {
                // a long foreign range: 255, 256, 257, 512, ... elements (lengths that are multiples of 256 included)
                size_t len = big_size(s);
                for (size_t k = 0; k < len; k++)
                    src.push_back((int)((k * 7 + 3) % 6));
            }
            else
                for (int k = (int)s.below(5); k > 0; k--)
                    src.push_back((int)s.below(6));
            size_t a = s.below(src.size() + 1), b = a + s.below(src.size() - a + 1);
            if (big_mode() && !from_slot && s.coin())
            {
                a = 0;
                b = src.size(); // the whole range
            }
            snprintf(name, sizeof name, "v%d.insert(%zu, %s[%zu..%zu))", i, pos, from_slot ? "other vector" : "foreign array", a, b);
            c.log("%s ", name);
            if (pos > 0 && pos < n && n >= 2 && b > a)
                inner_edit = true;
            if constexpr (requires(V &q, typename V::iterator p, typename V::const_iterator f) { q.insert(p, f, f); })
            {
                std::vector<T> foreign;
                const T *base;
                if (from_slot)
                    base = slot[j]->data();
                else
                {
                    foreign.reserve(src.size() + 1);
                    for (int e : src)
                        foreign.emplace_back(e);
                    base = foreign.data();
                }
                typename V::iterator r = v.insert(v.data() + pos, base + a, base + b);
                m.insert(m.begin() + pos, src.begin() + a, src.begin() + b);
                VP_CHECK(r == v.data() + pos, "vec_insert_return", "%s: returned iterator is not at the first inserted element", name);
            }
            else
                return;
            break;
        }
        case 6:
        {
            if (n == 0)
                return;
            size_t pos = s.below(n);
            snprintf(name, sizeof name, "v%d.erase(%zu)", i, pos);
            c.log("%s ", name);
            if (pos > 0 && pos + 1 < n)
                inner_edit = true;
            v.erase(v.begin() + pos);
            m.erase(m.begin() + pos);
            break;
        }
        case 7:
        {
            if constexpr (!Api::erase_range)
                return;
            size_t a = s.below(n + 1), b = a + s.below(n - a + 1);
            snprintf(name, sizeof name, "v%d.erase(%zu,%zu)", i, a, b);
            c.log("%s ", name);
            if (a > 0 && b < n && b > a)
                inner_edit = true;
            if constexpr (Api::erase_range)
                v.erase(v.begin() + a, v.begin() + b);
            m.erase(m.begin() + a, m.begin() + b);
            break;
        }
        case 8:
            if (n == 0)
                return;
            snprintf(name, sizeof name, "v%d.pop_back()", i);
            c.log("%s ", name);
            v.pop_back();
            m.pop_back();
            break;
        case 9:
        {
            size_t k = big_mode() ? big_size(s, std::is_same<T, int>::value) : s.below(n + 9);
            snprintf(name, sizeof name, "v%d.resize(%zu)", i, k);
            c.log("%s ", name);
            v.resize(k);
            m.resize(k, 0);
            break;
        }
        case 10:
        {
            if constexpr (std::is_same<Api, ApiPrimary>::value)
                if (big_mode() && s.below(6) == 0)
                {
                    // a request the allocator refuses (std::allocator throws before asking for memory): the vector must be
                    // exactly what it was — the operations that follow run on it
                    size_t cap0 = v.capacity();
                    bool threw = false;
                    c.log("v%d.reserve(SIZE_MAX/2)[refused] ", i);
                    c.label("refused_allocation");
                    try
                    {
                        v.reserve(SIZE_MAX / 2);
                    }
                    catch (const std::exception &)
                    {
                        threw = true;
                    }
                    VP_CHECK(threw, "vec_reserve_refused", "v%d.reserve(SIZE_MAX/2) returned normally", i);
                    VP_CHECK(v.capacity() == cap0, "vec_reserve_refused", "v%d: capacity() is %zu after a refused reserve, it was %zu", i, (size_t)v.capacity(), cap0);
                    break;
                }
            size_t k = big_mode() ? big_size(s, std::is_same<T, int>::value) : s.below(40);
            snprintf(name, sizeof name, "v%d.reserve(%zu)", i, k);
            c.log("%s ", name);
            v.reserve(k);
            VP_CHECK(v.capacity() >= k, "vec_reserve", "%s: capacity %zu afterwards", name, (size_t)v.capacity());
            break;
        }
        case 11:
            snprintf(name, sizeof name, "v%d.clear()", i);
            c.log("%s ", name);
            v.clear();
            m.clear();
            break;
        case 12:
            if constexpr (requires(V &q, const T &e) { q.insert_sorted(e); })
            {
                if (!std::is_sorted(m.begin(), m.end()))
                    return;
                snprintf(name, sizeof name, "v%d.insert_sorted(%d)", i, x);
                c.log("%s ", name);
                auto r = v.insert_sorted(T(x));
                auto mr = m.insert(std::upper_bound(m.begin(), m.end(), x), x);
                // behind the elements it ties with, and the returned iterator says so
                VP_CHECK((size_t)(r - v.begin()) == (size_t)(mr - m.begin()), "vec_insert_sorted_position", "%s: returned position %zu, upper_bound is %zu", name,
                         (size_t)(r - v.begin()), (size_t)(mr - m.begin()));
                break;
            }
            else
                return;
        case 13: // copy construction: v_j is replaced by a copy of v_i
        case 14: // move construction
            if (i == j)
                return;
            snprintf(name, sizeof name, "v%d = new V(%sv%d)", j, op == 14 ? "move " : "", i);
            c.log("%s ", name);
            delete slot[j];
            slot[j] = nullptr;
            model[j].clear();
            if (op == 13)
            {
                slot[j] = new V(*slot[i]);
                model[j] = m;
            }
            else
            {
                slot[j] = new V(std::move(*slot[i]));
                model[j] = m;
                adopt_moved_from(i, name);
            }
            break;
        case 15: // copy assignment, self included
            snprintf(name, sizeof name, "v%d = v%d", j, i);
            c.log("%s ", name);
            if (i == j)
                c.label("self_assign");
            *slot[j] = *slot[i];
            model[j] = std::vector<int>(m);
            break;
        case 16: // move assignment, self included
        {
            snprintf(name, sizeof name, "v%d = move(v%d)", j, i);
            c.log("%s ", name);
            if (i == j)
            {
                c.label("self_move_assign");
                *slot[j] = std::move(*slot[i]);
                adopt_moved_from(i, name); // unspecified but valid
                break;
            }
            std::vector<int> val = m;
            *slot[j] = std::move(*slot[i]);
            model[j] = val;
            adopt_moved_from(i, name);
            break;
        }
        case 17: // initializer lists
            if constexpr (requires { V{T(1), T(2)}; } && std::is_constructible_v<V, std::initializer_list<T>>)
            {
                int k = (int)s.below(4);
                snprintf(name, sizeof name, "v%d = V{%d elements}", i, k);
                c.log("%s ", name);
                delete slot[i];
                slot[i] = nullptr;
                m.clear();
                switch (k)
                {
                case 0:
                    slot[i] = new V(std::initializer_list<T>{});
                    break;
                case 1:
                    slot[i] = new V{T(x)};
                    m = {x};
                    break;
                case 2:
                    slot[i] = new V{T(x), T(1)};
                    m = {x, 1};
                    break;
                default:
                    slot[i] = new V{T(x), T(1), T(x), T(5)};
                    m = {x, 1, x, 5};
                }
                break;
            }
            else
                return;
        case 18: // iterator range constructors
        {
            std::vector<int> src;
            for (int k = (int)s.below(6); k > 0; k--)
                src.push_back((int)s.below(6));
            bool ptrs = s.coin() || !Api::host_iter_range_ctor;
            snprintf(name, sizeof name, "v%d = V(%s range of %zu)", i, ptrs ? "pointer" : "std::vector iterator", src.size());
            c.log("%s ", name);
            std::vector<T> foreign;
            foreign.reserve(src.size() + 1);
            for (int e : src)
                foreign.emplace_back(e);
            delete slot[i];
            slot[i] = nullptr;
            m.clear();
            if (ptrs)
                slot[i] = new V(foreign.data(), foreign.data() + foreign.size());
            else if constexpr (Api::host_iter_range_ctor)
                slot[i] = new V(foreign.begin(), foreign.end());
            m = src;
            // constructing from a range copies: the source elements keep their values
            for (size_t k = 0; k < src.size(); k++)
                VP_CHECK(El<T>::get(foreign[k]) == src[k], "vec_range_ctor_source", "%s: source element %zu reads %d afterwards, it was %d", name, k,
                         El<T>::get(foreign[k]), src[k]);
            break;
        }
        case 19:
        {
            size_t k = big_mode() ? big_size(s, std::is_same<T, int>::value) : s.below(6);
            snprintf(name, sizeof name, "v%d = V(%zu)", i, k);
            c.log("%s ", name);
            delete slot[i];
            slot[i] = nullptr;
            slot[i] = new V(k);
            m.assign(k, 0);
            break;
        }
        case 20:
        {
            snprintf(name, sizeof name, "compare v%d v%d", i, j);
            c.log("%s ", name);
            const V &a = *slot[i], &b = *slot[j];
            VP_CHECK((a == b) == (model[i] == model[j]), "vec_eq", "%s: == gives %d, std::vector %d", name, (int)(a == b), (int)(model[i] == model[j]));
            VP_CHECK((a != b) == (model[i] != model[j]), "vec_ne", "%s: != gives %d, std::vector %d", name, (int)(a != b), (int)(model[i] != model[j]));
            if constexpr (requires(const V &p, const V &q) { p < q; })
                VP_CHECK((a < b) == (model[i] < model[j]), "vec_lt", "%s: < gives %d, std::vector %d", name, (int)(a < b), (int)(model[i] < model[j]));
            break;
        }
        case 21:
            if constexpr (requires(V &q) { q.at(0); })
            {
                size_t k = s.below(n + 3);
                snprintf(name, sizeof name, "v%d.at(%zu)", i, k);
                c.log("%s ", name);
                bool threw = false;
                int val = 0;
                try
                {
                    val = El<T>::get(v.at(k));
                }
                catch (const std::out_of_range &)
                {
                    threw = true;
                }
                VP_CHECK(threw == (k >= n), "vec_at_throw", "%s: %s, std::vector would %s", name, threw ? "threw" : "returned", k >= n ? "throw" : "return");
                if (!threw)
                    VP_CHECK(val == m[k], "vec_at_value", "%s = %d, std::vector %d", name, val, m[k]);
                break;
            }
            else
                return;
        case 22: // arguments that alias an element of the vector itself (std::vector guarantees these)
        {
            if (n == 0)
                return;
            size_t k = s.below(n), pos = s.below(n + 1);
            int how = (int)s.below(3);
            int val = m[k];
            snprintf(name, sizeof name, "v%d.%s(v%d[%zu])@%zu", i, how == 0 ? "push_back" : how == 1 ? "insert" : "emplace", i, k, pos);
            c.log("%s ", name);
            c.label("aliasing_argument");
            if (how == 0)
            {
                v.push_back(v[k]);
                m.push_back(val);
            }
            else if (how == 1)
            {
                typename V::const_iterator cpos = v.data() + pos;
                v.insert(cpos, v[k]);
                m.insert(m.begin() + pos, val);
            }
            else
            {
                typename V::const_iterator cpos = v.data() + pos;
                v.emplace(cpos, v[k]);
                m.insert(m.begin() + pos, val);
            }
            if (pos > 0 && pos < n && n >= 2)
                inner_edit = true;
            break;
        }
        default:
            return;
        }
        note_cap(cap0, i);
        check(name);
    }

    // after a move the source is "valid but unspecified": it must be a well-formed vector
    // of live elements; the reference takes over whatever it holds
    void adopt_moved_from(int i, const char *op)
    {
        V &v = *slot[i];
        VP_CHECK(v.capacity() >= v.size(), "vec_moved_from_invalid", "%s: moved-from vector has size %zu > capacity %zu", op, (size_t)v.size(),
                 (size_t)v.capacity());
        model[i].clear();
        for (size_t k = 0; k < v.size(); k++)
            model[i].push_back(El<T>::get(v[k]));
    }

    void finish()
    {
        for (int i = 0; i < NS; i++)
        {
            delete slot[i];
            slot[i] = nullptr;
            model[i].clear();
        }
        if constexpr (El<T>::tracked)
        {
            auto &l = ledger();
            VP_CHECK(!l.viol, std::string("lifetime_") + l.viol, "final destruction: %s", l.viol);
            VP_CHECK(l.live.empty(), "lifetime_leak", "%zu element objects still alive after every vector was destroyed", l.live.size());
            VP_CHECK(l.ctors == l.dtors, "lifetime_balance", "%ld constructions, %ld destructions", l.ctors, l.dtors);
        }
    }
};

// Comparison of vectors whose element equality is not "same bytes": doubles (0.0 == -0.0, NaN != NaN) and a trivially
// copyable record whose operator== looks at one field only. VD / VP: the container under test over double / KeyTag.
struct KeyTag
{
    int key;
    int tag;
    bool operator==(const KeyTag &o) const { return key == o.key; }
    bool operator!=(const KeyTag &o) const { return key != o.key; }
    bool operator<(const KeyTag &o) const { return key < o.key; }
};
template <class VD, class VP> void cmp_target(Src &s, Case &c, const char *what)
{
    static const double vals[] = {0.0, -0.0, std::numeric_limits<double>::quiet_NaN(), 1.0, 2.5, -1.0};
    size_t n = (size_t)s.range(0, 5), m = s.below(4) == 0 ? (size_t)s.range(0, 5) : n;
    bool records = s.coin();
    c.log("%s compare (%s) ", what, records ? "records compared by key" : "doubles");
    if (records)
    {
        VP a, b;
        std::vector<KeyTag> ra, rb;
        for (size_t i = 0; i < n; i++)
        {
            KeyTag e{(int)s.below(3), (int)s.below(3)};
            a.push_back(e);
            ra.push_back(e);
        }
        for (size_t i = 0; i < m; i++)
        {
            // mostly the same keys with other tags
            KeyTag e = i < ra.size() && s.below(4) ? KeyTag{ra[i].key, (int)s.below(3)} : KeyTag{(int)s.below(3), (int)s.below(3)};
            b.push_back(e);
            rb.push_back(e);
        }
        c.nontrivial = ra == rb && !ra.empty();
        c.label(ra == rb ? "equal_by_key" : "different");
        VP_CHECK((a == b) == (ra == rb), "vec_eq", "%s: == gives %d, std::vector %d", what, (int)(a == b), (int)(ra == rb));
        VP_CHECK((a != b) == (ra != rb), "vec_ne", "%s: != gives %d, std::vector %d", what, (int)(a != b), (int)(ra != rb));
        if constexpr (requires(const VP &p, const VP &q) { p < q; })
            VP_CHECK((a < b) == (ra < rb), "vec_lt", "%s: < gives %d, std::vector %d", what, (int)(a < b), (int)(ra < rb));
        return;
    }
    VD a, b;
    std::vector<double> ra, rb;
    for (size_t i = 0; i < n; i++)
    {
        double e = vals[s.below(6)];
        a.push_back(e);
        ra.push_back(e);
        c.log("%g,", e);
    }
    c.log(" vs ");
    for (size_t i = 0; i < m; i++)
    {
        double e = i < ra.size() && s.below(3) ? ra[i] : vals[s.below(6)];
        if (e == 0.0 && s.coin())
            e = -e; // the other zero
        b.push_back(e);
        rb.push_back(e);
        c.log("%g,", e);
    }
    bool special = false;
    for (double e : ra)
        special |= e != e || (e == 0.0 && std::signbit(e));
    for (double e : rb)
        special |= e != e || (e == 0.0 && std::signbit(e));
    c.nontrivial = special && n == m && n > 0;
    c.label(special ? "has_nan_or_negative_zero" : "plain_values");
    VP_CHECK((a == b) == (ra == rb), "vec_eq", "%s: == gives %d, std::vector %d", what, (int)(a == b), (int)(ra == rb));
    VP_CHECK((a != b) == (ra != rb), "vec_ne", "%s: != gives %d, std::vector %d", what, (int)(a != b), (int)(ra != rb));
    // with a NaN among the elements < is no strict weak order and std::vector itself answers differently in C++17
    // (lexicographical_compare) and C++20 (synthesised three-way, "unordered"): judged only without NaN
    bool has_nan = false;
    for (double e : ra)
        has_nan |= e != e;
    for (double e : rb)
        has_nan |= e != e;
    if constexpr (requires(const VD &p, const VD &q) { p < q; })
        if (!has_nan)
            VP_CHECK((a < b) == (ra < rb), "vec_lt", "%s: < gives %d, std::vector %d", what, (int)(a < b), (int)(ra < rb));
}

template <class V, class T, class Api = ApiPrimary> void vec_target(Src &s, Case &c, const char *what)
{
    ledger().reset();
    int nops = (int)(s.coin() ? s.range(0, 12) : s.range(0, 50));
    c.log("%s: ", what);
    // leaked on failure: destroying vectors whose bookkeeping was just found wrong would only
    // pile secondary reports on top of the first one (the worker exits anyway)
    auto *run = new VecRun<V, T, Api>(c);
    run->check("initial");
    for (int k = 0; k < nops; k++)
        run->step(s);
    c.nontrivial = run->realloc_seen && run->inner_edit;
    if (run->realloc_seen)
        c.label("realloc");
    if (run->inner_edit)
        c.label("inner_edit");
    run->finish();
    delete run;
}

} // namespace c02
