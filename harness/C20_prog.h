// Thread programs for C20 (shared by the controlled-scheduler harness C20.cpp and the
// ThreadSanitizer harness C20_tsan.cpp).
#pragma once
#include "vpbt.h"
#include <string>
#include <vector>

namespace c20
{
using namespace vpbt;

enum OpKind
{
    O_LOCK,
    O_UNLOCK,
    O_SAVE_RESTORE,
    O_WAIT,
    O_UNWAIT_ONE,
    O_UNWAIT_ALL,
    O_PUSH,
    O_TRYPOP,
    O_YIELD,
    O_NONE,
    // the event programs (gen_event_program):
    O_EV_WAIT,   // igris::event q: wait(), or wait(1 h) when prio is set
    O_EV_SIGNAL, // igris::event q: signal()
    O_QINIT,     // not executed by a thread: the safe_queue starts with `val` items (initializer-list constructor)
    O_DWAIT      // parks on wait queue q through the delegate interface (waiter_delegate_init with an object of the caller's)
};
struct Op
{
    OpKind k;
    int q = 0;    // wait queue index
    int prio = 0; // WAIT_PRIORITY
    long val = 0; // future value / pushed value
};
typedef std::vector<std::vector<Op>> Program;

std::string op_str(const Op &o)
{
    switch (o.k)
    {
    case O_LOCK:
        return o.prio == 1 ? "lock(syslock)" : o.prio == 2 ? "lock(guard)" : "lock";
    case O_UNLOCK:
        return "unlock";
    case O_SAVE_RESTORE:
        return "save+restore";
    case O_WAIT:
        return fmt("wait(q%d%s)", o.q, o.prio ? ",prio" : "");
    case O_UNWAIT_ONE:
        return fmt("unwait_one(q%d,%ld)", o.q, o.val);
    case O_UNWAIT_ALL:
        return fmt("unwait_all(q%d,%ld)", o.q, o.val);
    case O_PUSH:
        return fmt("push(%ld)", o.val);
    case O_TRYPOP:
        return "size?pop";
    case O_YIELD:
        return "yield";
    case O_EV_WAIT:
        return fmt("event%d.wait(%s)", o.q, o.prio ? "1h" : "");
    case O_EV_SIGNAL:
        return fmt("event%d.signal()", o.q);
    case O_QINIT:
        return fmt("[queue starts with %ld items]", o.val);
    case O_DWAIT:
        return fmt("delegate_wait(q%d)", o.q);
    default:
        return "-";
    }
}
std::string program_str(const Program &p)
{
    std::string s;
    for (size_t t = 0; t < p.size(); t++)
    {
        s += fmt("T%zu[", t);
        for (size_t i = 0; i < p[t].size(); i++)
            s += (i ? " " : "") + op_str(p[t][i]);
        s += "] ";
    }
    return s;
}

const int kQueues = 2;
// the value a waker hands over is pointer sized: odd program values travel with bits above 2^32 set (an object address, say)
inline long wide_future(long v) { return (v & 1) ? v + (0x5a5aL << 32) : v; }

Program gen_program(Src &s)
{
    int nt = (int)s.range(2, 4);
    Program p((size_t)nt);
    long seq = 0;
    // program styles: mixed, queue-focused (one consumer, several producers), wait-focused,
    // lock-focused — so that threads actually meet on the same object
    int style = (int)s.below(4);
    for (int t = 0; t < nt; t++)
    {
        int n = (int)s.range(1, 6);
        int depth = 0;
        for (int i = 0; i < n; i++)
        {
            Op o{O_YIELD};
            size_t pick;
            if (style == 1)
                pick = t == 0 ? s.weighted({0, 0, 0, 0, 0, 0, 1, 5, 1}) : s.weighted({0, 0, 0, 0, 0, 0, 5, 0, 1});
            else if (style == 2)
                pick = s.weighted({1, 1, 0, 4, 4, 1, 0, 0, 1});
            else if (style == 3)
                pick = s.weighted({4, 4, 2, 0, 1, 0, 0, 0, 2});
            else
                pick = s.weighted({3, 3, 1, 3, 3, 1, 2, 2, 1});
            switch (pick)
            {
            case 0:
                if (depth < 3)
                {
                    o.k = O_LOCK;
                    // which entry point takes the lock: system_lock(), igris::syslock::lock() or an igris::syslock_guard
                    // object (a function of the position in the program, not a drawn choice)
                    o.prio = (t + i + depth) % 3;
                    depth++;
                }
                break;
            case 1:
                if (depth > 0)
                {
                    o.k = O_UNLOCK;
                    depth--;
                }
                break;
            case 2:
                if (depth > 0)
                    o.k = O_SAVE_RESTORE;
                break;
            case 3:
                if (depth == 0)
                {
                    o.k = O_WAIT;
                    o.q = (int)s.below(kQueues);
                    o.prio = s.below(4) == 0;
                }
                break;
            case 4:
                o.k = O_UNWAIT_ONE;
                o.q = (int)s.below(kQueues);
                o.val = (long)s.range(1, 9);
                break;
            case 5:
                o.k = O_UNWAIT_ALL;
                o.q = (int)s.below(kQueues);
                o.val = (long)s.range(1, 9);
                break;
            case 6:
                o.k = O_PUSH;
                o.val = t * 100 + (++seq);
                break;
            case 7:
                if (t == 0) // single consumer: size() > 0 then pop() is only safe for one popping thread
                    o.k = O_TRYPOP;
                break;
            default:
                break;
            }
            p[(size_t)t].push_back(o);
        }
    }
    return p;
}

// Programs around igris::event and a safe_queue that starts non-empty: 2..4 threads of <= 5 operations; every event that is
// waited for is signalled by some thread (the signal may come before, while or after the waiter parks).
const int kEvents = 2;
Program gen_event_program(Src &s)
{
    int nt = (int)s.range(2, 4);
    Program p((size_t)nt);
    long seq = 0;
    long qinit = s.below(3) == 0 ? 0 : (long)s.range(1, 4);
    p[0].push_back(Op{O_QINIT, 0, 0, qinit});
    for (int t = 0; t < nt; t++)
    {
        int n = (int)s.range(1, 5);
        int depth = 0;
        for (int i = 0; i < n; i++)
        {
            Op o{O_YIELD};
            switch (s.weighted({4, 4, 3, 2, 1, 1, 1, 3, 3}))
            {
            case 7:
                if (depth == 0)
                {
                    o.k = O_DWAIT;
                    o.q = (int)s.below(kQueues);
                }
                break;
            case 8:
                o.k = s.coin() ? O_UNWAIT_ONE : O_UNWAIT_ALL;
                o.q = (int)s.below(kQueues);
                o.val = (long)s.range(1, 9);
                break;
            case 0:
                if (depth == 0)
                {
                    o.k = O_EV_WAIT;
                    o.q = (int)s.below(kEvents);
                    o.prio = (int)s.below(2);
                }
                break;
            case 1:
                o.k = O_EV_SIGNAL;
                o.q = (int)s.below(kEvents);
                break;
            case 2:
                o.k = O_PUSH;
                o.val = t * 100 + (++seq);
                break;
            case 3:
                if (t == 0)
                    o.k = O_TRYPOP;
                break;
            case 4:
                if (depth < 2)
                {
                    o.k = O_LOCK;
                    o.prio = (t + i) % 3;
                    depth++;
                }
                break;
            case 5:
                if (depth > 0)
                {
                    o.k = O_UNLOCK;
                    depth--;
                }
                break;
            default:
                break;
            }
            p[(size_t)t].push_back(o);
        }
    }
    return p;
}

} // namespace c20
