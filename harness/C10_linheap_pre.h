// C10 — pre-include (-include) for /repo/compat/mem/lin_malloc.cpp and
// lin_realloc.cpp: they define `malloc`, `free`, `realloc` with C linkage,
// which cannot be linked under those names into a hosted, ASan-instrumented
// process (and clang rejects re-declaring the host prototypes, which carry
// `throw()`). So: pull in every host / igris header the two files include
// *first* (their include guards make the later #includes no-ops), then rename
// the three entry points to lin_malloc / lin_free / lin_realloc. Everything the
// files do internally (realloc -> malloc / free) is renamed with them, so the
// shim's cross-calls stay inside the shim; memcpy stays the host's (ASan
// checked).
#pragma once
#include <cassert>
#include <cstddef>
#include <cstdlib>
#include <cstring>
#include <memory>
#include <mutex>
#include <new>
#include <stdlib.h>
#include <string.h>

#include <igris/sync/critical_context.h>
#include <igris/sync/syslock.h>

// lin_realloc.cpp relies on <stdlib.h> for the prototypes of malloc / free
extern "C" void *lin_malloc(size_t len);
extern "C" void lin_free(void *p);
extern "C" void *lin_realloc(void *ptr, size_t len);

#define malloc lin_malloc
#define free lin_free
#define realloc lin_realloc
