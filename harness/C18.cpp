// C18 — hexascii and base64 codecs are inverse pairs with the documented
// alphabets. Targets: codecs (random byte strings), fixed (uintN_to_hex /
// hex_to_uintN), codecs_enum (exhaustive small spaces).
#include "vpbt.h"
#include <exception>
#include <pthread.h>
#include <igris/string/hexascii_string.h>
#include <igris/util/base64.h>
#include <igris/util/hexascii.h>

// The std::string / igris::buffer hex *decoders* are declared in
// hexascii_string.h. Re-declare them weak: when the tree does not define them
// the harness still links and their address is null (reported as a finding);
// when a tree defines them they are bound normally and get the round-trip check.
namespace igris
{
    __attribute__((weak)) std::string hexascii_decode(std::string const &str);
    __attribute__((weak)) std::string hexascii_decode(igris::buffer const &buf);
}

using namespace vpbt;

static const char K_URLDEC[] = "C18-b64url-decode-is-encoder";
static const char K_HEXSTR[] = "C18-hexstr-decode-undefined";

typedef std::string (*hexdec_str_fn)(std::string const &);
typedef std::string (*hexdec_buf_fn)(igris::buffer const &);
static hexdec_str_fn volatile p_hexdec_str = &igris::hexascii_decode;
static hexdec_buf_fn volatile p_hexdec_buf = &igris::hexascii_decode;

// ---------------------------------------------------------------- references
// RFC 4648 §4 / §5 encoder, bit-accumulator form; alphabet built from the
// RFC's description (A-Z, a-z, 0-9, then "+/" or "-_"), '=' padding to 4.
static char ref_sym(unsigned v, bool url)
{
    if (v < 26)
        return (char)('A' + v);
    if (v < 52)
        return (char)('a' + (v - 26));
    if (v < 62)
        return (char)('0' + (v - 52));
    if (v == 62)
        return url ? '-' : '+';
    return url ? '_' : '/';
}
static std::string ref_b64(const uint8_t *p, size_t n, bool url)
{
    std::string out;
    uint32_t acc = 0;
    int bits = 0;
    for (size_t i = 0; i < n; i++)
    {
        acc = ((acc & 0x3f) << 8) | p[i];
        bits += 8;
        while (bits >= 6)
        {
            bits -= 6;
            out += ref_sym((acc >> bits) & 63, url);
        }
    }
    if (bits > 0)
        out += ref_sym((acc << (6 - bits)) & 63, url);
    while (out.size() % 4)
        out += '=';
    return out;
}
static std::string ref_hex(const uint8_t *p, size_t n)
{
    std::string out;
    char t[4];
    for (size_t i = 0; i < n; i++)
    {
        snprintf(t, sizeof t, "%02X", (unsigned)p[i]);
        out += t;
    }
    return out;
}
// pin the reference to the RFC 4648 §10 vectors once per process
static void ref_selftest()
{
    static bool done = false;
    if (done)
        return;
    static const char *vec[][2] = {{"", ""},
                                   {"f", "Zg=="},
                                   {"fo", "Zm8="},
                                   {"foo", "Zm9v"},
                                   {"foob", "Zm9vYg=="},
                                   {"fooba", "Zm9vYmE="},
                                   {"foobar", "Zm9vYmFy"}};
    for (auto &v : vec)
    {
        std::string r = ref_b64((const uint8_t *)v[0], strlen(v[0]), false);
        VP_CHECK(r == v[1], "harness_selftest", "ref_b64(%s)=%s want %s", v[0], r.c_str(), v[1]);
    }
    static const uint8_t hi[3] = {0xfb, 0xff, 0xbf};
    VP_CHECK(ref_b64(hi, 3, false) == "+/+/" && ref_b64(hi, 3, true) == "-_-_", "harness_selftest",
             "62/63 symbols");
    done = true;
}

static bool is_hex_upper(char ch) { return (ch >= '0' && ch <= '9') || (ch >= 'A' && ch <= 'F'); }
static bool is_b64_sym(char ch, bool url)
{
    if ((ch >= 'A' && ch <= 'Z') || (ch >= 'a' && ch <= 'z') || (ch >= '0' && ch <= '9'))
        return true;
    return url ? (ch == '-' || ch == '_') : (ch == '+' || ch == '/');
}
static std::string show(const std::string &s) { return hexdump(s.data(), s.size(), 96); }

// ------------------------------------------------------------------ hexascii
static void check_hex(Case &c, const uint8_t *x, size_t n)
{
    const std::string xs((const char *)x, n);
    const std::string want = ref_hex(x, n);

    // C flavour: exactly-sized input, output and decode buffers
    Exact in(x, n);
    Exact enc(2 * n);
    memset(enc.p, 0, 2 * n); // 0 is outside the alphabet: every position must be written
    hexascii_encode(in.p, (int)n, enc.p);
    for (size_t i = 0; i < 2 * n; i++)
        VP_CHECK(is_hex_upper(enc.c()[i]), "hex_c_alphabet", "out[%zu]=0x%02x not in [0-9A-F]", i,
                 enc.p[i]);
    VP_CHECK(memcmp(enc.p, want.data(), 2 * n) == 0, "hex_c_text", "got %.*s want %s",
             (int)(2 * n), enc.c(), want.c_str());
    {
        Exact dec(n);
        for (size_t i = 0; i < n; i++)
            dec.p[i] = (uint8_t)~x[i];
        hexascii_decode(enc.p, (int)(2 * n), dec.p);
        VP_CHECK(memcmp(dec.p, x, n) == 0, "hex_c_roundtrip", "decode(encode(x))=%s",
                 hexdump(dec.p, n).c_str());
    }

    // std::string flavours of the encoder
    std::string e1 = igris::hexascii_encode(in.p, n);
    std::string e2 = igris::hexascii_encode(xs);
    std::string e3 = igris::hexascii_encode(igris::buffer((const void *)in.p, n));
    VP_CHECK(e1.size() == 2 * n && e2.size() == 2 * n && e3.size() == 2 * n, "hex_str_length",
             "sizes %zu %zu %zu want %zu", e1.size(), e2.size(), e3.size(), 2 * n);
    for (size_t i = 0; i < e1.size(); i++)
        VP_CHECK(is_hex_upper(e1[i]), "hex_str_alphabet", "out[%zu]=0x%02x", i, (uint8_t)e1[i]);
    VP_CHECK(e1 == want, "hex_str_text", "ptr flavour got %s want %s", e1.c_str(), want.c_str());
    VP_CHECK(e2 == want, "hex_str_text", "string flavour got %s want %s", e2.c_str(), want.c_str());
    VP_CHECK(e3 == want, "hex_str_text", "buffer flavour got %s want %s", e3.c_str(), want.c_str());

    // std::string flavours of the decoder
    hexdec_str_fn ds = p_hexdec_str;
    hexdec_buf_fn db = p_hexdec_buf;
    if (ds && db)
    {
        const std::string e2_before = e2;
        std::string d1 = ds(e2);
        VP_CHECK(d1 == xs, "hex_str_roundtrip", "string flavour decode(encode(x))=%s",
                 show(d1).c_str());
        // the text handed to the decoder is the caller's (a const reference): it must read the same afterwards, and a
        // second decode of the same object must give the same bytes
        VP_CHECK(e2 == e2_before, "hex_str_argument_changed", "hexascii_decode(const std::string&) left its argument as %s, it was %s", show(e2).c_str(),
                 show(e2_before).c_str());
        std::string d1b = ds(e2);
        VP_CHECK(d1b == xs, "hex_str_roundtrip", "string flavour: second decode of the same text gives %s", show(d1b).c_str());
        Exact eb(e1.data(), e1.size());
        std::string d2 = db(igris::buffer((const void *)eb.p, eb.n));
        VP_CHECK(d2 == xs, "hex_str_roundtrip", "buffer flavour decode(encode(x))=%s",
                 show(d2).c_str());
        VP_CHECK(eb.n == e1.size() && memcmp(eb.p, e1.data(), eb.n) == 0, "hex_str_argument_changed", "hexascii_decode(const igris::buffer&) changed the text it was given");
    }
    else
    {
        if (!known_active(K_HEXSTR))
            VP_FAIL("hex_str_decode_undefined",
                    "igris::hexascii_decode(std::string const&)%s / (igris::buffer const&)%s: declared "
                    "in igris/string/hexascii_string.h, defined nowhere — the std::string encoder has "
                    "no inverse",
                    ds ? " defined" : " UNDEFINED", db ? " defined" : " UNDEFINED");
        c.known_hit(K_HEXSTR);
        // the text the std::string encoder produced must at least be accepted
        // by the C decoder
        Exact eb(e2.data(), e2.size());
        Exact dec(n);
        memset(dec.p, 0x5a, n);
        hexascii_decode(eb.p, (int)eb.n, dec.p);
        VP_CHECK(memcmp(dec.p, x, n) == 0, "hex_str_to_c_roundtrip", "C decode(string encode(x))=%s",
                 hexdump(dec.p, n).c_str());
    }
}

// -------------------------------------------------------------------- base64
static void check_b64_text(const std::string &e, size_t n, bool url, const std::string &want,
                           const char *who)
{
    const char *pre = url ? "b64url" : "b64";
    size_t len = 4 * ((n + 2) / 3);
    VP_CHECK(e.size() == len, fmt("%s_length", pre), "%s: size %zu want %zu (%s)", who, e.size(), len,
             show(e).c_str());
    size_t pad = (3 - n % 3) % 3;
    for (size_t i = 0; i < len; i++)
    {
        if (i < len - pad)
            VP_CHECK(is_b64_sym(e[i], url), fmt("%s_alphabet", pre),
                     "%s: out[%zu]=0x%02x not in the %s alphabet", who, i, (uint8_t)e[i],
                     url ? "url-safe" : "standard");
        else
            VP_CHECK(e[i] == '=', fmt("%s_padding", pre), "%s: out[%zu]=0x%02x want '=' (pad %zu)",
                     who, i, (uint8_t)e[i], pad);
    }
    VP_CHECK(e == want, fmt("%s_text", pre), "%s: got %s want %s", who, e.c_str(), want.c_str());
}

static void check_b64(Case &c, const uint8_t *x, size_t n)
{
    const std::string xs((const char *)x, n);
    Exact in(x, n);

    // standard alphabet
    const std::string want = ref_b64(x, n, false);
    std::string e1 = igris::base64_encode(in.p, n);
    std::string e2 = igris::base64_encode(xs);
    check_b64_text(e1, n, false, want, "ptr");
    check_b64_text(e2, n, false, want, "string");
    std::string d = igris::base64_decode(e1);
    VP_CHECK(d == xs, "b64_roundtrip", "decode(%s)=%s (%zu bytes) want %zu bytes", e1.c_str(),
             show(d).c_str(), d.size(), n);

    // url-safe alphabet
    const std::string wantu = ref_b64(x, n, true);
    std::string u1 = igris::base64url_encode(in.p, n);
    std::string u2 = igris::base64url_encode(xs);
    check_b64_text(u1, n, true, wantu, "ptr");
    check_b64_text(u2, n, true, wantu, "string");
    std::string du = igris::base64url_decode(u1);
    if (du != xs)
    {
        // known finding: the function *encodes* its argument. Recognised only
        // by exactly that behaviour; any other wrong answer still fails.
        if (known_active(K_URLDEC) &&
            du == ref_b64((const uint8_t *)u1.data(), u1.size(), true))
            c.known_hit(K_URLDEC);
        else
            VP_FAIL("b64url_roundtrip", "base64url_decode(%s)=%s (%zu bytes) want %s (%zu bytes)",
                    u1.c_str(), show(du).c_str(), du.size(), hexdump(x, n).c_str(), n);
    }
}

static void check_bytes(Case &c, const uint8_t *x, size_t n)
{
    ref_selftest();
    check_hex(c, x, n);
    check_b64(c, x, n);
}

static void classify_bytes(Case &c, const uint8_t *x, size_t n)
{
    bool high = false;
    for (size_t i = 0; i < n; i++)
        high |= x[i] >= 0x80;
    c.nontrivial = (n % 3 != 0) || high;
    c.label(n % 3 == 0 ? "len%3=0" : n % 3 == 1 ? "len%3=1" : "len%3=2");
    if (high)
        c.label("byte>=0x80");
    if (n == 0)
        c.label("empty");
    std::string r = ref_b64(x, n, false);
    if (r.find('+') != std::string::npos || r.find('/') != std::string::npos)
        c.label("sym62/63");
}

// ------------------------------------------------------- fixed-width helpers
template <class T, class Enc, class Dec>
static void fixed_one(const char *name, T v, Enc enc, Dec dec)
{
    const size_t w = sizeof(T) * 2;
    Exact h(w);
    memset(h.p, 0, w);
    enc(h.c(), v);
    char want[20];
    snprintf(want, sizeof want, "%0*llX", (int)w, (unsigned long long)v);
    for (size_t i = 0; i < w; i++)
        VP_CHECK(is_hex_upper(h.c()[i]), fmt("uint%s_to_hex_alphabet", name),
                 "v=%s out[%zu]=0x%02x not in [0-9A-F]", want, i, h.p[i]);
    VP_CHECK(memcmp(h.p, want, w) == 0, fmt("uint%s_to_hex_text", name), "got %.*s want %s", (int)w,
             h.c(), want);
    T back = dec((const char *)h.c());
    VP_CHECK(back == v, fmt("hex_to_uint%s_roundtrip", name), "hex_to_uint(%s)=%llX", want,
             (unsigned long long)back);
    // fields packed back to back (a frame of several fixed-width numbers): the decoder takes its own 2/4/8/16 digits, whatever
    // follows them
    static const char *const follow[] = {"AB", "0", "F00D", "\0", " 1", "xyz", "9"};
    const char *f = follow[(size_t)((unsigned long long)v % 7)];
    size_t fl = strlen(f) + 1;
    Exact packed(w + fl);
    memcpy(packed.p, want, w);
    memcpy(packed.p + w, f, fl);
    T back2 = dec((const char *)packed.c());
    VP_CHECK(back2 == v, fmt("hex_to_uint%s_packed", name), "hex_to_uint of the field %s followed by \"%s\" gives %llX", want, f, (unsigned long long)back2);
}
static void fx8(uint8_t v) { fixed_one<uint8_t>("8", v, uint8_to_hex, hex_to_uint8); }
static void fx16(uint16_t v) { fixed_one<uint16_t>("16", v, uint16_to_hex, hex_to_uint16); }
static void fx32(uint32_t v) { fixed_one<uint32_t>("32", v, uint32_to_hex, hex_to_uint32); }
static void fx64(uint64_t v) { fixed_one<uint64_t>("64", v, uint64_to_hex, hex_to_uint64); }

static bool fixed_nontrivial(uint64_t v)
{
    for (int i = 0; i < 16; i++)
        if (((v >> (4 * i)) & 15) >= 10)
            return true;
    return false;
}

static void fixed_random(Src &s, Case &c)
{
    int w = (int)s.weighted({3, 3, 1, 1}); // 64, 32, 16, 8 (the narrow ones are enumerated)
    uint64_t v;
    switch (w)
    {
    case 0:
        v = s.biased_int<uint64_t>();
        c.log("uint64 v=%016llX", (unsigned long long)v);
        c.label("64");
        fx64(v);
        break;
    case 1:
        v = s.biased_int<uint32_t>();
        c.log("uint32 v=%08llX", (unsigned long long)v);
        c.label("32");
        fx32((uint32_t)v);
        break;
    case 2:
        v = s.biased_int<uint16_t>();
        c.log("uint16 v=%04llX", (unsigned long long)v);
        c.label("16");
        fx16((uint16_t)v);
        break;
    default:
        v = s.biased_int<uint8_t>();
        c.log("uint8 v=%02llX", (unsigned long long)v);
        c.label("8");
        fx8((uint8_t)v);
    }
    c.nontrivial = fixed_nontrivial(v);
    bool high = false;
    for (int i = 0; i < 8; i++)
        high |= ((v >> (8 * i)) & 0xff) >= 0x80;
    if (high)
        c.label("byte>=0x80");
}
VP_TARGET("fixed", fixed_random,
          "uintN_to_hex / hex_to_uintN for N in {64,32,16,8} (weights 3:3:1:1) on a boundary-biased "
          "value (0, +-1, min/max +-3, 2^k +-1, small, random bit width, uniform), text buffer exactly "
          "2*sizeof bytes; non-trivial = the value has a hex digit >= A (letter branch of half2hex/hex2half)");

// ------------------------------------------------------------- random target
static void codecs_random(Src &s, Case &c)
{
    static const uint8_t special[] = {0x00, 0x7F, 0x80, 0xFF, '=', 0xFB, 0xFE, 0x3E, 0x3F, 0xBF, 0xEF, '+', '/', '-', '_', 0x0A};
    size_t n;
    switch (s.weighted({5, 2, 1}))
    {
    case 0:
        n = (size_t)s.range(0, 64);
        break;
    case 1:
        n = (size_t)s.range(0, 9);
        break;
    default:
        n = (size_t)s.range(58, 64);
    }
    int style = (int)s.below(4);
    uint8_t x[64];
    for (size_t i = 0; i < n; i++)
    {
        uint8_t b = s.u8();
        if (style == 1)
            b = special[b % sizeof special];
        else if (style == 2)
            b |= 0x80;
        x[i] = b;
    }
    c.log("n=%zu x=%s", n, hexdump(x, n, 64).c_str());
    classify_bytes(c, x, n);
    check_bytes(c, x, n);
}
VP_TARGET("codecs", codecs_random,
          "random byte string of 0..64 bytes (all lengths mod 3; uniform / boundary set "
          "{00,7F,80,FF,'=',FB,FE,3E,3F,..} / all >= 0x80) through hexascii (C, std::string, buffer) "
          "and base64 (standard, url-safe) in exactly-sized heap blocks; non-trivial = length mod 3 "
          "!= 0 or some byte >= 0x80");

// ------------------------------------------------------------- long strings
// Lengths around the widths of narrow counters (255/256, 511/512, 1023/1024, 4095/4096; 65535/65536 in the
// thorough tier) and arbitrary lengths up to 1100: the content is a drawn pattern of 1..16 bytes repeated with
// the block number mixed in, so the choice sequence stays short while every 256-byte block differs.
static void codecs_long(Src &s, Case &c)
{
    size_t n;
    switch (s.weighted({4, 3, 3, 2, 2, 1}))
    {
    case 0:
        n = (size_t)s.range(250, 262);
        break;
    case 1:
        n = (size_t)s.range(506, 518);
        break;
    case 2:
        n = (size_t)s.range(65, 1100);
        break;
    case 3:
        n = (size_t)s.range(1018, 1030);
        break;
    case 4:
        n = (size_t)s.range(4090, 4102);
        break;
    default:
        n = tier() ? (size_t)s.range(65530, 65542) : (size_t)s.range(120, 140);
    }
    size_t plen = (size_t)s.range(1, 16);
    uint8_t pat[16];
    for (size_t i = 0; i < plen; i++)
        pat[i] = s.u8();
    std::vector<uint8_t> x(n);
    for (size_t i = 0; i < n; i++)
        x[i] = (uint8_t)(pat[i % plen] + (uint8_t)(i / 64) * 37u);
    c.log("n=%zu pattern=%s x[0..32)=%s", n, hexdump(pat, plen, 16).c_str(), hexdump(x.data(), n < 32 ? n : 32, 32).c_str());
    c.nontrivial = n >= 255;
    c.label(n < 255 ? "len<255" : n < 512 ? "len255..511" : n < 4096 ? "len512..4095" : n < 65535 ? "len4096.." : "len>=65535");
    c.label(n % 3 == 0 ? "len%3=0" : n % 3 == 1 ? "len%3=1" : "len%3=2");
    check_bytes(c, x.data(), n);
}
VP_TARGET("codecs_long", codecs_long,
          "byte string of 65..4102 bytes (thorough: up to 65542) with lengths concentrated around 256, 512, 1024, 4096 "
          "(65536), content = drawn 1..16 byte pattern varied per 64-byte block, through the same hexascii/base64 "
          "oracles as 'codecs'; non-trivial = length >= 255 (beyond any one-byte counter)");


// ------------------------------------------------- large strings on a small stack
// A firmware image or a log dump of 128..300 KB goes through the codecs on a thread whose stack is 256 KB (a worker thread /
// an RTOS task): nothing in a codec may need memory in proportion to its input other than the output it returns.
struct ThreadJob
{
    Case *c;
    const uint8_t *x;
    size_t n;
    std::exception_ptr err;
};
static void *thread_body(void *arg)
{
    ThreadJob *j = (ThreadJob *)arg;
    try
    {
        check_bytes(*j->c, j->x, j->n);
    }
    catch (...)
    {
        j->err = std::current_exception();
    }
    return nullptr;
}
static void codecs_small_stack(Src &s, Case &c)
{
    size_t n = s.coin() ? (size_t)s.range(140000, 300000) : (size_t)s.pick<uint32_t>({131072, 200000, 262143, 262144, 262145, 300000});
    size_t plen = (size_t)s.range(1, 16);
    uint8_t pat[16];
    for (size_t i = 0; i < plen; i++)
        pat[i] = s.u8();
    std::vector<uint8_t> x(n);
    for (size_t i = 0; i < n; i++)
        x[i] = (uint8_t)(pat[i % plen] + (uint8_t)(i / 64) * 37u + (uint8_t)(i >> 16) * 11u);
    c.log("n=%zu on a thread with a 256 KB stack, pattern=%s", n, hexdump(pat, plen, 16).c_str());
    c.nontrivial = true;
    c.label(n % 3 == 0 ? "len%3=0" : n % 3 == 1 ? "len%3=1" : "len%3=2");
    ThreadJob job{&c, x.data(), n, nullptr};
    pthread_attr_t at;
    pthread_attr_init(&at);
    pthread_attr_setstacksize(&at, 256 * 1024);
    pthread_t th;
    VP_CHECK(pthread_create(&th, &at, thread_body, &job) == 0, "harness_thread", "pthread_create failed");
    pthread_join(th, nullptr);
    pthread_attr_destroy(&at);
    if (job.err)
        std::rethrow_exception(job.err);
}
VP_TARGET("codecs_small_stack", codecs_small_stack,
          "byte string of 128 KB .. 300 KB through the hexascii / base64 oracles of 'codecs' on a thread with a 256 KB stack: a codec that needs stack in proportion to its "
          "input ends in a stack overflow (reported by the sanitizer as a crash)");

// --------------------------------------------------------------- enumeration
// quick:    all byte strings of length <= 2 over all 256 bytes, length 3..4 over
//           {00,7F,80,FF,'='}, all 8-bit values (in every byte lane of the wider
//           helpers), all 16-bit values (in every 16-bit lane)
// thorough: length <= 3 over all bytes (every base64 group), 4..6 over the
//           reduced alphabet
static const uint8_t ralpha[5] = {0x00, 0x7F, 0x80, 0xFF, '='};
static int full_len(int tier) { return tier ? 3 : 2; }
static int red_len(int tier) { return tier ? 6 : 4; }
static uint64_t ipow(uint64_t b, int e)
{
    uint64_t r = 1;
    while (e-- > 0)
        r *= b;
    return r;
}
static uint64_t space_full(int tier)
{
    uint64_t t = 0;
    for (int l = 0; l <= full_len(tier); l++)
        t += ipow(256, l);
    return t;
}
static uint64_t space_red(int tier)
{
    uint64_t t = 0;
    for (int l = full_len(tier) + 1; l <= red_len(tier); l++)
        t += ipow(5, l);
    return t;
}
static unsigned __int128 codecs_enum_size(int tier)
{
    return space_full(tier) + space_red(tier) + 256 + 65536;
}
static void codecs_enum(Src &s, Case &c)
{
    int t = tier();
    uint64_t k = s.below((uint64_t)codecs_enum_size(t));
    uint8_t x[8];
    size_t n = 0;
    if (k < space_full(t))
    {
        uint64_t p = 1;
        while (k >= p)
        {
            k -= p;
            p *= 256;
            n++;
        }
        for (size_t i = 0; i < n; i++)
        {
            x[i] = (uint8_t)k;
            k >>= 8;
        }
        c.label("all_bytes");
    }
    else if ((k -= space_full(t)) < space_red(t))
    {
        n = (size_t)full_len(t) + 1;
        uint64_t p = ipow(5, (int)n);
        while (k >= p)
        {
            k -= p;
            p *= 5;
            n++;
        }
        for (size_t i = 0; i < n; i++)
        {
            x[i] = ralpha[k % 5];
            k /= 5;
        }
        c.label("reduced_alphabet");
    }
    else if ((k -= space_red(t)) < 256)
    {
        uint8_t b = (uint8_t)k;
        c.log("enum uint8 v=%02X (+ every byte lane of uint16/32/64)", b);
        c.label("fixed8");
        c.nontrivial = fixed_nontrivial(b);
        fx8(b);
        for (int lane = 0; lane < 8; lane++)
        {
            uint64_t fill = (lane & 1) ? 0 : ~0ull; // other lanes all-zero / all-one
            uint64_t m = 0xffull << (8 * lane);
            fx64((fill & ~m) | ((uint64_t)b << (8 * lane)));
            if (lane < 4)
                fx32((uint32_t)((fill & ~m) | ((uint64_t)b << (8 * lane))));
            if (lane < 2)
                fx16((uint16_t)((fill & ~m) | ((uint64_t)b << (8 * lane))));
        }
        return;
    }
    else
    {
        k -= 256;
        uint16_t v = (uint16_t)k;
        c.log("enum uint16 v=%04X (+ every 16-bit lane of uint32/64)", v);
        c.label("fixed16");
        c.nontrivial = fixed_nontrivial(v);
        fx16(v);
        for (int lane = 0; lane < 4; lane++)
        {
            uint64_t fill = (lane & 1) ? ~0ull : 0;
            uint64_t m = 0xffffull << (16 * lane);
            fx64((fill & ~m) | ((uint64_t)v << (16 * lane)));
            if (lane < 2)
                fx32((uint32_t)((fill & ~m) | ((uint64_t)v << (16 * lane))));
        }
        return;
    }
    c.log("enum n=%zu x=%s", n, hexdump(x, n).c_str());
    classify_bytes(c, x, n);
    check_bytes(c, x, n);
}
VP_TARGET("codecs_enum", codecs_enum,
          "exhaustive: every byte string of length <=2 (thorough <=3) over all 256 bytes and of length "
          "3..4 (thorough 4..6) over {00,7F,80,FF,'='} through all codecs; every 8-bit value in every "
          "byte lane and every 16-bit value in every 16-bit lane of the fixed-width helpers; "
          "non-trivial as for codecs / fixed",
          codecs_enum_size);
