// C04 — gstuff framing is lossless: decode(encode(p)) == p for every payload.
// Targets: gstuff_cfg (both alphabets), gstuff_legacy, gstuff_enum.
#include "gstuff_cfg_impl.h"
#include <igris/iovec.h>

using namespace vpbt;
using namespace gs;

namespace
{

Bytes gen_payload(Src &s, Case &c, const Alphabet &a, size_t maxlen)
{
    size_t n;
    switch (s.weighted({3, 3, 2, 1}))
    {
    case 0:
        n = (size_t)s.range(0, 4);
        break;
    case 1:
        n = (size_t)s.range(0, 24);
        break;
    case 2:
        n = (size_t)s.range(0, 100);
        break;
    default:
        n = (size_t)s.range(0, (int64_t)maxlen);
    }
    Bytes p(n);
    const uint8_t marks[6] = {a.start, a.stop, a.stub, a.c_start, a.c_stop, a.c_stub};
    int style = (int)s.weighted({3, 3, 2, 2});
    for (size_t i = 0; i < n; i++)
    {
        switch (style)
        {
        case 0:
            p[i] = s.u8();
            break;
        case 1:
            p[i] = marks[s.below(6)];
            break;
        case 2:
            p[i] = s.below(3) == 0 ? marks[s.below(6)] : (uint8_t)('a' + s.below(3));
            break;
        default:
            p[i] = i ? (s.below(4) == 0 ? s.u8() : p[i - 1]) : s.u8(); // runs
        }
    }
    // CRC-steered: solve the last byte so that the CRC-8 is a marker / the escape byte
    if (n > 0 && s.below(3) == 0)
    {
        uint8_t want = marks[s.below(3)];
        uint8_t head = crc8(p.data(), n - 1);
        for (int b = 0; b < 256; b++)
        {
            uint8_t bb = (uint8_t)b;
            if (crc8(&bb, 1, head) == want)
            {
                p[n - 1] = bb;
                break;
            }
        }
    }
    uint8_t crc = crc8(p.data(), n);
    if (crc == a.start || crc == a.stop || crc == a.stub)
        c.label("crc_is_marker");
    if (n == 0)
        c.label("empty");
    bool any = false, all = n > 0;
    for (uint8_t b : p)
    {
        bool m = b == a.start || b == a.stop || b == a.stub;
        any |= m;
        all &= m;
    }
    if (all)
        c.label("all_markers");
    if (any || crc == a.start || crc == a.stop || crc == a.stub)
        c.nontrivial = true;
    return p;
}

void check_frame_shape(const Alphabet &a, const Bytes &payload, const uint8_t *f, size_t flen, const char *who)
{
    size_t n = payload.size();
    Bytes want = ref_frame(a, payload);
    VP_CHECK(flen <= 2 * n + 4, "frame_too_long", "%s: frame of %zu bytes for a payload of %zu (> 2n+4)", who, flen, n);
    VP_CHECK(flen >= 3 && f[0] == a.start, "frame_start", "%s: frame does not begin with the start marker", who);
    VP_CHECK(f[flen - 1] == a.stop, "frame_stop", "%s: frame does not end with the stop marker", who);
    for (size_t i = 1; i + 1 < flen; i++)
    {
        VP_CHECK(f[i] != a.start && f[i] != a.stop, "frame_raw_marker", "%s: unescaped marker 0x%02x at offset %zu of %s", who, f[i], i,
                 hexdump(f, flen, 80).c_str());
        if (f[i] == a.stub)
        {
            VP_CHECK(i + 2 < flen && (f[i + 1] == a.c_start || f[i + 1] == a.c_stop || f[i + 1] == a.c_stub), "frame_bad_escape",
                     "%s: escape byte followed by 0x%02x at offset %zu", who, f[i + 1], i);
            i++;
        }
    }
    VP_CHECK(flen == want.size() && memcmp(f, want.data(), flen) == 0, "frame_bytes", "%s: frame %s, reference %s", who, hexdump(f, flen, 80).c_str(),
             hexdump(want.data(), want.size(), 80).c_str());
}

// feed a frame byte by byte: CONTINUE until the last byte, NEWPACKAGE on it, content == payload
void check_decode(Receiver &rx, const Bytes &frame, const Bytes &payload, const char *who, int round)
{
    for (size_t i = 0; i < frame.size(); i++)
    {
        Status st = rx.feed(frame[i]);
        if (i + 1 < frame.size())
            VP_CHECK(st == S_CONTINUE, "decode_early_status", "%s (frame %d): status %s at byte %zu of %zu (%s)", who, round, status_name(st), i,
                     frame.size(), hexdump(frame.data(), frame.size(), 80).c_str());
        else
            VP_CHECK(st == S_NEWPACKAGE, "decode_no_packet", "%s (frame %d): status %s on the last byte of %s", who, round, status_name(st),
                     hexdump(frame.data(), frame.size(), 80).c_str());
    }
    Bytes got = rx.packet();
    VP_CHECK(got == payload, "decode_content", "%s (frame %d): delivered %s (%zu bytes), payload %s (%zu bytes)", who, round,
             hexdump(got.data(), got.size(), 60).c_str(), got.size(), hexdump(payload.data(), payload.size(), 60).c_str(), payload.size());
}

// the *_bigcap targets: receiver buffers of 64 KiB and more (capacities that do not fit 16 bits), mostly with ordinary
// payloads, sometimes with a payload of about 65536 bytes
static bool g_bigcap = false;
struct BigCap
{
    BigCap() { g_bigcap = true; }
    ~BigCap() { g_bigcap = false; }
};
static void stretch(Src &s, Bytes &payload)
{
    if (s.below(6) != 0)
        return;
    if (payload.empty())
        payload.push_back('a');
    size_t want = (size_t)s.range(65500, 66100);
    Bytes unit = payload;
    while (payload.size() < want)
        payload.insert(payload.end(), unit.begin(), unit.begin() + (long)std::min(unit.size(), want - payload.size()));
}

void run_cfg(Src &s, Case &c, const Alphabet &a, const Bytes &payload, const Bytes &second)
{
    size_t n = payload.size();
    gstuff_context ctx = ctx_of(a);
    Bytes ref = ref_frame(a, payload);
    // caller-buffer encoder into a block of exactly the stuffed length
    Exact in(payload.data(), n);
    Bytes frame;
    {
        Exact out(ref.size());
        int len = gstuffing(in.c(), n, out.c(), ctx);
        VP_CHECK(len == (int)ref.size(), "encode_length", "gstuffing returned %d, stuffed length is %zu", len, ref.size());
        check_frame_shape(a, payload, out.p, (size_t)len, "gstuffing");
        frame.assign(out.p, out.p + len);
    }
    // scatter-gather: random partition into 1..6 pieces (empty pieces included)
    {
        int pieces = (int)s.range(1, 6);
        std::vector<size_t> cuts;
        for (int i = 0; i < pieces - 1; i++)
            cuts.push_back((size_t)s.below(n + 1));
        cuts.push_back(0);
        cuts.push_back(n);
        std::sort(cuts.begin(), cuts.end());
        std::vector<std::unique_ptr<Exact>> blocks;
        std::vector<iovec> vec;
        c.log(" iov=");
        for (size_t i = 0; i + 1 < cuts.size(); i++)
        {
            size_t l = cuts[i + 1] - cuts[i];
            blocks.push_back(std::make_unique<Exact>(payload.data() + cuts[i], l));
            iovec v;
            v.iov_base = blocks.back()->p;
            v.iov_len = l;
            vec.push_back(v);
            c.log("%zu,", l);
        }
        if (vec.size() > 1)
            c.label("multi_iov");
        Exact out(ref.size());
        int len = gstuffing_v(vec.data(), vec.size(), out.c(), ctx);
        VP_CHECK(len == (int)frame.size() && memcmp(out.p, frame.data(), frame.size()) == 0, "encode_iov_differs",
                 "gstuffing_v over %zu pieces gives %s, gstuffing gives %s", vec.size(), hexdump(out.p, (size_t)std::max(len, 0), 80).c_str(),
                 hexdump(frame.data(), frame.size(), 80).c_str());
        // self-sizing overloads (ASan watches their own buffer)
        std::vector<uint8_t> v1 = gstuffing_v(vec.data(), vec.size(), ctx);
        VP_CHECK(v1 == frame, "encode_vector_iov_differs", "vector gstuffing_v differs from the caller-buffer variant");
        if (n == 0)
        {
            // the empty payload given as no pieces at all (an empty iovec array): the same frame
            c.label("zero_pieces");
            std::vector<iovec> none;
            iovec unused[1] = {{nullptr, 0}};
            Exact out0(ref.size());
            int len0 = gstuffing_v(none.data(), 0, out0.c(), ctx);
            VP_CHECK(len0 == (int)frame.size() && memcmp(out0.p, frame.data(), frame.size()) == 0, "encode_iov_differs",
                     "gstuffing_v over 0 pieces gives %s, gstuffing of the empty payload gives %s", hexdump(out0.p, (size_t)std::max(len0, 0), 80).c_str(),
                     hexdump(frame.data(), frame.size(), 80).c_str());
            std::vector<uint8_t> w0 = gstuffing_v(none.data(), 0, ctx), w1 = gstuffing_v(unused, 0, ctx);
            VP_CHECK(w0 == frame && w1 == frame, "encode_vector_iov_differs", "vector gstuffing_v over 0 pieces gives %zu / %zu bytes, the empty payload's frame has %zu",
                     w0.size(), w1.size(), frame.size());
        }
    }
    {
        std::vector<uint8_t> v2 = gstuffing(igris::buffer(in.c(), n), ctx);
        VP_CHECK(v2 == frame, "encode_vector_differs", "vector gstuffing differs from the caller-buffer variant");
    }
    // decode with a receiver whose buffer is just large enough .. generous
    size_t need = std::max(n, second.size()) + 2;
    size_t cap = need + (s.coin() ? 0 : (size_t)s.range(0, 62));
    if (g_bigcap)
        cap = std::max(need, (size_t)s.pick<uint32_t>({65535, 65536, 65537, 65538, 70000, 131072, 131073, 196608}));
    c.log(" cap=%zu", cap);
    auto rx = make_cfg_receiver(a, cap);
    check_decode(*rx, frame, payload, "receiver", 1);
    // the same receiver takes a second frame (state fully reset)
    check_decode(*rx, ref_frame(a, second), second, "receiver", 2);
}

void t_cfg(Src &s, Case &c)
{
    bool v0 = s.coin();
    const Alphabet &a = v0 ? kV0 : kV1;
    c.label(v0 ? "alphabet_v0" : "alphabet_v1");
    Bytes payload = gen_payload(s, c, a, tier() ? 4096 : 300);
    Case dummy;
    dummy.want_desc = false;
    Bytes second = gen_payload(s, dummy, a, 40);
    c.log("%s payload[%zu]=%s second[%zu]=%s", v0 ? "v0" : "v1", payload.size(), hexdump(payload.data(), payload.size(), 64).c_str(), second.size(),
          hexdump(second.data(), second.size(), 24).c_str());
    run_cfg(s, c, a, payload, second);
}

// Mostly plain payloads: ordinary text / zeros of 100..300 bytes (127..129 and 255..257 over-weighted) with no, one or two
// marker bytes at drawn places (the very first, the very last, the last but one, the middle, anywhere).
Bytes gen_sparse_payload(Src &s, Case &c, const Alphabet &a)
{
    size_t n = s.coin() ? (size_t)s.pick<uint32_t>({127, 128, 129, 130, 192, 255, 256, 257}) : (size_t)s.range(100, 300);
    uint8_t fill = s.pick<uint8_t>({'a', 'x', 0x00, 0x20, 0xFF, 0x55});
    if (fill == a.start || fill == a.stop || fill == a.stub)
        fill = 'a';
    Bytes p(n, fill);
    if (s.coin())
        for (size_t i = 0; i < n; i++)
            p[i] = (uint8_t)('a' + (i * 7) % 23);
    const uint8_t marks[3] = {a.start, a.stop, a.stub};
    int k = (int)s.below(3);
    for (int j = 0; j < k; j++)
    {
        size_t at;
        switch (s.below(5))
        {
        case 0:
            at = 0;
            break;
        case 1:
            at = n - 1;
            break;
        case 2:
            at = n - 2;
            break;
        case 3:
            at = n / 2;
            break;
        default:
            at = (size_t)s.below(n);
        }
        p[at] = marks[s.below(3)];
        c.label(at == n - 1 ? "marker_last" : at == 0 ? "marker_first" : "marker_inside");
    }
    if (k == 0)
        c.label("no_marker");
    return p;
}
void t_cfg_sparse(Src &s, Case &c)
{
    bool v0 = s.coin();
    const Alphabet &a = v0 ? kV0 : kV1;
    c.label(v0 ? "alphabet_v0" : "alphabet_v1");
    Bytes payload = gen_sparse_payload(s, c, a);
    Case dummy;
    dummy.want_desc = false;
    Bytes second = gen_payload(s, dummy, a, 40);
    c.log("%s sparse payload[%zu]=%s ... %s", v0 ? "v0" : "v1", payload.size(), hexdump(payload.data(), 8, 8).c_str(),
          hexdump(payload.data() + payload.size() - 8, 8, 8).c_str());
    c.nontrivial = true;
    run_cfg(s, c, a, payload, second);
}

void t_cfg_bigcap(Src &s, Case &c)
{
    BigCap bc;
    bool v0 = s.coin();
    const Alphabet &a = v0 ? kV0 : kV1;
    c.label(v0 ? "alphabet_v0" : "alphabet_v1");
    Bytes payload = gen_payload(s, c, a, 300);
    stretch(s, payload);
    Case dummy;
    dummy.want_desc = false;
    Bytes second = gen_payload(s, dummy, a, 40);
    c.log("%s payload[%zu]=%s second[%zu]", v0 ? "v0" : "v1", payload.size(), hexdump(payload.data(), payload.size(), 64).c_str(), second.size());
    if (payload.size() > 65000)
        c.label("payload>65000");
    c.nontrivial = true;
    run_cfg(s, c, a, payload, second);
}

// A frame that is cut off (anywhere; half of the time right after an escape byte) and then the complete frame of
// another payload, into the same receiver. Alphabet v1 only: with distinct markers a start marker opens a fresh frame
// whatever came before, so the complete frame must be delivered exactly as if it were alone.
void t_cfg_resume(Src &s, Case &c)
{
    const Alphabet &a = kV1;
    Case dummy;
    dummy.want_desc = false;
    Bytes first = gen_payload(s, dummy, a, 40);
    Bytes payload = gen_payload(s, c, a, 120);
    Bytes f1 = ref_frame(a, first), f2 = ref_frame(a, payload);
    size_t cut = (size_t)s.below(f1.size()); // 0 .. size-1: never the whole frame
    if (s.coin())
    {
        // move the cut to just behind an escape byte, if the frame has one
        for (size_t i = 0; i < f1.size(); i++)
        {
            size_t j = (cut + i) % f1.size();
            if (j > 0 && f1[j - 1] == a.stub)
            {
                cut = j;
                c.label("cut_after_escape_byte");
                break;
            }
        }
    }
    c.log("v1 aborted frame %s (first %zu of %zu bytes) then payload[%zu]=%s", hexdump(f1.data(), cut, 48).c_str(), cut, f1.size(), payload.size(),
          hexdump(payload.data(), payload.size(), 48).c_str());
    c.nontrivial = cut >= 2;
    size_t cap = std::max(first.size(), payload.size()) + 2 + (size_t)s.below(8);
    auto rx = make_cfg_receiver(a, cap);
    for (size_t i = 0; i < cut; i++)
    {
        Status st = rx->feed(f1[i]);
        VP_CHECK(st != S_NEWPACKAGE, "resume_early_packet", "a packet was reported inside a cut-off frame (byte %zu)", i);
    }
    // the complete frame: its first byte (START) may be answered with a restart notice, everything after it is judged
    for (size_t i = 0; i < f2.size(); i++)
    {
        Status st = rx->feed(f2[i]);
        if (i + 1 == f2.size())
            VP_CHECK(st == S_NEWPACKAGE, "resume_no_packet", "complete frame after a cut-off one: status %s on its last byte (%s then %s)", status_name(st),
                     hexdump(f1.data(), cut, 48).c_str(), hexdump(f2.data(), f2.size(), 60).c_str());
        else
            VP_CHECK(st != S_NEWPACKAGE, "resume_early_packet", "packet reported at byte %zu of %zu of the complete frame", i, f2.size());
    }
    Bytes got = rx->packet();
    VP_CHECK(got == payload, "resume_content", "after a cut-off frame the receiver delivered %s, the frame carries %s", hexdump(got.data(), got.size(), 60).c_str(),
             hexdump(payload.data(), payload.size(), 60).c_str());
}

void run_legacy(Src &s, Case &c, const Bytes &payload, const Bytes &second)
{
    size_t n = payload.size();
    Bytes ref = ref_frame(kV0, payload);
    Exact in(payload.data(), n);
    Exact out(ref.size());
    int len = legacy_encode(in.p, (int)n, out.p);
    VP_CHECK(len == (int)ref.size(), "encode_length", "gstuffing_v1 returned %d, stuffed length is %zu", len, ref.size());
    check_frame_shape(kV0, payload, out.p, (size_t)len, "gstuffing_v1");
    Bytes frame(out.p, out.p + len);
    size_t need = std::max(n, second.size()) + 2;
    size_t cap = need + (s.coin() ? 0 : (size_t)s.range(0, 62));
    if (g_bigcap)
        cap = std::max(need, (size_t)s.pick<uint32_t>({65535, 65536, 65537, 65538, 70000, 131072, 131073, 196608}));
    c.log(" cap=%zu", cap);
    auto rx = make_legacy_receiver(cap);
    check_decode(*rx, frame, payload, "legacy receiver", 1);
    check_decode(*rx, ref_frame(kV0, second), second, "legacy receiver", 2);
}

void t_legacy(Src &s, Case &c)
{
    Bytes payload = gen_payload(s, c, kV0, tier() ? 4096 : 300);
    Case dummy;
    dummy.want_desc = false;
    Bytes second = gen_payload(s, dummy, kV0, 40);
    c.log("legacy payload[%zu]=%s second[%zu]=%s", payload.size(), hexdump(payload.data(), payload.size(), 64).c_str(), second.size(),
          hexdump(second.data(), second.size(), 24).c_str());
    run_legacy(s, c, payload, second);
}

void t_legacy_bigcap(Src &s, Case &c)
{
    BigCap bc;
    Bytes payload = gen_payload(s, c, kV0, 300);
    stretch(s, payload);
    Case dummy;
    dummy.want_desc = false;
    Bytes second = gen_payload(s, dummy, kV0, 40);
    c.log("legacy payload[%zu]=%s second[%zu]", payload.size(), hexdump(payload.data(), payload.size(), 64).c_str(), second.size());
    if (payload.size() > 65000)
        c.label("payload>65000");
    c.nontrivial = true;
    run_legacy(s, c, payload, second);
}

// exhaustive: payloads of length <= 3 (quick) / <= 5 (thorough) over the seven symbols
// {START, STOP, STUB, three codes, 'a'} x {v1, v0, legacy}, every two-piece iovec split
uint64_t npayloads(int L)
{
    uint64_t t = 0, p = 1;
    for (int l = 0; l <= L; l++)
    {
        t += p;
        p *= 7;
    }
    return t;
}
unsigned __int128 enum_size(int tier) { return npayloads(tier ? 5 : 3) * 3; }
void t_enum(Src &s, Case &c)
{
    uint64_t k = s.below((uint64_t)enum_size(tier()));
    int which = (int)(k % 3);
    k /= 3;
    const Alphabet &a = which == 0 ? kV1 : kV0;
    const uint8_t sym[7] = {a.start, a.stop, a.stub, a.c_start, a.c_stop, a.c_stub, 'a'};
    size_t n = 0;
    uint64_t p = 1;
    while (k >= p)
    {
        k -= p;
        p *= 7;
        n++;
    }
    Bytes payload(n);
    for (size_t i = 0; i < n; i++)
    {
        payload[i] = sym[k % 7];
        k /= 7;
    }
    c.log("enum %s payload=%s", which == 0 ? "v1" : which == 1 ? "v0" : "legacy", hexdump(payload.data(), n).c_str());
    c.nontrivial = true;
    c.label(which == 0 ? "alphabet_v1" : which == 1 ? "alphabet_v0" : "legacy");
    Bytes second = {'a', a.stub};
    // a fixed choice source: the enumeration covers payloads, the split/capacity are fixed by zeros
    static const uint8_t zeros[8] = {0};
    Src fixed(zeros, sizeof zeros);
    if (which == 2)
        run_legacy(fixed, c, payload, second);
    else
        run_cfg(fixed, c, a, payload, second);
}

} // namespace

VP_TARGET("gstuff_cfg_resume", t_cfg_resume,
          "configurable codec, alphabet v1: an encoded frame cut off at any byte (half of the time right behind an escape byte) followed, in the same receiver, "
          "by the complete frame of another payload — which must be delivered on its last byte with exactly its payload; non-trivial = at least two bytes of the first frame were fed");
VP_TARGET("gstuff_cfg_sparse", t_cfg_sparse,
          "configurable codec on mostly plain payloads of 100..300 bytes (127..130, 192, 255..257 over-weighted): one fill byte or running text with 0..2 marker bytes at the first, "
          "last, last-but-one, middle or a drawn position; encoders, iovec partitions, self-sizing overloads and receiver as in gstuff_cfg");
VP_TARGET("gstuff_cfg_bigcap", t_cfg_bigcap,
          "configurable codec with receiver capacities 65535, 65536, 65537, 65538, 70000, 131072, 131073, 196608 (larger than 16 bits hold): "
          "payloads 0..300 as in gstuff_cfg, one in six stretched to 65500..66100 bytes; same oracle");
VP_TARGET("gstuff_legacy_bigcap", t_legacy_bigcap, "legacy C codec with the same 64 KiB-and-larger receiver capacities and payloads");
VP_TARGET("gstuff_cfg", t_cfg,
          "configurable codec, both marker alphabets: payload 0..300 (4096 in thorough) bytes from uniform / marker-only / "
          "marker-heavy / run styles, last byte optionally solved so the CRC-8 is itself a marker; random iovec partition "
          "into 1..6 pieces; receiver capacity n+2..n+64; oracle = reference frame bytes, shape, 2n+4 bound, all encoder "
          "variants agree, byte-by-byte decode delivers exactly the payload on the last byte, twice; non-trivial = payload or "
          "CRC needs escaping");
VP_TARGET("gstuff_legacy", t_legacy,
          "legacy C codec (gstuffing_v1 / gstuff_autorecv_newchar_v1): same payload generator and oracle (delivered content = "
          "raw line minus its CRC byte)");
VP_TARGET("gstuff_enum", t_enum,
          "exhaustive: every payload of length <= 3 (quick) / <= 5 (thorough) over {START,STOP,STUB,3 codes,'a'} x {v1, v0, legacy}",
          enum_size);
