// C17 — CRC routines equal their mathematical definitions and read only the
// given bytes. Targets: crc (random), crc_enum (exhaustive small spaces).
#include "vpbt.h"
#include <vector>
#include <igris/util/crc.h>

using namespace vpbt;

// ---------------------------------------------------------------- references
// CRC-8 poly 0x31, MSB first (the streaming CRC gstuff uses)
static uint8_t ref_crc8_31(const uint8_t *p, size_t n, uint8_t crc)
{
    for (size_t i = 0; i < n; i++)
    {
        for (int b = 7; b >= 0; b--)
        {
            int in = (p[i] >> b) & 1;
            int top = (crc >> 7) & 1;
            crc = (uint8_t)(crc << 1);
            if (top ^ in)
                crc ^= 0x31;
        }
    }
    return crc;
}
// Dallas/Maxim CRC-8: poly x^8+x^5+x^4+1, reflected (0x8C), LSB first
static uint8_t ref_crc8_dallas(const uint8_t *p, size_t n, uint8_t crc)
{
    for (size_t i = 0; i < n; i++)
        for (int b = 0; b < 8; b++)
        {
            int in = (p[i] >> b) & 1;
            int low = crc & 1;
            crc >>= 1;
            if (low ^ in)
                crc ^= 0x8C;
        }
    return crc;
}
// CRC-16/CCITT poly 0x1021 MSB first
static uint16_t ref_crc16(const uint8_t *p, size_t n, uint16_t crc)
{
    for (size_t i = 0; i < n; i++)
        for (int b = 7; b >= 0; b--)
        {
            int in = (p[i] >> b) & 1;
            int top = (crc >> 15) & 1;
            crc = (uint16_t)(crc << 1);
            if (top ^ in)
                crc ^= 0x1021;
        }
    return crc;
}
// CRC-7/MMC poly x^7+x^3+1 (0x09), init 0, MSB first
static uint8_t ref_crc7(const uint8_t *p, size_t n)
{
    uint8_t crc = 0; // 7 bits
    for (size_t i = 0; i < n; i++)
        for (int b = 7; b >= 0; b--)
        {
            int in = (p[i] >> b) & 1;
            int top = (crc >> 6) & 1;
            crc = (uint8_t)((crc << 1) & 0x7f);
            if (top ^ in)
                crc ^= 0x09;
        }
    return crc;
}
// CRC-32 poly 0x04C11DB7, MSB first, over little-endian 32-bit words, the
// last word zero-padded (the definition pinned by "HelloWorld" -> 1114288986).
static uint32_t ref_crc32(const uint8_t *p, size_t n, uint32_t crc)
{
    for (size_t i = 0; i < n; i += 4)
    {
        uint32_t w = 0;
        for (size_t j = 0; j < 4 && i + j < n; j++)
            w |= (uint32_t)p[i + j] << (8 * j);
        crc ^= w;
        for (int b = 0; b < 32; b++)
            crc = (crc & 0x80000000u) ? (crc << 1) ^ 0x04C11DB7u : (crc << 1);
    }
    return crc;
}

static uint8_t strm(const uint8_t *p, size_t n, uint8_t crc)
{
    for (size_t i = 0; i < n; i++)
        igris_strmcrc8(&crc, (char)p[i]);
    return crc;
}

// A message of n bytes placed at offset `off` of a 16-aligned block that ends
// exactly at the last message byte.
struct Placed
{
    Exact blk;
    uint8_t *d;
    size_t n;
    Placed(const uint8_t *src, size_t n_, size_t off) : blk(off + n_), d(blk.p + off), n(n_)
    {
        if (n_)
            memcpy(d, src, n_);
    }
};

static void check_all(Case &c, const uint8_t *msg, size_t n, size_t off, uint32_t seed,
                      size_t split)
{
    Placed m(msg, n, off);
    uint8_t s8 = (uint8_t)seed;
    uint16_t s16 = (uint16_t)seed;

    // streaming CRC-8
    uint8_t a = strm(m.d, n, s8), ra = ref_crc8_31(msg, n, s8);
    VP_CHECK(a == ra, "strmcrc8_value", "strmcrc8=%02x ref=%02x", a, ra);
    {
        // residue: message followed by its own CRC gives 0
        uint8_t r = a;
        igris_strmcrc8(&r, (char)a);
        VP_CHECK(r == 0, "strmcrc8_residue", "residue=%02x", r);
    }
    // Dallas: bit-serial and table
    if (n <= 255)
    {
        uint8_t b = igris_crc8(m.d, (uint8_t)n, s8);
        uint8_t t = igris_crc8_table(m.d, (uint8_t)n, s8);
        uint8_t rb = ref_crc8_dallas(msg, n, s8);
        VP_CHECK(b == t, "crc8_vs_table", "crc8=%02x table=%02x", b, t);
        VP_CHECK(b == rb, "crc8_value", "crc8=%02x ref=%02x", b, rb);
        uint8_t mid = igris_crc8(m.d, (uint8_t)split, s8);
        Placed tail(msg + split, n - split, (off + split) & 7);
        VP_CHECK(igris_crc8(tail.d, (uint8_t)(n - split), mid) == b, "crc8_chain",
                 "split=%zu", split);
        mid = igris_crc8_table(m.d, (uint8_t)split, s8);
        VP_CHECK(igris_crc8_table(tail.d, (uint8_t)(n - split), mid) == t, "crc8_table_chain",
                 "split=%zu", split);
        uint8_t c7 = igris_mmc_crc7(m.d, (uint8_t)n), r7 = ref_crc7(msg, n);
        VP_CHECK(c7 == r7, "crc7_value", "crc7=%02x ref=%02x", c7, r7);
    }
    if (n <= 65535)
    {
        uint16_t v = igris_crc16(m.d, (uint16_t)n, s16), r = ref_crc16(msg, n, s16);
        VP_CHECK(v == r, "crc16_value", "crc16=%04x ref=%04x", v, r);
        uint16_t mid = igris_crc16(m.d, (uint16_t)split, s16);
        Placed tail(msg + split, n - split, (off + split) & 7);
        VP_CHECK(igris_crc16(tail.d, (uint16_t)(n - split), mid) == v, "crc16_chain",
                 "split=%zu", split);
    }
    {
        uint32_t v = igris_crc32(m.d, (uint32_t)n, seed), r = ref_crc32(msg, n, seed);
        VP_CHECK(v == r, "crc32_value", "crc32=%08x ref=%08x", v, r);
        // composes at word-aligned split points only (the tail is zero-padded)
        size_t ws = split & ~(size_t)3;
        uint32_t mid = igris_crc32(m.d, (uint32_t)ws, seed);
        Placed tail(msg + ws, n - ws, (off + ws) & 7);
        VP_CHECK(igris_crc32(tail.d, (uint32_t)(n - ws), mid) == v, "crc32_chain",
                 "word split=%zu", ws);
    }
    // a buffer changed in place and checksummed again (a sequence number bumped, a retry counter set): the second call, with
    // the same pointer, length and seed, answers for the bytes that are there now
    if (n >= 1)
    {
        size_t at = split < n ? split : n - 1;
        std::vector<uint8_t> msg2(msg, msg + n);
        msg2[at] = (uint8_t)(msg2[at] + 1 + (seed & 0x3f));
        uint8_t *d = m.d;
        if (n <= 255)
        {
            uint8_t b0 = igris_crc8(d, (uint8_t)n, s8), t0 = igris_crc8_table(d, (uint8_t)n, s8), c0 = igris_mmc_crc7(d, (uint8_t)n);
            d[at] = msg2[at];
            uint8_t b1 = igris_crc8(d, (uint8_t)n, s8), t1 = igris_crc8_table(d, (uint8_t)n, s8), c1 = igris_mmc_crc7(d, (uint8_t)n);
            d[at] = msg[at];
            VP_CHECK(b1 == ref_crc8_dallas(msg2.data(), n, s8) && t1 == b1 && c1 == ref_crc7(msg2.data(), n), "crc_after_in_place_change",
                     "byte %zu changed in place: crc8 %02x->%02x (ref %02x), table %02x->%02x, crc7 %02x->%02x (ref %02x)", at, b0, b1, ref_crc8_dallas(msg2.data(), n, s8), t0, t1,
                     c0, c1, ref_crc7(msg2.data(), n));
        }
        if (n <= 65535)
        {
            uint16_t v0 = igris_crc16(d, (uint16_t)n, s16);
            d[at] = msg2[at];
            uint16_t v1 = igris_crc16(d, (uint16_t)n, s16);
            d[at] = msg[at];
            VP_CHECK(v1 == ref_crc16(msg2.data(), n, s16), "crc_after_in_place_change", "byte %zu changed in place: crc16 %04x->%04x, ref %04x", at, v0, v1,
                     ref_crc16(msg2.data(), n, s16));
        }
        uint32_t w0 = igris_crc32(d, (uint32_t)n, seed);
        d[at] = msg2[at];
        uint32_t w1 = igris_crc32(d, (uint32_t)n, seed);
        d[at] = msg[at];
        VP_CHECK(w1 == ref_crc32(msg2.data(), n, seed), "crc_after_in_place_change", "byte %zu changed in place: crc32 %08x->%08x, ref %08x", at, w0, w1,
                 ref_crc32(msg2.data(), n, seed));
    }
    // streaming chain
    {
        uint8_t mid = strm(m.d, split, s8);
        VP_CHECK(strm(m.d + split, n - split, mid) == a, "strmcrc8_chain", "split=%zu", split);
    }
    (void)c;
}

static void crc_random(Src &s, Case &c)
{
    static const uint8_t special[] = {0x00, 0x01, 0x80, 0xFF, 0x31, 0x8C};
    size_t n;
    switch (s.weighted({3, 3, 2}))
    {
    case 0:
        n = (size_t)s.range(0, 12);
        break;
    case 1:
        n = (size_t)s.range(0, 64);
        break;
    default:
        n = (size_t)s.range(0, 255);
    }
    size_t off = (size_t)s.below(8);
    uint32_t seed;
    switch (s.below(4))
    {
    case 0:
        seed = 0;
        break;
    case 1:
        seed = 0xFFFFFFFFu;
        break;
    default:
        seed = s.u32();
    }
    size_t split = n ? (size_t)s.below(n + 1) : 0;
    int style = (int)s.below(3);
    std::vector<uint8_t> msg(n);
    for (size_t i = 0; i < n; i++)
        msg[i] = style == 0 ? special[s.below(sizeof special)] : s.u8();
    c.log("n=%zu off=%zu seed=%08x split=%zu msg=%s", n, off, seed, split,
          hexdump(msg.data(), n, 300).c_str());
    if (n >= 2 && (n % 4 != 0 || off % 4 != 0))
        c.nontrivial = true;
    if (n % 4)
        c.label("crc32_tail");
    if (off % 4)
        c.label("misaligned");
    if (n == 0)
        c.label("empty");
    if (n == 255)
        c.label("len255");
    check_all(c, msg.data(), n, off, seed, split);
}
VP_TARGET("crc", crc_random,
          "random message 0..255 bytes at offset 0..7 of an exactly-sized block, random seed and "
          "split; non-trivial = length >= 2 and (length mod 4 != 0 or start not 4-aligned)");

// Long messages: igris_crc16 takes a 16-bit and igris_crc32 a 32-bit length, so lengths beyond 255 are in
// their domain (the 8-bit-length functions are skipped there, igris_crc16 above 65535).
static void crc_long(Src &s, Case &c)
{
    size_t n;
    switch (s.weighted({3, 2, 2, 2, 1}))
    {
    case 0:
        n = (size_t)s.range(256, 300);
        break;
    case 1:
        n = (size_t)s.range(301, 5000);
        break;
    case 2:
        n = (size_t)s.range(65520, 65535);
        break;
    case 3:
        n = (size_t)s.range(65536, 65560);
        break;
    default:
        // 65536 words = 262144 bytes: the word count of igris_crc32 passes 16 bits
        n = s.coin() ? (size_t)s.range(65561, 140000) : (size_t)s.range(262130, 262160);
    }
    size_t off = (size_t)s.below(8);
    uint32_t seed = s.below(3) == 0 ? 0 : s.u32();
    size_t split = s.coin() ? (size_t)s.below(n + 1) : (size_t)s.pick({(size_t)0, (size_t)255, (size_t)256, (size_t)257, n - 256, n - 1, n});
    if (split > n)
        split = n;
    size_t plen = (size_t)s.range(1, 12);
    uint8_t pat[12];
    for (size_t i = 0; i < plen; i++)
        pat[i] = s.u8();
    std::vector<uint8_t> msg(n);
    for (size_t i = 0; i < n; i++)
        msg[i] = (uint8_t)(pat[i % plen] + (uint8_t)(i / 251) * 29u);
    c.log("n=%zu off=%zu seed=%08x split=%zu pattern=%s", n, off, seed, split, hexdump(pat, plen, 12).c_str());
    c.nontrivial = true;
    c.label(n <= 65535 ? "crc16_and_crc32" : "crc32_only");
    if (n % 4)
        c.label("crc32_tail");
    check_all(c, msg.data(), n, off, seed, split);
}
VP_TARGET("crc_long", crc_long,
          "messages of 256..262160 bytes (around 256, 65535/65536, 262144 = 65536 words, and in between; a drawn 1..12 byte pattern varied per "
          "251-byte block) through igris_crc16 (length <= 65535), igris_crc32 and the streaming CRC-8: value against the "
          "bit-serial references and chaining at a random or boundary split; every case is non-trivial");

// exhaustive: all (seed, byte) pairs; all messages of length <= 4 (quick) /
// <= 6 (thorough) over {00,01,80,FF} x seeds {00,FF,5A}
static uint64_t msgs_upto(int L)
{
    uint64_t t = 0, p = 1;
    for (int l = 0; l <= L; l++)
    {
        t += p;
        p *= 4;
    }
    return t;
}
static unsigned __int128 crc_enum_size(int tier)
{
    return 65536 + msgs_upto(tier ? 7 : 5) * 3;
}
static void crc_enum(Src &s, Case &c)
{
    uint64_t total = (uint64_t)crc_enum_size(tier());
    uint64_t k = s.below(total);
    static const uint8_t alpha[4] = {0x00, 0x01, 0x80, 0xFF};
    static const uint32_t seeds[3] = {0, 0xFFFFFFFFu, 0x5A5A5A5Au};
    uint8_t msg[8];
    size_t n;
    uint32_t seed;
    if (k < 65536)
    {
        seed = (uint32_t)(k >> 8) * 0x01010101u;
        msg[0] = (uint8_t)k;
        n = 1;
        c.label("seed_byte_pair");
    }
    else
    {
        k -= 65536;
        seed = seeds[k % 3];
        k /= 3;
        n = 0;
        uint64_t p = 1;
        while (k >= p)
        {
            k -= p;
            p *= 4;
            n++;
        }
        for (size_t i = 0; i < n; i++)
        {
            msg[i] = alpha[k % 4];
            k /= 4;
        }
        c.label("small_alphabet_msg");
    }
    c.log("enum n=%zu seed=%08x msg=%s", n, seed, hexdump(msg, n).c_str());
    c.nontrivial = true;
    for (size_t split = 0; split <= n; split++)
        check_all(c, msg, n, n & 3, seed, split);
}
VP_TARGET("crc_enum", crc_enum,
          "exhaustive: every (seed,byte) pair and every message of length <=5 (quick) / <=7 "
          "(thorough) over {00,01,80,FF} x 3 seeds, every split point",
          crc_enum_size);
