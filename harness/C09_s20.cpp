// C09 — binary serialization, `serializer20` system: igris/serialize/serializer.h
// + binary_protocol (serialize_protocol.h) + storages (serialize_storage.h),
// entry points of serialize_archive.h. Separate TU: serialize_archive.h and
// stdtypes.h (C09.cpp) both define igris::serialize(const T&).
//
// What this system supports at the pinned tree: arithmetic types, std::vector<T>
// (serialize_scheme) and user types with serialize_reflect (const + non-const).
// std::string, std::pair, std::tuple, std::map and vector<bool> do not compile
// (binary_protocol has no dump/load for them, "no matching member function for
// call to 'dump'") and are therefore outside this system's family; char, bool,
// long long and long double do compile here (is_arithmetic) but are not in the
// statement's list of fixed-width types and are left out.
//
// Targets
//   s20        : type from the family x two values; round trip through
//                deserialize_buffer_storage over an exactly-sized block, sequential
//                decoding of the concatenation (avail() after each), byte identity
//                with the reference encoder, both serialize entry points.
//   s20_trunc  : every prefix of an encoding (exactly-sized block) decoded through
//                the bounded reader: any result is fine, a read outside is an ASan
//                failure; plus direct load()/loads() sequences on the storage.
//                (For nested containers only the prefixes that keep the outer
//                counts are run - see run_trunc: the decoder iterates over
//                uninitialised counts otherwise, which the statement does not
//                forbid but which does not finish.)
//   s20_golden : the committed golden-bytes table.
#include "C09_common.h"

#include <igris/serialize/serialize_archive.h>

using namespace vpbt;
using namespace c09;

struct S20Sys
{
    static constexpr const char *name = "serializer20";
    template <class T> static std::string encode(const T &v) { return igris::serialize(v); }
    template <class T> static T decode(Exact &blk, size_t &used)
    {
        igris::deserialize_buffer_storage st(igris::buffer(blk.c(), blk.n));
        T r = igris::deserialize<T>(st);
        used = blk.n - (size_t)st.avail();
        return r;
    }
    template <class T> static bool known_skip(Case &, const T &) { return false; }
};

template <class T> static void run_type(Src &s, Case &c, const char *tname)
{
    TwoValues<T> tv;
    make_case(s, c, tname, tv);
    const T &a = tv.a;
    const T &b = tv.b;

    // (i) round trip through the bounded reader over an exactly-sized block
    std::string ea = igris::serialize(a);
    {
        Exact blk(ea.data(), ea.size());
        igris::deserialize_buffer_storage st(igris::buffer(blk.c(), blk.n));
        T r = igris::deserialize<T>(st);
        VP_CHECK(eq(r, a), "s20_roundtrip", "%s: serialize -> %zu bytes %s -> deserialize gives %s, want %s", tname,
                 ea.size(), hexs(ea).c_str(), show(r).c_str(), show(a).c_str());
        VP_CHECK(st.avail() == 0, "s20_consumed", "%s: %d of %zu bytes left after decoding", tname, st.avail(),
                 ea.size());
    }
    {
        T r = igris::deserialize<T>(ea); // std::string entry point
        VP_CHECK(eq(r, a), "s20_roundtrip_string", "%s: deserialize<T>(std::string) gives %s", tname,
                 show(r).c_str());
    }
    // (ii) a then b from one storage
    std::string eb = igris::serialize(b);
    {
        // two encodings alive at the same time keep their own bytes
        const auto &ra = igris::serialize(a);
        const auto &rb = igris::serialize(b);
        VP_CHECK(std::string(ra) == ea && std::string(rb) == eb, "s20_results_alias", "%s: with both results alive serialize(a) reads %s and serialize(b) reads %s", tname,
                 hexs(std::string(ra)).c_str(), hexs(std::string(rb)).c_str());
        std::string cat2 = igris::serialize(a) + igris::serialize(b);
        VP_CHECK(cat2 == ea + eb, "s20_results_alias", "%s: serialize(a) + serialize(b) gives %s", tname, hexs(cat2).c_str());
    }
    {
        std::string cat = ea + eb;
        Exact blk(cat.data(), cat.size());
        igris::deserialize_buffer_storage st(igris::buffer(blk.c(), blk.n));
        T x = igris::deserialize<T>(st);
        VP_CHECK((size_t)st.avail() == eb.size(), "s20_consumed",
                 "%s: %d bytes left after the first of two values, the second's encoding has %zu (first: %zu bytes)",
                 tname, st.avail(), eb.size(), ea.size());
        VP_CHECK(eq(x, a), "s20_concat_first", "%s: first of two concatenated values decodes to %s", tname,
                 show(x).c_str());
        T y = igris::deserialize<T>(st);
        VP_CHECK(st.avail() == 0, "s20_consumed", "%s: %d bytes left after the second value", tname, st.avail());
        VP_CHECK(eq(y, b), "s20_concat_second", "%s: second of two concatenated values decodes to %s, want %s",
                 tname, show(y).c_str(), show(b).c_str());
    }
    // (iii) wire format
    VP_CHECK(ea == tv.ra, "s20_wire", "%s value %s: serialize gives %zu bytes %s, the documented layout is %zu bytes %s",
             tname, show(a).c_str(), ea.size(), hexs(ea).c_str(), tv.ra.size(), hexs(tv.ra).c_str());
    VP_CHECK(eb == tv.rb, "s20_wire", "%s value %s: serialize gives %zu bytes %s, the documented layout is %zu bytes %s",
             tname, show(b).c_str(), eb.size(), hexs(eb).c_str(), tv.rb.size(), hexs(tv.rb).c_str());
    // serialize(obj, storage): the same bytes appended to a caller-owned storage
    {
        igris::string_storage st;
        igris::serialize(a, st);
        igris::serialize(b, st);
        VP_CHECK(st.storage() == ea + eb, "s20_storage_entry", "%s: serialize(obj, storage) x2 gives %s", tname,
                 hexs(st.storage()).c_str());
    }
}

// ---------------------------------------------------------------- truncation
// Zero the stack area the decoder is about to use. A truncated decode leaves the
// objects it could not fill uninitialised (deserializer::deserialize<T>(): `T obj;`
// then load() copies 0 bytes) and then uses them as element counts; what they
// hold is whatever the stack held (observed: a 1-byte prefix of a 9-byte
// vector<vector<vector<uint8_t>>> encoding does not finish decoding in 20 s).
// The statement allows any *result* and only forbids reads outside the supplied
// bytes, so none of this is judged; zeroing merely removes the residue of earlier
// cases so that most unread counts are 0 and a case stays in the ms range (frames
// written during the same decode still leave their own residue).
__attribute__((noinline)) static void scrub_stack()
{
    volatile char pad[48 * 1024];
    memset((void *)pad, 0, sizeof pad);
    __asm__ volatile("" : : "r"(pad) : "memory");
}

template <class T> static void run_trunc(Src &s, Case &c, const char *tname)
{
    Gen g(s);
    g.maxn = tier() ? 12 : 6;
    g.budget = tier() ? 96 : 40;
    T v{};
    gen(g, v);
    // Cost control, not an oracle: when a prefix cuts off a count that governs elements which
    // carry counts themselves, the decoder iterates over uninitialised counts at two levels
    // (up to 65535 x 65535 push_backs - see the note at scrub_stack). Such prefixes are not run;
    // every prefix that keeps those outer counts is (unread *leaf* counts cost <= 65535 each).
    size_t first = 0;
    enc_outer_count_end = &first;
    std::string ref = enc(v);
    enc_outer_count_end = nullptr;
    c.log("type=%s v=", tname);
    c.log("%s", show(v).c_str());
    c.log(" wire=%zuB#%016llx", ref.size(), (unsigned long long)fnv64(ref));
    c.nontrivial = g.nonempty || depth<T>() >= 2;
    c.label(tname);
    c.label(category<T>());

    std::string e = igris::serialize(v);
    VP_CHECK(e == ref, "s20_wire", "%s value %s: serialize gives %s, documented layout %s", tname, show(v).c_str(),
             hexs(e).c_str(), hexs(ref).c_str());
    size_t n = e.size();
    c.log(" prefixes=%zu..%zu", first, n);
    if (n >= 16)
        c.label("encoding>=16B");
    if (first)
        c.label("nested:prefixes_after_outer_counts");
    else
        c.label("all_prefixes");
    for (size_t L = first; L <= n; L++)
    {
        Exact blk(e.data(), L); // the first L bytes, nothing readable after them
        igris::deserialize_buffer_storage st(igris::buffer(blk.c(), blk.n));
        scrub_stack();
        T r = igris::deserialize<T>(st);
        int left = st.avail();
        VP_CHECK(left >= 0 && (size_t)left <= L, "s20_trunc_avail", "%s: avail()=%d after decoding a %zu-byte prefix",
                 tname, left, L);
        if (L == n)
            VP_CHECK(eq(r, v) && left == 0, "s20_roundtrip", "%s: full-length decode gives %s (avail %d)", tname,
                     show(r).c_str(), left);
    }
}

// direct use of the bounded storage: load()/loads() requests of any size
static void run_storage_ops(Src &s, Case &c, const char *tname)
{
    size_t n = (size_t)s.range(0, 40);
    std::string data(n, 0);
    for (auto &ch : data)
        ch = (char)s.u8();
    Exact blk(data.data(), n);
    igris::deserialize_buffer_storage st(igris::buffer(blk.c(), blk.n));
    c.log("type=%s n=%zu data=%s ops:", tname, n, hexs(data).c_str());
    c.label(tname);
    size_t cur = 0;
    int nops = (int)s.range(1, 8);
    for (int i = 0; i < nops; i++)
    {
        size_t rem = n - cur;
        size_t req;
        switch (s.below(5))
        {
        case 0:
            req = 0;
            break;
        case 1:
            req = rem;
            break;
        case 2:
            req = rem + 1 + (size_t)s.below(8); // more than is left
            break;
        case 3:
            req = (size_t)s.below(rem + 1);
            break;
        default:
            req = (size_t)s.pick<uint32_t>({255, 256, 65535, 65536, 70000});
        }
        size_t want = req < rem ? req : rem;
        if (req > rem)
            c.nontrivial = true;
        if (s.coin())
        {
            c.log(" load(%zu)", req);
            Exact dst(want); // room for exactly the bytes that exist
            st.load(dst.c(), req);
            VP_CHECK(want == 0 || memcmp(dst.p, data.data() + cur, want) == 0, "s20_storage_load_bytes",
                     "load(%zu) at %zu/%zu delivered other bytes", req, cur, n);
        }
        else
        {
            c.log(" loads(%zu)", req);
            std::string got = st.loads(req);
            VP_CHECK(got.size() >= want, "s20_storage_load_bytes", "loads(%zu) returned %zu bytes, %zu were left", req,
                     got.size(), want);
            VP_CHECK(want == 0 || memcmp(got.data(), data.data() + cur, want) == 0, "s20_storage_load_bytes",
                     "loads(%zu) at %zu/%zu delivered other bytes", req, cur, n);
        }
        cur += want;
        VP_CHECK(st.avail() == (int)(n - cur), "s20_storage_avail", "avail()=%d, want %zu", st.avail(), n - cur);
    }
}

// ------------------------------------------------------------- the family
struct Entry
{
    const char *name;
    void (*run)(Src &, Case &, const char *);
    void (*trunc)(Src &, Case &, const char *);
};
#define TY(...)                                                                                                   \
    {                                                                                                                \
        #__VA_ARGS__, &run_type<__VA_ARGS__>, &run_trunc<__VA_ARGS__>                                                \
    }
using std::vector;
static const Entry FAMILY[] = {
    TY(int8_t),
    TY(int16_t),
    TY(int32_t),
    TY(int64_t),
    TY(uint8_t),
    TY(uint16_t),
    TY(uint32_t),
    TY(uint64_t),
    TY(float),
    TY(double),
    TY(vector<uint8_t>),
    TY(vector<int16_t>),
    TY(vector<int32_t>),
    TY(vector<uint64_t>),
    TY(vector<float>),
    TY(vector<double>),
    TY(vector<vector<int16_t>>),
    TY(vector<vector<vector<uint8_t>>>),
    TY(vector<SA>),
    TY(vector<SB>),
    TY(SA),
    TY(SB),
    TY(SC),
};
static const size_t NFAMILY = sizeof FAMILY / sizeof FAMILY[0];

static void s20_target(Src &s, Case &c)
{
    const Entry &e = FAMILY[s.below(NFAMILY)];
    e.run(s, c, e.name);
}
static void s20_defaults_target(Src &s, Case &c)
{
    run_type<SF>(s, c, "SF");
    c.label("defaults_struct");
}
VP_TARGET("s20_defaults", s20_defaults_target,
          "serializer20 on a serialize_reflect struct whose default-constructed members are not empty (int 7, vector<uint8>{AA,55}, vector<double>{1.5}) x two "
          "generated values, empty vectors included: same round trip / consumed / wire format checks as s20");
VP_TARGET("s20", s20_target,
          "type drawn from the 23 members of the family that serializer20 supports (8 fixed-width integers, float, "
          "double, vectors of scalars, vector<vector<int16>>, vector^3<uint8>, vector<struct>, 3 serialize_reflect "
          "structs, depth <= 3) x two generated values (boundary-biased integers, all float bit patterns, sizes 0..20 "
          "with a tail of 255..65535); non-trivial = a value contains a non-empty container or the type nests to "
          "depth >= 2");

static void s20_trunc_target(Src &s, Case &c)
{
    size_t k = (size_t)s.below(NFAMILY + 3); // storage-op sequences get 3 shares
    if (k >= NFAMILY)
        return run_storage_ops(s, c, "storage_ops");
    // scalars have few truncation points: give composites most of the budget
    if (k < 10 && s.chance(2, 3))
        k = 10 + (size_t)s.below(NFAMILY - 10);
    FAMILY[k].trunc(s, c, FAMILY[k].name);
}
VP_TARGET("s20_trunc", s20_trunc_target,
          "value of a family type -> its encoding -> every prefix length 0..n held in an exactly-sized heap block and "
          "decoded through deserialize_buffer_storage (any result accepted, ASan decides), or a sequence of "
          "load()/loads() requests of sizes 0 / remaining / more than remaining / 64K on the storage; non-trivial = "
          "the value has a non-empty container or depth >= 2, or a request exceeds what is left");

// ------------------------------------------------------------ golden bytes
static unsigned __int128 s20_golden_size(int) { return GOLDEN_COMMON; }
static void s20_golden(Src &s, Case &c) { golden_common<S20Sys>((size_t)s.below(GOLDEN_COMMON), c); }
VP_TARGET("s20_golden", s20_golden,
          "every entry of the committed golden-bytes table that serializer20 supports: serialize == recorded bytes, "
          "deserialize(recorded bytes) == value and consumes all of them",
          s20_golden_size);
