// C02 — the igris::vector twin inside std_portable.h (own TU and, as for C14, own
// namespace so that its inline members are not merged with the primary header's).
#include "C02_common.h"
#define igris igris_portable
#include <igris/container/std_portable.h>
#undef igris

using namespace vpbt;

static void pvector_int(Src &s, Case &c) { c02::vec_target<igris_portable::vector<int>, int, c02::ApiPortable>(s, c, "std_portable igris::vector<int>"); }
static void pvector_tracked(Src &s, Case &c)
{
    c02::vec_target<igris_portable::vector<trk::Tracked>, trk::Tracked, c02::ApiPortable>(s, c, "std_portable igris::vector<Tracked>");
}
static void pvector_cmp(Src &s, Case &c) { c02::cmp_target<igris_portable::vector<double>, igris_portable::vector<c02::KeyTag>>(s, c, "std_portable igris::vector"); }
VP_TARGET("portable_vector_cmp", pvector_cmp, "the comparison cases of vector_cmp on the std_portable twin");
static void pvector_tracked_big(Src &s, Case &c)
{
    c02::BigMode bm;
    pvector_tracked(s, c);
}
VP_TARGET("portable_vector_tracked_big", pvector_tracked_big, "the std_portable twin with lifetime-tracking elements and the big-size histories of vector_int_big");
VP_TARGET("portable_vector_int", pvector_int, "the igris::vector twin of std_portable.h with int elements: same histories and reference as vector_int (operations the twin lacks are skipped)");
VP_TARGET("portable_vector_tracked", pvector_tracked, "the igris::vector twin of std_portable.h with lifetime-tracking elements");
static void pvector_nested(Src &s, Case &c)
{
    c02::vec_target<igris_portable::vector<c02::Nest<igris_portable::vector<int>>>, c02::Nest<igris_portable::vector<int>>, c02::ApiPortable>(
        s, c, "std_portable igris::vector<Nest{igris::vector<int>}>");
}
VP_TARGET("portable_vector_nested", pvector_nested, "the std_portable twin with elements that each hold a vector of the twin (vector_nested)");
