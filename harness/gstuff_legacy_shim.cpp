// Legacy C gstuff codec behind plain functions (its header clashes with
// igris/protocols/gstuff.h: same macro names, different values).
#include "gstuff_common.h"
#include <igris/protocols/gstuff_v1/autorecv.h>

namespace gs
{
namespace
{
struct LegacyReceiver : Receiver
{
    std::unique_ptr<vpbt::Exact> buf;
    gstuff_autorecv_v1 rx;
    explicit LegacyReceiver(size_t cap) : buf(new vpbt::Exact(cap))
    {
        memset(&rx, 0, sizeof rx); // the API has no initialiser for `state`
        gstuff_autorecv_setbuf_v1(&rx, buf->p, (int)cap);
    }
    void rearm(size_t cap) override
    {
        std::unique_ptr<vpbt::Exact> nb(new vpbt::Exact(cap));
        gstuff_autorecv_setbuf_v1(&rx, nb->p, (int)cap);
        buf = std::move(nb);
    }
    Status feed(uint8_t c) override
    {
        switch (gstuff_autorecv_newchar_v1(&rx, (char)c))
        {
        case GSTUFF_CONTINUE_V1:
            return S_CONTINUE;
        case GSTUFF_NEWPACKAGE_V1:
            return S_NEWPACKAGE;
        case GSTUFF_CRC_ERROR_V1:
            return S_CRC_ERROR;
        case GSTUFF_OVERFLOW_V1:
            return S_OVERFLOW;
        case GSTUFF_DATA_ERROR_V1:
            return S_STUFFING_ERROR;
        default:
            return S_OTHER;
        }
    }
    size_t size() override { return (size_t)sline_size(&rx.line); }
    size_t raw_len() override { return (size_t)sline_size(&rx.line); }
    Bytes packet() override
    {
        // the legacy API hands out the raw line, CRC byte included
        size_t n = (size_t)sline_size(&rx.line);
        const uint8_t *p = (const uint8_t *)rx.line.buf;
        return n ? Bytes(p, p + n - 1) : Bytes();
    }
};
} // namespace

std::unique_ptr<Receiver> make_legacy_receiver(size_t cap) { return std::make_unique<LegacyReceiver>(cap); }
int legacy_encode(const uint8_t *data, int size, uint8_t *out) { return gstuffing_v1((char *)data, size, (char *)out); }
} // namespace gs
