// C15 — the C++ terminal: vtermxx.cpp + readlinexx.h (own translation unit: vtermxx.h /
// readlinexx.h reuse the include guards of vterm.h / readline.h).
// Targets: vterm_cxx, vterm_cxx_enum.
//
// igris::vtermxx keeps its igris::readline private, so the length/cursor clause is checked on
// a second, stand-alone igris::readline that is fed the same bytes the way vtermxx feeds its
// own (Ctrl-C bypasses it; newline_reset() after a READLINE_NEWLINE and after Ctrl-C).
// All line and history storage is allocated by igris itself (unbounded_array<char> ->
// operator new of exactly cap / cap*depth bytes), which ASan guards just as tightly.
#include "C15_common.h"
#include <igris/shell/vtermxx.h>

using namespace vpbt;
using namespace c15;

namespace
{

void x_write(void *priv, const char *data, unsigned int n) { ((Sink *)priv)->on_write(data, n); }
void x_exec(void *priv, const char *line, unsigned int n) { ((Sink *)priv)->on_exec(line, n); }
void x_signal(void *priv, int sig) { ((Sink *)priv)->on_signal(sig); }

struct XTerm
{
    igris::vtermxx vt;
    igris::readline shadow;
    unsigned cap;
    bool shadow_newline = false; // the shadow returned READLINE_NEWLINE for the last byte
    std::string shadow_line;     // ... and this is what its NUL-terminating accessor gave
    bool shadow_line_ok = true;

    XTerm(unsigned cap_, unsigned H, Sink *sink) { reinit(cap_, H, sink); }
    void set_echo(bool on) { vt.set_echo(on ? 1 : 0); }
    // init() on the same objects: first use, or a new session with another capacity / history depth
    void reinit(unsigned cap_, unsigned H, Sink *sink)
    {
        cap = cap_;
        shadow_newline = false;
        vt.init(cap, H);
        vt.set_write_callback(igris::delegate<void, const char *, unsigned int>(x_write, (void *)sink));
        vt.set_execute_callback(igris::delegate<void, const char *, unsigned int>(x_exec, (void *)sink));
        vt.set_signal_callback(igris::delegate<void, int>(x_signal, (void *)sink));
        shadow.init(cap, H);
        shadow.newline_reset();
    }
    void feed(int16_t ch)
    {
        vt.newdata(ch);
        if (ch < 0)
            return;
        shadow_newline = false;
        if (ch == CTRL_C)
        {
            shadow.newline_reset();
            return;
        }
        int ret = shadow.newdata((char)ch);
        if (ret == READLINE_NEWLINE)
        {
            shadow_newline = true;
            size_t n = shadow.line().current_size();
            if (n < cap)
            {
                const char *g = shadow.line().getline();
                shadow_line_ok = g == shadow.line().data() && strlen(g) == n;
                shadow_line.assign(g, n);
            }
            else
                shadow_line_ok = false;
            shadow.newline_reset();
        }
    }
    long size() { return (long)shadow.line().current_size(); }
    long cursor() { return (long)shadow.line().current_size() - (long)shadow.line().rightsize(); }
    std::string content()
    {
        size_t n = shadow.line().current_size();
        return n < cap ? std::string(shadow.line().data(), n) : std::string();
    }
    void extra_check(const RefEditor &ref, EvKind ev, const char *when)
    {
        check_linecpy(ref.line, [&](char *d, size_t m) { return shadow.linecpy(d, m); }, when);
        VP_CHECK(shadow_newline == (ev == EV_NEWLINE), "readlinexx_newline", "%s: igris::readline %s an end of line, the reference editor %s", when,
                 shadow_newline ? "reported" : "did not report", ev == EV_NEWLINE ? "did" : "did not");
        if (ev == EV_NEWLINE)
            VP_CHECK(shadow_line_ok && shadow_line == ref.execs.back(), "readlinexx_line", "%s: igris::readline finished the line \"%s\", reference \"%s\"", when,
                     shadow_line.c_str(), ref.execs.back().c_str());
        VP_CHECK(shadow.line().storage_size() == cap, "readlinexx_storage", "%s: line storage is %zu bytes, capacity %u", when, shadow.line().storage_size(), cap);
    }
};

void t_vterm_cxx(Src &s, Case &c) { run_terminal<XTerm>(s, c, 0, "vterm_cxx"); }
void t_vterm_cxx_enum(Src &s, Case &c) { run_terminal<XTerm>(s, c, 1, "vterm_cxx"); }
void t_vterm_cxx_long(Src &s, Case &c) { run_terminal<XTerm>(s, c, 2, "vterm_cxx"); }
void t_vterm_cxx_reinit(Src &s, Case &c) { run_terminal<XTerm>(s, c, 3, "vterm_cxx"); }
void t_vterm_cxx_silent(Src &s, Case &c) { run_terminal<XTerm>(s, c, 4, "vterm_cxx"); }

} // namespace

VP_TARGET("vterm_cxx", t_vterm_cxx,
          "igris::vtermxx (+ a stand-alone igris::readline fed the same bytes, for the length/cursor accessors): same generator and checks as vterm_c; "
          "non-trivial = an edit with the cursor inside the line, a history recall after >= 2 stored lines, or typing into a full line");
VP_TARGET("vterm_cxx_long", t_vterm_cxx_long,
          "igris::vtermxx with line capacity 250..262: same generator and checks as vterm_c_long");
VP_TARGET("vterm_cxx_reinit", t_vterm_cxx_reinit,
          "igris::vtermxx (and the stand-alone igris::readline) used for a first session, then init() again on the same objects with another capacity and history depth: "
          "generator and checks of vterm_c_reinit");
VP_TARGET("vterm_cxx_silent", t_vterm_cxx_silent, "igris::vtermxx with set_echo(0): generator and checks of vterm_c_silent");
VP_TARGET("vterm_cxx_enum", t_vterm_cxx_enum,
          "exhaustive (igris::vtermxx): every sequence of <= 5 (quick) / <= 7 (thorough) keys over {a,b,BS,LEFT,RIGHT,DEL,UP,DOWN,CR,LF,^C,ESC-x} x capacity {2,3,4,8} x history depth {1,2}",
          term_enum_size);
