// C11 — libc shim: strto*/ato* parse like ISO C; qsort sorts; bsearch finds
// iff present. Targets: strto, qsort, bsearch.
#include "vpbt.h"
#include <algorithm>
#include <cinttypes>
#include <climits>
#include <cstdlib>
#include <string>

using namespace vpbt;

extern "C"
{
    long igc_strtol(const char *, char **, int);
    unsigned long igc_strtoul(const char *, char **, int);
    long long igc_strtoll(const char *, char **, int);
    unsigned long long igc_strtoull(const char *, char **, int);
    intmax_t igc_strtoimax(const char *, char **, int);
    uintmax_t igc_strtoumax(const char *, char **, int);
    int igc_atoi(const char *);
    long igc_atol(const char *);
    void igc_qsort(void *, size_t, size_t, int (*)(const void *, const void *));
    void *igc_bsearch(const void *, const void *, size_t, size_t, int (*)(const void *, const void *));
    void igc_srand(unsigned);
}

// ------------------------------------------------------------------- strto*
static const char kDigits[] = "0123456789abcdefghijklmnopqrstuvwxyz";
static std::string render(unsigned __int128 mag, int base, Src &s)
{
    std::string r;
    do
    {
        char ch = kDigits[(int)(mag % (unsigned)base)];
        if (ch >= 'a' && s.coin())
            ch = (char)(ch - 32);
        r.insert(r.begin(), ch);
        mag /= (unsigned)base;
    } while (mag);
    return r;
}

enum Fn
{
    STRTOL,
    STRTOUL,
    STRTOLL,
    STRTOULL,
    STRTOIMAX,
    STRTOUMAX,
    ATOI,
    ATOL,
    NFN
};
static const char *fn_name[] = {"strtol", "strtoul", "strtoll", "strtoull", "strtoimax", "strtoumax", "atoi", "atol"};

// forced_fn / forced_base >= 0: the strto_seq target calls one function several times in one base (same choices
// otherwise); seq: deltas around the limits are concentrated on -1, 0, +1
static void strto_one(Src &s, Case &c, int forced_fn, int forced_base, bool seq)
{
    Fn fn = forced_fn >= 0 ? (Fn)forced_fn : (Fn)s.below(NFN);
    bool is_ato = fn == ATOI || fn == ATOL;
    int base = is_ato ? 10 : forced_base >= 0 ? forced_base : (int)s.pick({0, 0, 10, 16, 8, 2, 36, 3, 7, 11, 17, 35, -1});
    if (base == -1)
        base = (int)s.range(2, 36);
    std::string text;
    // leading white space
    static const char ws[] = {' ', '\t', '\n', '\v', '\f', '\r'};
    for (int n = (int)s.weighted({5, 2, 1}); n > 0; n--)
        text += ws[s.below(6)];
    int sign = (int)s.weighted({4, 2, 2}); // none, -, +
    if (sign == 1)
        text += '-';
    if (sign == 2)
        text += '+';
    // prefix
    int prefix = is_ato ? (int)s.weighted({6, 0, 0, 1}) : (int)s.weighted({5, 2, 1, 2}); // none 0x 0X 0
    int digit_base = base ? base : 10;
    if (prefix == 1 || prefix == 2)
    {
        text += prefix == 1 ? "0x" : "0X";
        if (base == 0 || base == 16)
            digit_base = 16;
    }
    else if (prefix == 3)
    {
        text += '0';
        if (base == 0)
            digit_base = 8;
    }
    // body
    bool near_limit = false;
    int body = (int)s.weighted({3, 4, 1, 1}); // random digits, near a limit, none, far overflow
    if (is_ato && body == 3)
        body = 0; // ISO leaves atoi/atol undefined on unrepresentable values
    if (body == 0)
    {
        int n = (int)s.range(1, is_ato ? (fn == ATOI ? 9 : 18) : 24);
        for (int i = 0; i < n; i++)
        {
            char ch = kDigits[s.below((uint64_t)digit_base)];
            if (ch >= 'a' && s.coin())
                ch = (char)(ch - 32);
            text += ch;
        }
    }
    else if (body == 1)
    {
        // magnitude of a type limit + delta, rendered in the digit base
        static const unsigned __int128 lims[] = {
            (unsigned __int128)LONG_MAX, (unsigned __int128)LONG_MAX + 1, (unsigned __int128)ULONG_MAX,
            (unsigned __int128)INT_MAX,  (unsigned __int128)INT_MAX + 1,  (unsigned __int128)UINT_MAX,
        };
        unsigned __int128 lim = lims[s.below(6)];
        int delta = (int)s.range(0, 80) - 40;
        if (seq && s.coin())
            delta = (int)s.pick({-1, 0, 0, 1});
        if (is_ato)
        {
            // stay representable: |value| <= MAX (or MIN with '-')
            unsigned __int128 top = fn == ATOI ? (unsigned __int128)INT_MAX : (unsigned __int128)LONG_MAX;
            if (sign == 1)
                top += 1;
            lim = top;
            delta = -(int)s.range(0, 40);
        }
        unsigned __int128 mag = lim + delta;
        text += render(mag, digit_base, s);
        near_limit = true;
    }
    else if (body == 3)
    {
        text += render((unsigned __int128)ULONG_MAX * (unsigned)s.range(2, 1000) + (unsigned)s.u8(), digit_base, s);
        near_limit = true;
    }
    // tail
    switch (s.weighted({3, 3, 2, 1}))
    {
    case 0:
        break;
    case 1:
    {
        // a digit just outside the base, or punctuation
        static const char cand[] = {'8', '9', 'a', 'f', 'g', 'z', 'G', 'Z', 'x', 'X', '.', ' ', '-', '+', '_', '@', '[', '`', '{'};
        char t = s.coin() ? cand[s.below(sizeof cand)]
                          : (digit_base < 10 ? (char)('0' + digit_base) : digit_base < 36 ? (char)((s.coin() ? 'a' : 'A') + digit_base - 10) : '!');
        text += t;
        if (s.coin())
            text += kDigits[s.below(36)];
        break;
    }
    case 2:
    {
        uint8_t b = s.u8();
        if (b)
            text += (char)b;
        break;
    }
    default:
        text += "0x1";
    }
    if (is_ato)
    {
        // make sure the digit run that atoi/atol will consume is representable:
        // measure it with the host's strtoll (base 10) and discard when out of range.
        errno = 0;
        long long v = strtoll(text.c_str(), nullptr, 10);
        if (errno == ERANGE || (fn == ATOI && (v > INT_MAX || v < INT_MIN)))
        {
            c.log("(unrepresentable for %s, skipped) ", fn_name[fn]);
            text = "1";
        }
    }
    bool with_end = !is_ato && s.below(8) != 0;
    Exact blk(text.c_str(), text.size() + 1);
    c.log("%s(\"%s\" [%s], base %d)%s", fn_name[fn], text.c_str(), hexdump(text.data(), text.size(), 48).c_str(), base,
          with_end ? "" : " endptr=NULL");
    c.label(fn_name[fn]);
    if (near_limit)
        c.label("near_limit");
    if (prefix)
        c.label("prefix");
    if (base == 0)
        c.label("base0");
    if (base > 10)
        c.label("base>10");
    if (near_limit || prefix || base > 10)
        c.nontrivial = true;

    char *e1 = nullptr, *e2 = nullptr;
    const char *p = blk.c();
    unsigned __int128 got = 0, want = 0;
    switch (fn)
    {
    case STRTOL:
        got = (unsigned long)igc_strtol(p, with_end ? &e1 : nullptr, base);
        want = (unsigned long)strtol(p, &e2, base);
        break;
    case STRTOUL:
        got = igc_strtoul(p, with_end ? &e1 : nullptr, base);
        want = strtoul(p, &e2, base);
        break;
    case STRTOLL:
        got = (unsigned long long)igc_strtoll(p, with_end ? &e1 : nullptr, base);
        want = (unsigned long long)strtoll(p, &e2, base);
        break;
    case STRTOULL:
        got = igc_strtoull(p, with_end ? &e1 : nullptr, base);
        want = strtoull(p, &e2, base);
        break;
    case STRTOIMAX:
        got = (uintmax_t)igc_strtoimax(p, with_end ? &e1 : nullptr, base);
        want = (uintmax_t)strtoimax(p, &e2, base);
        break;
    case STRTOUMAX:
        got = igc_strtoumax(p, with_end ? &e1 : nullptr, base);
        want = strtoumax(p, &e2, base);
        break;
    case ATOI:
        got = (unsigned)igc_atoi(p);
        want = (unsigned)atoi(p);
        break;
    default:
        got = (unsigned long)igc_atol(p);
        want = (unsigned long)atol(p);
    }
    VP_CHECK(got == want, "strto_value", "%s: got %lld (0x%llx) want %lld (0x%llx)", fn_name[fn], (long long)got,
             (unsigned long long)got, (long long)want, (unsigned long long)want);
    if (with_end)
        VP_CHECK(e1 == e2, "strto_end", "%s: end offset %td, ISO/glibc %td", fn_name[fn], e1 - p, e2 - p);
}
static void t_strto(Src &s, Case &c) { strto_one(s, c, -1, -1, false); }
// Sequences of calls: one call in some other base first, then 2..4 calls of the same function in one base with
// texts of varying sign around the limits — a conversion must not depend on what was converted before.
static void t_strto_seq(Src &s, Case &c)
{
    int fn = (int)s.below(6); // the strto* family (atoi/atol take no base)
    int base = (int)s.pick({10, 10, 16, 8, 2, 36, 0, 7});
    int other = base == 10 ? 16 : 10;
    {
        // two fixed benign calls in two other bases first: whatever an earlier *case* of this worker process left behind
        // (also a cache keyed by the base) is replaced here, so the sequence below is self-contained and reproduces
        // from its replay file
        for (int fb : {5, other})
        {
            char *e = nullptr;
            switch (fn)
            {
            case STRTOL:
                igc_strtol("1", &e, fb);
                break;
            case STRTOUL:
                igc_strtoul("1", &e, fb);
                break;
            case STRTOLL:
                igc_strtoll("1", &e, fb);
                break;
            case STRTOULL:
                igc_strtoull("1", &e, fb);
                break;
            case STRTOIMAX:
                igc_strtoimax("1", &e, fb);
                break;
            default:
                igc_strtoumax("1", &e, fb);
            }
        }
    }
    strto_one(s, c, fn, other, true);
    c.log(" | ");
    int k = (int)s.range(2, 4);
    for (int i = 0; i < k; i++)
    {
        strto_one(s, c, fn, base, true);
        c.log(" | ");
    }
    c.nontrivial = true;
    c.label("sequence");
}
VP_TARGET("strto_seq", t_strto_seq,
          "one strto* function called once in another base and then 2..4 times in one base on texts of the strto grammar with signs varying and the "
          "limit deltas concentrated on -1/0/+1; every call is compared with the host — results must not depend on earlier calls");
VP_TARGET("strto", t_strto,
          "text from the grammar ws*[+-]?(0x|0X|0)?digits*tail around every base's alphabet, prefix and overflow "
          "boundary (type limit +-40, far overflow), base 0/2..36; oracle = host function; non-trivial = near a "
          "limit, or has a prefix, or base > 10");

// -------------------------------------------------------------------- qsort
static size_t g_size, g_n;
static const char *g_base;
static bool g_bad_ptr;
static const void *g_key;
static bool g_key_not_first;
static int cmp_first_byte(const void *a, const void *b)
{
    const char *pa = (const char *)a, *pb = (const char *)b;
    for (const char *p : {pa, pb})
        if (p >= g_base && p < g_base + g_n * g_size && (size_t)(p - g_base) % g_size != 0)
            g_bad_ptr = true;
    return (int)*(const uint8_t *)a - (int)*(const uint8_t *)b;
}
static int cmp_two_bytes(const void *a, const void *b)
{
    const uint8_t *pa = (const uint8_t *)a, *pb = (const uint8_t *)b;
    int d = (int)pa[0] - (int)pb[0];
    return d ? d : (int)pa[1] - (int)pb[1];
}

static void t_qsort(Src &s, Case &c)
{
    size_t n = (size_t)s.weighted({1, 1, 1, 1, 3, 3}) < 4 ? (size_t)s.range(0, 5) : (size_t)s.range(0, 80);
    size_t size = (size_t)(s.coin() ? s.range(1, 8) : s.range(1, 32));
    bool two = size >= 3 && s.below(4) == 0;
    int keyrange = (int)s.pick({1, 2, 3, 5, 16, 256});
    unsigned seed = s.u16();
    Exact arr(n * size);
    for (size_t i = 0; i < n; i++)
    {
        uint8_t *e = arr.p + i * size;
        e[0] = (uint8_t)s.below((uint64_t)keyrange);
        for (size_t j = 1; j < size; j++)
            e[j] = (uint8_t)(i * 7 + j * 13 + 1); // tag: distinguishes equal keys
        if (two)
            e[1] = (uint8_t)s.below(3);
        if (size >= 2 + (two ? 1 : 0))
            e[size - 1] = (uint8_t)i; // unique tag
    }
    std::vector<std::string> before;
    for (size_t i = 0; i < n; i++)
        before.emplace_back((const char *)arr.p + i * size, size);
    bool dup = false;
    {
        std::vector<int> keys;
        for (auto &e : before)
            keys.push_back((uint8_t)e[0]);
        std::sort(keys.begin(), keys.end());
        dup = std::adjacent_find(keys.begin(), keys.end()) != keys.end();
    }
    c.log("qsort n=%zu size=%zu cmp=%s keyrange=%d srand=%u keys=", n, size, two ? "two_bytes" : "first_byte", keyrange, seed);
    for (size_t i = 0; i < n && i < 40; i++)
        c.log("%d,", (int)(uint8_t)before[i][0]);
    if (n >= 4 && dup)
        c.nontrivial = true;
    if (n < 4)
        c.label("small_n_network");
    if (dup)
        c.label("duplicates");
    if (size == 1)
        c.label("size1");
    g_size = size;
    g_n = n;
    g_base = arr.c();
    g_bad_ptr = false;
    igc_srand(seed);
    igc_qsort(arr.p, n, size, two ? cmp_two_bytes : cmp_first_byte);
    VP_CHECK(!g_bad_ptr, "qsort_cmp_ptr", "comparator called with a pointer inside the array that is not on an element boundary");
    for (size_t i = 0; i + 1 < n; i++)
        VP_CHECK((two ? cmp_two_bytes : cmp_first_byte)(arr.p + i * size, arr.p + (i + 1) * size) <= 0, "qsort_order",
                 "elements %zu and %zu out of order", i, i + 1);
    std::vector<std::string> after;
    for (size_t i = 0; i < n; i++)
        after.emplace_back((const char *)arr.p + i * size, size);
    std::sort(before.begin(), before.end());
    std::sort(after.begin(), after.end());
    VP_CHECK(before == after, "qsort_permutation", "output is not a permutation of the input (element dropped, duplicated or altered)");
}
VP_TARGET("qsort", t_qsort,
          "arrays of length 0..80, element size 1..32, duplicate-rich one- or two-byte keys + unique tags, shim srand "
          "seeded from the case; oracle = ordered by the comparator AND a permutation of the input; non-trivial = "
          "length >= 4 with a duplicate key");

// Long arrays / large elements: lengths around 256, 512..1100 and (1- and 2-byte elements) 65536, element
// sizes up to 260. Keys come from a drawn 32-bit value mixed with the index, so the choice sequence stays short.
static uint32_t mix32(uint32_t x)
{
    x ^= x >> 16;
    x *= 0x7feb352dU;
    x ^= x >> 15;
    x *= 0x846ca68bU;
    x ^= x >> 16;
    return x;
}
// comparator of the "return a - b" kind over 32-bit keys stored at the front of the element: its results are large
// in magnitude (tens of thousands, multiples of 65536), all within int
static int cmp_int_diff(const void *a, const void *b)
{
    const char *pa = (const char *)a, *pb = (const char *)b;
    for (const char *p : {pa, pb})
        if (p >= g_base && p < g_base + g_n * g_size && (size_t)(p - g_base) % g_size != 0)
            g_bad_ptr = true;
    int32_t ka, kb;
    memcpy(&ka, a, 4);
    memcpy(&kb, b, 4);
    return ka - kb;
}
static void t_qsort_diffcmp(Src &s, Case &c)
{
    size_t n = (size_t)(s.coin() ? s.range(0, 12) : s.range(0, 120));
    size_t size = (size_t)s.range(4, 12);
    int32_t stride = (int32_t)s.pick({1, 40000, 65536, 131072, 32768, 100000});
    int keyrange = (int)s.pick({2, 3, 7, 64});
    unsigned seed = s.u16();
    Exact arr(n * size);
    for (size_t i = 0; i < n; i++)
    {
        uint8_t *e = arr.p + i * size;
        int32_t key = ((int32_t)s.below((uint64_t)keyrange) - keyrange / 2) * stride;
        memcpy(e, &key, 4);
        for (size_t j = 4; j < size; j++)
            e[j] = (uint8_t)(i * 7 + j);
    }
    std::vector<std::string> before;
    for (size_t i = 0; i < n; i++)
        before.emplace_back((const char *)arr.p + i * size, size);
    c.log("qsort n=%zu size=%zu comparator=a-b keys = k*%d, k in %d values, srand=%u", n, size, stride, keyrange, seed);
    c.nontrivial = n >= 4 && stride >= 32768;
    c.label(stride >= 32768 ? "comparator_results_beyond_16_bits" : "small_comparator_results");
    g_size = size;
    g_n = n;
    g_base = arr.c();
    g_bad_ptr = false;
    igc_srand(seed);
    igc_qsort(arr.p, n, size, cmp_int_diff);
    VP_CHECK(!g_bad_ptr, "qsort_cmp_ptr", "comparator called with a pointer inside the array that is not on an element boundary");
    for (size_t i = 0; i + 1 < n; i++)
        VP_CHECK(cmp_int_diff(arr.p + i * size, arr.p + (i + 1) * size) <= 0, "qsort_order", "elements %zu and %zu out of order", i, i + 1);
    std::vector<std::string> after;
    for (size_t i = 0; i < n; i++)
        after.emplace_back((const char *)arr.p + i * size, size);
    std::sort(before.begin(), before.end());
    std::sort(after.begin(), after.end());
    VP_CHECK(before == after, "qsort_permutation", "output is not a permutation of the input (element dropped, duplicated or altered)");
}
VP_TARGET("qsort_diffcmp", t_qsort_diffcmp,
          "qsort with a subtracting comparator (return a - b over 32-bit keys that are multiples of 1, 32768, 40000, 65536, 100000 or 131072): any consistent weak order is a valid "
          "comparator, whatever the magnitude of its results; same oracle as qsort; non-trivial = n >= 4 and results beyond 16 bits");

static void t_qsort_large(Src &s, Case &c)
{
    size_t n, size;
    switch (s.weighted({3, 3, 1, 2}))
    {
    case 0:
        n = (size_t)s.range(250, 262);
        size = (size_t)(s.coin() ? s.range(1, 8) : s.range(9, 40));
        break;
    case 1:
        n = (size_t)s.range(81, 1100);
        size = (size_t)s.range(1, 8);
        break;
    case 2:
        n = (size_t)s.range(65530, 65545);
        size = (size_t)s.range(1, 2);
        break;
    default:
        n = (size_t)s.range(4, 40);
        size = (size_t)s.range(250, 262);
    }
    bool two = size >= 3 && s.below(4) == 0;
    int keyrange = (int)s.pick({2, 5, 16, 256});
    unsigned seed = s.u16();
    uint32_t k0 = s.u32();
    int shape = (int)s.below(4); // 0 pseudo-random, 1 ascending, 2 descending, 3 all equal
    Exact arr(n * size);
    for (size_t i = 0; i < n; i++)
    {
        uint8_t *e = arr.p + i * size;
        uint32_t h = mix32(k0 + (uint32_t)i);
        uint32_t kv = shape == 0 ? h % (uint32_t)keyrange : shape == 1 ? (uint32_t)(i * (size_t)keyrange / n) : shape == 2 ? (uint32_t)((n - 1 - i) * (size_t)keyrange / n) : k0 % (uint32_t)keyrange;
        e[0] = (uint8_t)kv;
        for (size_t j = 1; j < size; j++)
            e[j] = (uint8_t)(i * 7 + j * 13 + 1);
        if (two)
            e[1] = (uint8_t)((h >> 8) % 3);
        if (size >= 4)
        {
            e[size - 1] = (uint8_t)i; // 16-bit tag
            e[size - 2] = (uint8_t)(i >> 8);
        }
    }
    std::vector<std::string> before;
    for (size_t i = 0; i < n; i++)
        before.emplace_back((const char *)arr.p + i * size, size);
    c.log("qsort n=%zu size=%zu cmp=%s keyrange=%d srand=%u shape=%d k0=%08x", n, size, two ? "two_bytes" : "first_byte", keyrange, seed, shape, k0);
    c.nontrivial = true;
    c.label(n >= 65530 ? "n>=65530" : n >= 256 ? "n>=256" : size >= 250 ? "size>=250" : "n<256");
    static const char *shapes[] = {"shape_random", "shape_ascending", "shape_descending", "shape_all_equal"};
    c.label(shapes[shape]);
    g_size = size;
    g_n = n;
    g_base = arr.c();
    g_bad_ptr = false;
    igc_srand(seed);
    igc_qsort(arr.p, n, size, two ? cmp_two_bytes : cmp_first_byte);
    VP_CHECK(!g_bad_ptr, "qsort_cmp_ptr", "comparator called with a pointer inside the array that is not on an element boundary");
    for (size_t i = 0; i + 1 < n; i++)
        VP_CHECK((two ? cmp_two_bytes : cmp_first_byte)(arr.p + i * size, arr.p + (i + 1) * size) <= 0, "qsort_order",
                 "elements %zu and %zu out of order", i, i + 1);
    std::vector<std::string> after;
    for (size_t i = 0; i < n; i++)
        after.emplace_back((const char *)arr.p + i * size, size);
    std::sort(before.begin(), before.end());
    std::sort(after.begin(), after.end());
    VP_CHECK(before == after, "qsort_permutation", "output is not a permutation of the input (element dropped, duplicated or altered)");
}
VP_TARGET("qsort_large", t_qsort_large,
          "arrays of 250..262 / 81..1100 / 65530..65545 elements (element size 1..40) or 4..40 elements of 250..262 bytes; keys "
          "pseudo-random from a drawn value, ascending, descending or all equal; same oracle as qsort; every case non-trivial");

// ------------------------------------------------------------------ bsearch
static int cmp_key_elem(const void *k, const void *e)
{
    bool swapped = false;
    if (k != g_key)
    {
        g_key_not_first = true;
        if (e == g_key)
        {
            // called as compar(element, key): keep going with the roles swapped so
            // the remaining checks still mean something
            std::swap(k, e);
            swapped = true;
        }
    }
    const char *pe = (const char *)e;
    bool inside = pe >= g_base && pe < g_base + g_n * g_size && (size_t)(pe - g_base) % g_size == 0;
    if (!inside)
        g_bad_ptr = true;
    // read through the pointers the caller promised: key is 1 byte, element is g_size bytes
    int kv = *(const uint8_t *)g_key;
    int ev = inside ? *(const uint8_t *)e : kv;
    return swapped ? ev - kv : kv - ev;
}
static void t_bsearch(Src &s, Case &c)
{
    size_t n = s.below(4) == 0 ? (size_t)s.range(0, 3) : (size_t)s.range(0, 80);
    size_t size = (size_t)(s.coin() ? s.range(1, 8) : s.range(1, 32));
    int step = (int)s.pick({1, 2, 3});
    std::vector<uint8_t> keys;
    int v = (int)s.below(4);
    for (size_t i = 0; i < n && v < 256; i++)
    {
        keys.push_back((uint8_t)v);
        v += (int)s.below((uint64_t)step + 1); // duplicates when the increment is 0
    }
    n = keys.size();
    Exact arr(n * size); // length 0 -> zero-size block
    for (size_t i = 0; i < n; i++)
    {
        memset(arr.p + i * size, 0xEE, size);
        arr.p[i * size] = keys[i];
    }
    uint8_t key;
    int kk = (int)s.weighted({4, 1, 1, 2});
    if (kk == 0 && n)
        key = keys[s.below(n)];
    else if (kk == 1)
        key = 0;
    else if (kk == 2)
        key = 255;
    else
        key = s.u8();
    Exact keyblk(&key, 1);
    bool present = std::find(keys.begin(), keys.end(), key) != keys.end();
    c.log("bsearch n=%zu size=%zu key=%d present=%d keys=", n, size, key, (int)present);
    for (size_t i = 0; i < n && i < 40; i++)
        c.log("%d,", keys[i]);
    if (n >= 2)
        c.nontrivial = true;
    if (n == 0)
        c.label("empty");
    if (n == 1)
        c.label("one");
    c.label(present ? "present" : "absent");
    g_size = size;
    g_n = n;
    g_base = arr.c();
    g_bad_ptr = false;
    g_key = keyblk.p;
    g_key_not_first = false;
    void *r = igc_bsearch(keyblk.p, arr.p, n, size, cmp_key_elem);
    VP_CHECK(!g_key_not_first, "bsearch_arg_order", "comparator not called as compar(key, element)");
    VP_CHECK(!g_bad_ptr, "bsearch_deref_outside", "comparator was handed an element pointer outside the array (n=%zu)", n);
    VP_CHECK((r != nullptr) == present, "bsearch_found_iff_present", "returned %s but key is %s", r ? "an element" : "NULL",
             present ? "present" : "absent");
    if (r)
    {
        const char *pr = (const char *)r;
        VP_CHECK(pr >= arr.c() && pr < arr.c() + n * size && (size_t)(pr - arr.c()) % size == 0, "bsearch_result_ptr",
                 "result not on an element of the array");
        VP_CHECK(*(const uint8_t *)r == key, "bsearch_result_equal", "result element %d != key %d", *(const uint8_t *)r, key);
    }
}
static void t_bsearch_large(Src &s, Case &c)
{
    size_t n, size;
    switch (s.weighted({3, 3, 1}))
    {
    case 0:
        n = (size_t)s.range(250, 262);
        size = (size_t)(s.coin() ? s.range(1, 8) : s.range(250, 262));
        break;
    case 1:
        n = (size_t)s.range(81, 1100);
        size = (size_t)s.range(1, 8);
        break;
    default:
        n = (size_t)s.range(65530, 65545);
        size = (size_t)s.range(1, 2);
    }
    // sorted keys lo..hi spread over the array (duplicates as soon as n > hi-lo+1)
    int lo = (int)s.below(3), hi = 255 - (int)s.below(3);
    int stride = (int)s.pick({1, 2, 3}); // only every stride-th value occurs
    std::vector<uint8_t> keys(n);
    for (size_t i = 0; i < n; i++)
    {
        int v = lo + (int)(i * (size_t)(hi - lo + 1) / n);
        keys[i] = (uint8_t)(v - (v - lo) % stride);
    }
    Exact arr(n * size);
    for (size_t i = 0; i < n; i++)
    {
        memset(arr.p + i * size, 0xEE, size);
        arr.p[i * size] = keys[i];
    }
    uint8_t key;
    int kk = (int)s.weighted({4, 1, 1, 2});
    if (kk == 0)
        key = keys[s.below(n)];
    else if (kk == 1)
        key = 0;
    else if (kk == 2)
        key = 255;
    else
        key = s.u8();
    Exact keyblk(&key, 1);
    bool present = std::find(keys.begin(), keys.end(), key) != keys.end();
    c.log("bsearch n=%zu size=%zu key=%d present=%d lo=%d hi=%d stride=%d", n, size, key, (int)present, lo, hi, stride);
    c.nontrivial = true;
    c.label(n >= 65530 ? "n>=65530" : n >= 256 ? "n>=256" : "n<256");
    c.label(present ? "present" : "absent");
    g_size = size;
    g_n = n;
    g_base = arr.c();
    g_bad_ptr = false;
    g_key = keyblk.p;
    g_key_not_first = false;
    void *r = igc_bsearch(keyblk.p, arr.p, n, size, cmp_key_elem);
    VP_CHECK(!g_key_not_first, "bsearch_arg_order", "comparator not called as compar(key, element)");
    VP_CHECK(!g_bad_ptr, "bsearch_deref_outside", "comparator was handed an element pointer outside the array (n=%zu)", n);
    VP_CHECK((r != nullptr) == present, "bsearch_found_iff_present", "returned %s but key is %s", r ? "an element" : "NULL",
             present ? "present" : "absent");
    if (r)
    {
        const char *pr = (const char *)r;
        VP_CHECK(pr >= arr.c() && pr < arr.c() + n * size && (size_t)(pr - arr.c()) % size == 0, "bsearch_result_ptr",
                 "result not on an element of the array");
        VP_CHECK(*(const uint8_t *)r == key, "bsearch_result_equal", "result element %d != key %d", *(const uint8_t *)r, key);
    }
}
VP_TARGET("bsearch_large", t_bsearch_large,
          "sorted arrays of 250..262 / 81..1100 / 65530..65545 elements, element size 1..8 or 250..262: same oracle as bsearch; "
          "every case non-trivial");
VP_TARGET("bsearch", t_bsearch,
          "sorted arrays of length 0..80 (zero-size heap block when empty), element size 1..32, duplicates, keys "
          "present/absent/below/above, heterogeneous comparator (1-byte key object vs element); oracle = found iff "
          "present, result inside the array and equal; non-trivial = length >= 2");
