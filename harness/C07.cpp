// C07 — integer <-> text conversion is exact and invertible for every value
// and base. Targets: toa, ato, libc_itoa, dprint (random); small_enum (8/16-bit
// x all bases, exhaustive); sweep32 (all 32-bit values x 5 bases, thorough).
#include "vpbt.h"
#include <igris/dprint.h>
#include <igris/util/numconvert.h>
#include <igris/defs/vt100.h>
#include <string>

using namespace vpbt;

extern "C"
{
    char *igc_itoa(int num, char *buf, unsigned short int base);
    int igc_atoi(const char *);
    long igc_atol(const char *);
    char *igc_utoa(unsigned int num, char *buf, unsigned short int base);
    char *igc_ltoa(long num, char *buf, unsigned short int base);
    char *igc_ultoa(unsigned long num, char *buf, unsigned short int base);
    // defined in dprint_func_impl.c, not declared in dprint.h
    void debug_printdec_uint8(uint8_t x);
    void debug_printdec_uint16(uint16_t x);
    void debug_printdec_uint32(uint32_t x);
    void debug_printdec_uint64(uint64_t x);
}

// ------------------------------------------------------------ capture sink
static std::string g_cap;
extern "C" void debug_putchar(char c) { g_cap += c; }
extern "C" void debug_write(const char *c, int n) { g_cap.append(c, (size_t)n); }

// ---------------------------------------------------------------- reference
static const char kDigits[] = "0123456789abcdefghijklmnopqrstuvwxyz";
static int ref_render(char *out, unsigned __int128 mag, bool neg, int base)
{
    char tmp[130];
    int n = 0;
    do
    {
        tmp[n++] = kDigits[(int)(mag % (unsigned)base)];
        mag /= (unsigned)base;
    } while (mag);
    int len = 0;
    if (neg)
        out[len++] = '-';
    while (n)
        out[len++] = tmp[--n];
    out[len] = 0;
    return len;
}
static int digit_value(unsigned char c)
{
    if (c >= '0' && c <= '9')
        return c - '0';
    if (c >= 'a' && c <= 'z')
        return c - 'a' + 10;
    if (c >= 'A' && c <= 'Z')
        return c - 'A' + 10;
    return 99;
}
static bool ieq(const char *a, const char *b, size_t n)
{
    for (size_t i = 0; i < n; i++)
    {
        unsigned char x = (unsigned char)a[i], y = (unsigned char)b[i];
        if (x >= 'A' && x <= 'Z')
            x += 32;
        if (y >= 'A' && y <= 'Z')
            y += 32;
        if (x != y)
            return false;
    }
    return true;
}

enum Kind
{
    I8,
    I16,
    I32,
    I64,
    U8,
    U16,
    U32,
    U64
};
static const char *kind_name[] = {"i8", "i16", "i32", "i64", "u8", "u16", "u32", "u64"};

// value is carried as (neg, magnitude)
struct Val
{
    bool neg;
    uint64_t mag;
    int64_t as_signed() const { return neg ? (int64_t)(0 - mag) : (int64_t)mag; }
};

static char *call_toa(Kind k, const Val &v, char *buf, int base)
{
    switch (k)
    {
    case I8:
        return igris_i8toa((int8_t)v.as_signed(), buf, (uint8_t)base);
    case I16:
        return igris_i16toa((int16_t)v.as_signed(), buf, (uint8_t)base);
    case I32:
        return igris_i32toa((int32_t)v.as_signed(), buf, (uint8_t)base);
    case I64:
        return igris_i64toa(v.as_signed(), buf, (uint8_t)base);
    case U8:
        return igris_u8toa((uint8_t)v.mag, buf, (uint8_t)base);
    case U16:
        return igris_u16toa((uint16_t)v.mag, buf, (uint8_t)base);
    case U32:
        return igris_u32toa((uint32_t)v.mag, buf, (uint8_t)base);
    default:
        return igris_u64toa(v.mag, buf, (uint8_t)base);
    }
}

// returns the parsed value as (neg, mag)
static Val call_ato(Kind k, const char *txt, int base, char **end)
{
    int64_t s = 0;
    switch (k)
    {
    case I8:
        s = igris_atoi8(txt, (uint8_t)base, end);
        break;
    case I16:
        s = igris_atoi16(txt, (uint8_t)base, end);
        break;
    case I32:
        s = igris_atoi32(txt, (uint8_t)base, end);
        break;
    case I64:
        s = igris_atoi64(txt, (uint8_t)base, end);
        break;
    case U8:
        return Val{false, igris_atou8(txt, (uint8_t)base, end)};
    case U16:
        return Val{false, igris_atou16(txt, (uint8_t)base, end)};
    case U32:
        return Val{false, igris_atou32(txt, (uint8_t)base, end)};
    default:
        return Val{false, igris_atou64(txt, (uint8_t)base, end)};
    }
    return s < 0 ? Val{true, 0 - (uint64_t)s} : Val{false, (uint64_t)s};
}

static void check_render(Kind k, const Val &v, int base)
{
    char ref[80];
    int len = ref_render(ref, v.mag, v.neg, base);
    Exact blk((size_t)len + 1); // digits + sign + NUL, nothing more
    memset(blk.p, 0x5a, blk.n);
    char *ret = call_toa(k, v, blk.c(), base);
    VP_CHECK(ret == blk.c() + len, "toa_return_ptr", "%s base %d: returned buf%+td, text length %d (ref '%s')",
             kind_name[k], base, ret - blk.c(), len, ref);
    VP_CHECK(blk.c()[len] == 0, "toa_terminator", "%s base %d: no NUL at position %d", kind_name[k], base, len);
    VP_CHECK(ieq(blk.c(), ref, (size_t)len), "toa_text", "%s base %d: got '%.*s' want '%s'", kind_name[k],
             base, len, blk.c(), ref);
    // one value, one text: the narrow entry points give, character for character (letter case included), what the 64-bit
    // entry point of the same signedness gives
    Kind wide = k <= I64 ? I64 : U64;
    if (k != wide)
    {
        Exact blk2((size_t)len + 1);
        memset(blk2.p, 0x5a, blk2.n);
        call_toa(wide, v, blk2.c(), base);
        VP_CHECK(memcmp(blk.p, blk2.p, (size_t)len + 1) == 0, "toa_width_consistency", "base %d: %s gives '%s', %s gives '%s' for the same value", base, kind_name[k],
                 blk.c(), kind_name[wide], blk2.c());
    }
}

// text = canonical rendering (letters in a chosen case pattern) + terminator + tail
static void check_parse(Kind k, const Val &v, int base, uint32_t casebits, int term, const char *tail,
                        bool with_end)
{
    char ref[80];
    int len = ref_render(ref, v.mag, v.neg, base);
    for (int i = 0; i < len; i++)
        if (ref[i] >= 'a' && ref[i] <= 'z' && ((casebits >> (i & 31)) & 1))
            ref[i] = (char)(ref[i] - 32);
    size_t tl = term ? strlen(tail) : 0;
    Exact blk((size_t)len + 1 + (term ? tl + 1 : 0));
    memcpy(blk.p, ref, (size_t)len);
    blk.p[len] = (uint8_t)term;
    if (term)
    {
        memcpy(blk.p + len + 1, tail, tl);
        blk.p[len + 1 + tl] = 0;
    }
    char *end = (char *)0x1;
    Val got = call_ato(k, blk.c(), base, with_end ? &end : nullptr);
    VP_CHECK(got.mag == v.mag && (got.neg == v.neg || v.mag == 0), "ato_value",
             "%s base %d text '%s' term 0x%02x: got %s%llu want %s%llu", kind_name[k], base, ref, term,
             got.neg ? "-" : "", (unsigned long long)got.mag, v.neg ? "-" : "", (unsigned long long)v.mag);
    if (with_end)
        VP_CHECK(end == blk.c() + len, "ato_end", "%s base %d text '%s' term 0x%02x: end at offset %td, want %d",
                 kind_name[k], base, ref, term, end - blk.c(), len);
}

// "Round" values in the rendering base: 1..maxdigits digits, mostly zeros with a few ones, base-1 digits and arbitrary
// digits in between (5000100000, 0x10000ff00, ...). The *_sparse targets draw every value this way; g_cur_base is the
// base of the conversion under test.
static bool g_sparse = false;
static int g_cur_base = 10;
static uint64_t sparse_digits(Src &s, int base, uint64_t maxmag)
{
    int maxd = 1;
    for (uint64_t m = maxmag; m >= (uint64_t)base; m /= (uint64_t)base)
        maxd++;
    int nd = 1 + (int)s.below((uint64_t)maxd);
    uint64_t v = 0;
    for (int i = 0; i < nd; i++)
    {
        uint64_t d;
        switch (s.weighted({9, 2, 1, 2}))
        {
        case 0:
            d = 0;
            break;
        case 1:
            d = 1;
            break;
        case 2:
            d = (uint64_t)base - 1;
            break;
        default:
            d = s.below((uint64_t)base);
        }
        if (i == 0 && d == 0)
            d = 1;
        v = v * (uint64_t)base + d; // wraps for the longest texts: still a value of the type
    }
    return maxmag == ~0ull ? v : v % (maxmag + 1);
}
template <class T> static T draw(Src &s)
{
    if (!g_sparse)
        return s.biased_int<T>();
    using U = typename std::make_unsigned<T>::type;
    uint64_t mag = sparse_digits(s, g_cur_base, (uint64_t)std::numeric_limits<T>::max());
    if (std::is_signed<T>::value && s.coin())
        return (T)(U)(0 - (U)mag);
    return (T)(U)mag;
}

static Val gen_val(Src &s, Kind k)
{
    if (g_sparse)
    {
        static const uint64_t maxmag[] = {127, 32767, 2147483647ull, 9223372036854775807ull, 255, 65535, 4294967295ull, ~0ull};
        uint64_t mag = sparse_digits(s, g_cur_base, maxmag[k]);
        return Val{k <= I64 && mag != 0 && s.coin(), mag};
    }
    switch (k)
    {
    case I8:
    {
        int64_t x = s.biased_int<int8_t>();
        return x < 0 ? Val{true, (uint64_t)(-x)} : Val{false, (uint64_t)x};
    }
    case I16:
    {
        int64_t x = s.biased_int<int16_t>();
        return x < 0 ? Val{true, (uint64_t)(-x)} : Val{false, (uint64_t)x};
    }
    case I32:
    {
        int64_t x = s.biased_int<int32_t>();
        return x < 0 ? Val{true, (uint64_t)(-x)} : Val{false, (uint64_t)x};
    }
    case I64:
    {
        int64_t x = s.biased_int<int64_t>();
        return x < 0 ? Val{true, 0 - (uint64_t)x} : Val{false, (uint64_t)x};
    }
    case U8:
        return Val{false, s.biased_int<uint8_t>()};
    case U16:
        return Val{false, s.biased_int<uint16_t>()};
    case U32:
        return Val{false, s.biased_int<uint32_t>()};
    default:
        return Val{false, s.biased_int<uint64_t>()};
    }
}

static void classify(Case &c, Kind k, const Val &v, int base)
{
    if (v.mag >= (uint64_t)base)
        c.nontrivial = true;
    c.label(kind_name[k]);
    if (base > 10)
        c.label("base>10");
    if (base == 36)
        c.label("base36");
    static const uint64_t maxmag[] = {127, 32767, 2147483647ull, 9223372036854775807ull,
                                      255, 65535, 4294967295ull, ~0ull};
    if (v.neg && v.mag == maxmag[k] + 1)
        c.label("min");
    if (!v.neg && v.mag == maxmag[k])
        c.label("max");
}

// ------------------------------------------------------------------ toa
static void t_toa(Src &s, Case &c)
{
    Kind k = (Kind)s.below(8);
    int base = (int)s.range(2, 36);
    g_cur_base = base;
    Val v = gen_val(s, k);
    c.log("%s value=%s%llu base=%d", kind_name[k], v.neg ? "-" : "", (unsigned long long)v.mag, base);
    classify(c, k, v, base);
    check_render(k, v, base);
}
VP_TARGET("toa", t_toa,
          "igris_{i,u}{8..64}toa: boundary-biased value x base 2..36 into an exactly-sized buffer; "
          "non-trivial = |value| >= base (multi-digit)");

// ------------------------------------------------------------------ ato
// a byte that cannot continue a number in `base`
static int gen_terminator(Src &s, int base)
{
    for (int tries = 0;; tries++)
    {
        int t;
        switch (s.below(4))
        {
        case 0:
            t = 0;
            break;
        case 1:
        {
            static const unsigned char cand[] = {' ', '-', '+', '.', ',', 'x', 'g', 'z', 'G', 'Z', '9', 'f',
                                                 'F', '@', '`', '/', ':', '[', '{', 0x7f, 0x80, 0xff};
            t = cand[s.below(sizeof cand)];
        }
            break;
        case 2:
            // the first character just above the base's alphabet, either case
            t = base < 10 ? '0' + base : base < 36 ? (s.coin() ? 'a' : 'A') + base - 10 : '{';
            break;
        default:
            t = s.u8();
        }
        if (digit_value((unsigned char)t) >= base)
            return t;
        if (tries > 6)
            return 0;
    }
}
static void t_ato(Src &s, Case &c)
{
    Kind k = (Kind)s.below(8);
    int base = (int)s.range(2, 36);
    g_cur_base = base;
    Val v = gen_val(s, k);
    uint32_t casebits = s.pick({0u, 0xffffffffu, 0x55555555u, 0u}) ^ (s.coin() ? s.u32() : 0);
    int term = gen_terminator(s, base);
    static const char *tails[] = {"", "1", "ff", "zz", " 7", "-3"};
    const char *tail = tails[s.below(6)];
    bool with_end = s.below(8) != 0;
    c.log("%s value=%s%llu base=%d case=%08x term=0x%02x tail='%s' end=%d", kind_name[k], v.neg ? "-" : "",
          (unsigned long long)v.mag, base, casebits, term, tail, (int)with_end);
    classify(c, k, v, base);
    if (term)
        c.label("nonzero_terminator");
    if (digit_value((unsigned char)term) < 36)
        c.label("alnum_terminator");
    check_parse(k, v, base, casebits, term, tail, with_end);
}
VP_TARGET("ato", t_ato,
          "igris_ato{i,u}{8..64}: canonical text of a boundary-biased value (letters in random case) in base "
          "2..36, followed by any byte that cannot continue the number (+ tail); non-trivial = |value| >= base");

// Empty digit strings: the text is just [-] (signed parsers) followed by a byte that cannot continue the number
// (NUL included). Nothing is consumed beyond the sign, the value is 0 and the reported position is the
// terminator — "stops at the first character that cannot continue the number and reports that position".
// The same cursor variable is used for a sequence of calls, as a caller walking a "15,7," list does.
static void t_ato_empty(Src &s, Case &c)
{
    Kind k = (Kind)s.below(8);
    int base = (int)s.range(2, 36);
    bool is_signed = k == I8 || k == I16 || k == I32 || k == I64;
    bool minus = is_signed && s.coin();
    int term = s.below(3) == 0 ? 0 : gen_terminator(s, base);
    if (term == '-' && !minus)
        term = 0; // a '-' in front of nothing is the signed parsers' sign, not a terminator
    static const char *tails[] = {"", "1", "ff", "zz", " 7", "-3"};
    const char *tail = tails[s.below(6)];
    size_t tl = term ? strlen(tail) : 0;
    size_t len = minus ? 1 : 0;
    Exact blk(len + 1 + (term ? tl + 1 : 0));
    if (minus)
        blk.p[0] = '-';
    blk.p[len] = (uint8_t)term;
    if (term)
    {
        memcpy(blk.p + len + 1, tail, tl);
        blk.p[len + 1 + tl] = 0;
    }
    c.log("%s base=%d text='%s' then 0x%02x tail='%s'", kind_name[k], base, minus ? "-" : "", term, term ? tail : "");
    c.label(kind_name[k]);
    c.label(term ? "nonzero_terminator" : "nul_terminator");
    c.nontrivial = true;
    // a cursor left somewhere else by an earlier call of the same caller
    Exact other("15", 3);
    char *end = nullptr;
    call_ato(k, other.c(), 10, &end);
    Val got = call_ato(k, blk.c(), base, &end);
    VP_CHECK(got.mag == 0, "ato_empty_value", "%s base %d, no digits: value %s%llu", kind_name[k], base, got.neg ? "-" : "", (unsigned long long)got.mag);
    VP_CHECK(end == blk.c() + len, "ato_empty_end", "%s base %d, no digits before 0x%02x: end %s, want offset %zu of the text", kind_name[k], base, term,
             end >= blk.c() && end <= blk.c() + blk.n ? fmt("at offset %td", end - blk.c()).c_str() : "not inside the text (left over from an earlier call?)", len);
}
VP_TARGET("ato_empty", t_ato_empty,
          "igris_ato{i,u}{8..64} on a text without digits: optional '-' (signed parsers) followed by NUL or any byte that cannot continue the number in "
          "the base, the end cursor re-used from an earlier call: value 0 and end at the terminator; every case non-trivial");

// vt100_left (igris/defs/vt100.h): ESC [ <decimal count> D, NUL terminated, returns the length. Rendered into an
// exactly-sized block pre-filled with a pattern: the text, the terminator right behind it, the returned length, and not a
// byte more.
static void t_vt100(Src &s, Case &c)
{
    int n = s.coin() ? (int)s.range(0, 300) : s.biased_int<int32_t>();
    char ref[32];
    int len = snprintf(ref, sizeof ref, "\x1B[%dD", n);
    size_t slack = (size_t)s.below(3); // 0: exact fit (ASan guards the next byte); else: pattern bytes behind must survive
    Exact blk((size_t)len + 1 + slack);
    memset(blk.p, 0x5a, blk.n);
    int ret = vt100_left(blk.c(), n);
    c.log("vt100_left(%d) slack=%zu", n, slack);
    c.nontrivial = n >= 10 || n < 0;
    VP_CHECK(ret == len, "vt100_left_return", "vt100_left(%d) returned %d, the sequence has %d characters", n, ret, len);
    VP_CHECK(memcmp(blk.p, ref, (size_t)len) == 0 && blk.p[len] == 0, "vt100_left_text", "vt100_left(%d) wrote %s, want ESC[%dD and a terminator", n,
             hexdump(blk.p, (size_t)len + 1, 24).c_str(), n);
    for (size_t i = 0; i < slack; i++)
        VP_CHECK(blk.p[(size_t)len + 1 + i] == 0x5a, "vt100_left_beyond", "vt100_left(%d) changed the byte %zu behind its terminator", n, i + 1);
}
VP_TARGET("vt100", t_vt100,
          "vt100_left(buf, n) for n in 0..300 and boundary-biased 32-bit values into an exactly-sized (or up to 2 bytes larger, pattern-filled) block: returned length, text, "
          "terminator right behind the text, nothing else written; non-trivial = multi-digit or negative count");

// ------------------------------------------------------------ libc itoa
static void t_libc_itoa(Src &s, Case &c)
{
    int which = (int)s.below(4);
    int base = (int)s.range(2, 36);
    Val v;
    char ref[80];
    static const char *names[] = {"itoa", "utoa", "ltoa", "ultoa"};
    switch (which)
    {
    case 0:
        v = gen_val(s, I32);
        break;
    case 1:
        v = gen_val(s, U32);
        break;
    case 2:
        v = gen_val(s, I64);
        break;
    default:
        v = gen_val(s, U64);
    }
    int len = ref_render(ref, v.mag, v.neg, base);
    c.log("%s value=%s%llu base=%d", names[which], v.neg ? "-" : "", (unsigned long long)v.mag, base);
    c.label(names[which]);
    if (v.mag >= (uint64_t)base)
        c.nontrivial = true;
    if (v.neg && (v.mag == 2147483648ull || v.mag == 9223372036854775808ull))
        c.label("min");
    Exact blk((size_t)len + 1);
    memset(blk.p, 0x5a, blk.n);
    char *ret;
    switch (which)
    {
    case 0:
        ret = igc_itoa((int)v.as_signed(), blk.c(), (unsigned short)base);
        break;
    case 1:
        ret = igc_utoa((unsigned)v.mag, blk.c(), (unsigned short)base);
        break;
    case 2:
        ret = igc_ltoa((long)v.as_signed(), blk.c(), (unsigned short)base);
        break;
    default:
        ret = igc_ultoa((unsigned long)v.mag, blk.c(), (unsigned short)base);
    }
    // documented in the shim's stdlib.h: "@return Pointer to buf" (puts(ltoa(x, b, 10)) prints the whole number)
    VP_CHECK(ret == blk.c(), "libc_itoa_return", "%s base %d: returned buf%+td, the documented return value is buf", names[which], base, ret - blk.c());
    VP_CHECK(blk.c()[len] == 0 && ieq(blk.c(), ref, (size_t)len), "libc_itoa_text", "%s base %d: got '%.*s' want '%s'",
             names[which], base, len + 1, blk.c(), ref);
    // the decimal texts parse back through the shim's own atoi / atol (atol.c): the original value, type minima included
    if (base == 10 && (which == 0 || which == 2))
    {
        if (which == 0)
            VP_CHECK(igc_atoi(blk.c()) == (int)v.as_signed(), "libc_atoi_roundtrip", "atoi(\"%s\") = %d", blk.c(), igc_atoi(blk.c()));
        VP_CHECK(igc_atol(blk.c()) == (long)v.as_signed(), "libc_atol_roundtrip", "atol(\"%s\") = %ld", blk.c(), igc_atol(blk.c()));
    }
}
VP_TARGET("libc_itoa", t_libc_itoa,
          "compat/libc itoa/utoa/ltoa/ultoa: boundary-biased value x base 2..36, exact buffer; non-trivial = "
          "multi-digit");

// --------------------------------------------------------------- dprint
static std::string strip_zeros(const std::string &t)
{
    size_t i = 0;
    while (i + 1 < t.size() && t[i] == '0')
        i++;
    return t.substr(i);
}
static void t_dprint(Src &s, Case &c)
{
    g_cap.clear();
    int fn = (int)s.below(24);
    char ref[80];
    std::string want;
    const char *name = "";
    bool strip = false;
#define DEC_S(N, T, CALL)                                                                          \
    case N:                                                                                        \
    {                                                                                              \
        T x = (g_cur_base = (N < 14 ? 10 : N < 18 || N >= 22 ? 16 : 2), draw<T>(s));               \
        name = #CALL;                                                                              \
        bool neg = x < 0;                                                                          \
        uint64_t mag = neg ? 0 - (uint64_t)(int64_t)x : (uint64_t)x;                               \
        ref_render(ref, mag, neg, 10);                                                             \
        c.log("%s(%lld)", name, (long long)x);                                                     \
        if (mag >= 10)                                                                             \
            c.nontrivial = true;                                                                   \
        if (x == std::numeric_limits<T>::min())                                                    \
            c.label("min");                                                                        \
        CALL(x);                                                                                   \
        break;                                                                                     \
    }
#define FMT_U(N, T, CALL, BASE, STRIP)                                                             \
    case N:                                                                                        \
    {                                                                                              \
        T x = (g_cur_base = (N < 14 ? 10 : N < 18 || N >= 22 ? 16 : 2), draw<T>(s));               \
        name = #CALL;                                                                              \
        using UT = std::make_unsigned<T>::type;                                                    \
        ref_render(ref, (UT)x, false, BASE);                                                       \
        c.log("%s(0x%llx)", name, (unsigned long long)(UT)x);                                      \
        if ((uint64_t)(UT)x >= BASE)                                                               \
            c.nontrivial = true;                                                                   \
        strip = STRIP;                                                                             \
        CALL(x);                                                                                   \
        break;                                                                                     \
    }
    switch (fn)
    {
        DEC_S(0, signed char, debug_printdec_signed_char)
        DEC_S(1, signed short, debug_printdec_signed_short)
        DEC_S(2, signed int, debug_printdec_signed_int)
        DEC_S(3, signed long, debug_printdec_signed_long)
        DEC_S(4, signed long long, debug_printdec_signed_long_long)
        FMT_U(5, unsigned char, debug_printdec_unsigned_char, 10, false)
        FMT_U(6, unsigned short, debug_printdec_unsigned_short, 10, false)
        FMT_U(7, unsigned int, debug_printdec_unsigned_int, 10, false)
        FMT_U(8, unsigned long, debug_printdec_unsigned_long, 10, false)
        FMT_U(9, unsigned long long, debug_printdec_unsigned_long_long, 10, false)
        FMT_U(10, uint8_t, debug_printdec_uint8, 10, false)
        FMT_U(11, uint16_t, debug_printdec_uint16, 10, false)
        FMT_U(12, uint32_t, debug_printdec_uint32, 10, false)
        FMT_U(13, uint64_t, debug_printdec_uint64, 10, false)
        FMT_U(14, uint8_t, debug_printhex_uint8, 16, true)
        FMT_U(15, uint16_t, debug_printhex_uint16, 16, true)
        FMT_U(16, uint32_t, debug_printhex_uint32, 16, true)
        FMT_U(17, uint64_t, debug_printhex_uint64, 16, true)
        FMT_U(18, uint8_t, debug_printbin_uint8, 2, true)
        FMT_U(19, uint16_t, debug_printbin_uint16, 2, true)
        FMT_U(20, uint32_t, debug_printbin_uint32, 2, true)
        FMT_U(21, uint64_t, debug_printbin_uint64, 2, true)
        FMT_U(22, signed int, debug_printhex_signed_int, 16, true)
        FMT_U(23, signed long long, debug_printhex_signed_long_long, 16, true)
    }
    c.label(name);
    want = ref;
    // hex/bin renderers are fixed-width by design: leading zeros are their
    // documented form, the digits after them must be the canonical text
    std::string got = strip ? strip_zeros(g_cap) : g_cap;
    VP_CHECK(got.size() == want.size() && ieq(got.data(), want.data(), want.size()), "dprint_text",
             "%s: emitted '%s' want '%s'%s", name, g_cap.c_str(), want.c_str(),
             strip ? " (after leading zeros)" : "");
}
struct SparseMode
{
    SparseMode() { g_sparse = true; }
    ~SparseMode() { g_sparse = false; }
};
static void t_dprint_sparse(Src &s, Case &c)
{
    SparseMode sm;
    t_dprint(s, c);
}
static void t_toa_sparse(Src &s, Case &c)
{
    SparseMode sm;
    t_toa(s, c);
}
static void t_ato_sparse(Src &s, Case &c)
{
    SparseMode sm;
    t_ato(s, c);
}
VP_TARGET("dprint_sparse", t_dprint_sparse,
          "dprint with \"round\" values of the rendering base: 1..max digits, mostly zeros with a few ones, base-1 digits and arbitrary digits (5000100000, 0x100ff0000, "
          "...), either sign");
VP_TARGET("toa_sparse", t_toa_sparse, "toa with values that are sparse digit strings in the conversion's own base (see dprint_sparse)");
VP_TARGET("ato_sparse", t_ato_sparse, "ato with values that are sparse digit strings in the conversion's own base (see dprint_sparse)");
VP_TARGET("dprint", t_dprint,
          "debug_printdec_*/printhex_*/printbin_* with a capturing debug_putchar: boundary-biased value of the "
          "exact argument type; non-trivial = multi-digit");

// ------------------------------------------------ buffer renderers of dprint
// debug_writehex / debug_writebin (and their _reversed twins) render a byte buffer as two hex digits /
// eight binary digits per byte; debug_printbin_uint4 renders a nibble. Oracle: the text has exactly
// 2n / 8n / 4 digits and each group parses back (base 16 / 2, either case) to the byte it stands for, in
// buffer order (reverse order for the twins). The buffer is an exactly-sized heap block.
static void t_dprint_buf(Src &s, Case &c)
{
    g_cap.clear();
    int fn = (int)s.below(5);
    if (fn == 4)
    {
        uint8_t b = (uint8_t)s.below(16);
        c.log("debug_printbin_uint4(%u)", b);
        c.label("printbin_uint4");
        c.nontrivial = b >= 2;
        debug_printbin_uint4(b);
        VP_CHECK(g_cap.size() == 4, "dprint_buf_length", "printbin_uint4(%u) emitted '%s'", b, g_cap.c_str());
        unsigned v = 0;
        for (char ch : g_cap)
        {
            VP_CHECK(ch == '0' || ch == '1', "dprint_buf_alphabet", "printbin_uint4(%u) emitted '%s'", b, g_cap.c_str());
            v = v * 2 + (unsigned)(ch - '0');
        }
        VP_CHECK(v == b, "dprint_buf_value", "printbin_uint4(%u) emitted '%s'", b, g_cap.c_str());
        return;
    }
    size_t n = (size_t)(s.coin() ? s.range(0, 8) : s.range(0, 300));
    Exact buf(n);
    uint8_t b0 = s.u8(), step = (uint8_t)s.pick({0, 1, 17, 85, 255});
    for (size_t i = 0; i < n; i++)
        buf.p[i] = n <= 16 ? s.u8() : (uint8_t)(b0 + i * step);
    static const char *names[] = {"debug_writehex", "debug_writehex_reversed", "debug_writebin", "debug_writebin_reversed"};
    c.log("%s(n=%zu first=%02x)", names[fn], n, n ? buf.p[0] : 0);
    c.label(names[fn]);
    if (n == 0)
        c.label("empty");
    if (n > 255)
        c.label("n>255");
    c.nontrivial = n >= 2;
    bool hex = fn < 2, rev = fn & 1;
    switch (fn)
    {
    case 0:
        debug_writehex(buf.p, (uint16_t)n);
        break;
    case 1:
        debug_writehex_reversed(buf.p, (uint16_t)n);
        break;
    case 2:
        debug_writebin(buf.p, (uint16_t)n);
        break;
    default:
        debug_writebin_reversed(buf.p, (uint16_t)n);
    }
    size_t per = hex ? 2 : 8;
    VP_CHECK(g_cap.size() == per * n, "dprint_buf_length", "%s of %zu bytes emitted %zu characters, expected %zu", names[fn], n, g_cap.size(), per * n);
    for (size_t i = 0; i < n; i++)
    {
        unsigned v = 0;
        for (size_t j = 0; j < per; j++)
        {
            char ch = g_cap[i * per + j];
            int d = ch >= '0' && ch <= '9' ? ch - '0' : ch >= 'a' && ch <= 'f' ? ch - 'a' + 10 : ch >= 'A' && ch <= 'F' ? ch - 'A' + 10 : 99;
            VP_CHECK(d < (hex ? 16 : 2), "dprint_buf_alphabet", "%s: character 0x%02x at position %zu", names[fn], (unsigned char)ch, i * per + j);
            v = v * (hex ? 16u : 2u) + (unsigned)d;
        }
        uint8_t want = buf.p[rev ? n - 1 - i : i];
        VP_CHECK(v == want, "dprint_buf_value", "%s: group %zu reads %02x, the byte there is %02x", names[fn], i, v, want);
    }
}
VP_TARGET("dprint_buf", t_dprint_buf,
          "debug_writehex / debug_writehex_reversed / debug_writebin / debug_writebin_reversed over an exactly-sized heap block of "
          "0..300 bytes and debug_printbin_uint4 of every nibble: digit count, alphabet and parse-back of every group in buffer "
          "(reverse) order; non-trivial = at least two bytes");

// ---------------------------------------- exhaustive: 8/16-bit x all bases
static unsigned __int128 small_enum_size(int) { return 256 + 65536; }
static void t_small_enum(Src &s, Case &c)
{
    uint64_t k = s.below(256 + 65536);
    bool is8 = k < 256;
    uint32_t raw = is8 ? (uint32_t)k : (uint32_t)(k - 256);
    c.log("%s raw=0x%x, signed+unsigned, bases 2..36, render+parse", is8 ? "8-bit" : "16-bit", raw);
    c.nontrivial = raw >= 2;
    c.label(is8 ? "8bit" : "16bit");
    Kind sk = is8 ? I8 : I16, uk = is8 ? U8 : U16;
    int64_t sv = is8 ? (int64_t)(int8_t)raw : (int64_t)(int16_t)raw;
    Val vs = sv < 0 ? Val{true, (uint64_t)(-sv)} : Val{false, (uint64_t)sv};
    Val vu{false, raw};
    for (int base = 2; base <= 36; base++)
    {
        check_render(sk, vs, base);
        check_render(uk, vu, base);
        int term = base < 10 ? '0' + base : base < 36 ? 'a' + base - 10 : 0;
        check_parse(sk, vs, base, raw, term, "", true);
        check_parse(uk, vu, base, ~raw, (raw & 1) ? 0 : term, "1", true);
    }
}
VP_TARGET("small_enum", t_small_enum,
          "exhaustive: every 8-bit and 16-bit value, signed and unsigned, rendered and parsed back in every base "
          "2..36",
          small_enum_size);

// --------------------------- exhaustive: all 32-bit values x 5 bases (thorough)
static unsigned __int128 sweep32_size(int tier) { return tier ? 65536 : 64; }
static void t_sweep32(Src &s, Case &c)
{
    uint64_t total = (uint64_t)sweep32_size(tier());
    uint64_t blk = s.below(total);
    // thorough: block = high 16 bits, all low 16 bits; quick: 64 blocks spread over the range
    uint32_t hi = tier() ? (uint32_t)blk : (uint32_t)(blk * 1024 + (blk & 1 ? 1023 : 0));
    c.log("32-bit block hi=0x%04x (65536 values), i32+u32, bases {2,8,10,16,36}, render+parse", hi);
    c.nontrivial = true;
    static const int bases[5] = {2, 8, 10, 16, 36};
    char ref[80], buf[80];
    for (uint32_t lo = 0; lo < 65536; lo++)
    {
        uint32_t raw = (hi << 16) | lo;
        int32_t sv = (int32_t)raw;
        Val vs = sv < 0 ? Val{true, (uint64_t)(-(int64_t)sv)} : Val{false, (uint64_t)sv};
        for (int bi = 0; bi < 5; bi++)
        {
            int base = bases[bi];
            int len = ref_render(ref, raw, false, base);
            char *r = igris_u32toa(raw, buf, (uint8_t)base);
            if (r != buf + len || buf[len] || !ieq(buf, ref, (size_t)len))
                VP_FAIL("sweep_u32toa", "u32 %u base %d: got '%s' want '%s'", raw, base, buf, ref);
            char *end = nullptr;
            uint32_t back = igris_atou32(buf, (uint8_t)base, &end);
            if (back != raw || end != buf + len)
                VP_FAIL("sweep_atou32", "u32 '%s' base %d: got %u end+%td", buf, base, back, end - buf);
            len = ref_render(ref, vs.mag, vs.neg, base);
            r = igris_i32toa(sv, buf, (uint8_t)base);
            if (r != buf + len || buf[len] || !ieq(buf, ref, (size_t)len))
                VP_FAIL("sweep_i32toa", "i32 %d base %d: got '%s' want '%s'", sv, base, buf, ref);
            int32_t sback = igris_atoi32(buf, (uint8_t)base, &end);
            if (sback != sv || end != buf + len)
                VP_FAIL("sweep_atoi32", "i32 '%s' base %d: got %d end+%td", buf, base, sback, end - buf);
        }
    }
}
VP_TARGET("sweep32", t_sweep32,
          "exhaustive in the thorough tier: all 2^32 32-bit patterns (as i32 and u32) x bases {2,8,10,16,36}, "
          "render + parse back, in blocks of 65536 (quick: 64 sample blocks)",
          sweep32_size);
