// C05 — gstuff receiver: memory-safe, sound and self-resynchronising on any
// stream. Targets: recv_cfg (v1 and v0 alphabets), recv_legacy, recv_enum.
//
// No reference automaton: statement-level predicates over (stream, statuses,
// delivered packets):
//   bounded   stored bytes <= cap-1 after every byte (and ASan on the exact buffer)
//   sound     every NEWPACKAGE delivers exactly the un-escaped bytes since the last
//             start marker (START != STOP) / the previous delimiter (START == STOP),
//             minus a trailing CRC-8 that matches them
//   overflow  a frame whose un-escaped bytes exceed cap-1 is never delivered, and the
//             byte that does not fit is answered with OVERFLOW
//   complete  START != STOP: every well-formed fitting frame is delivered at its STOP;
//             START == STOP: in every run of >= 2 adjacent well-formed fitting frames the
//             frames 2..k are delivered (frame 1 too when no delimiter precedes the run)
#include "gstuff_cfg_impl.h"
#include <map>

using namespace vpbt;
using namespace gs;

namespace
{

enum Kind
{
    K_V1,
    K_V0,
    K_LEGACY,
    K_CUSTOM // the configurable receiver with a user-defined context (target recv_custom)
};
const char *kind_name[] = {"cfg/v1", "cfg/v0", "legacy", "cfg/custom"};
static Alphabet g_custom = kV1;
static const Alphabet &alpha_of(Kind k) { return k == K_V1 ? kV1 : k == K_CUSTOM ? g_custom : kV0; }

struct Delivery
{
    size_t pos; // index of the byte that completed the packet
    Bytes content;
};
struct Trace
{
    std::vector<Status> st;
    std::vector<Delivery> del;
    std::vector<size_t> stored; // raw_len after each byte
};

// Re-arm scenario (target recv_rearm): `pre` is fed to a receiver of capacity pre_cap first (bounded + ASan only),
// then the receiver is handed a fresh buffer of `cap` bytes through setbuf and `stream` follows. The predicates are
// evaluated on `stream` alone, with the re-arm point standing in for "the last start marker" of a frame that was open
// when the buffer was replaced (the new buffer starts empty, so nothing received before it may be delivered).
struct Rearm
{
    Bytes pre;
    size_t pre_cap;
};

Trace run_stream(Kind k, size_t cap, const Bytes &stream, const Rearm *ra = nullptr)
{
    Trace t;
    auto rx = k == K_LEGACY ? make_legacy_receiver(ra ? ra->pre_cap : cap) : make_cfg_receiver(alpha_of(k), ra ? ra->pre_cap : cap);
    if (ra)
    {
        for (size_t i = 0; i < ra->pre.size(); i++)
        {
            rx->feed(ra->pre[i]);
            VP_CHECK(rx->raw_len() <= ra->pre_cap - 1, "bounded_len", "%s cap %zu: %zu bytes stored after byte %zu of the part before the re-arm", kind_name[k],
                     ra->pre_cap, rx->raw_len(), i);
        }
        rx->rearm(cap);
        VP_CHECK(rx->raw_len() == 0, "rearm_not_empty", "%s: %zu bytes stored right after setbuf", kind_name[k], rx->raw_len());
    }
    for (size_t i = 0; i < stream.size(); i++)
    {
        Status s = rx->feed(stream[i]);
        t.st.push_back(s);
        size_t len = rx->raw_len();
        t.stored.push_back(len);
        VP_CHECK(len <= cap - 1, "bounded_len", "%s cap %zu: %zu bytes stored after byte %zu", kind_name[k], cap, len, i);
        if (s == S_NEWPACKAGE)
            t.del.push_back(Delivery{i, rx->packet()});
    }
    return t;
}

// a well-formed frame occurrence: stream[open] is its opening marker, stream[close] its closing one
struct Occ
{
    size_t open, close;
    Bytes content; // un-escaped body minus crc
    size_t unescaped; // un-escaped body length (content + crc)
};

// body = stream(open, close): no raw delimiter inside, un-escapes, last byte = crc of the rest
bool well_formed(const Alphabet &a, const Bytes &stream, size_t open, size_t close, Occ &o)
{
    Bytes un;
    if (close <= open + 1)
        return false;
    if (!ref_unstuff(a, stream.data() + open + 1, close - open - 1, un))
        return false;
    if (un.empty() || crc8(un.data(), un.size() - 1) != un.back())
        return false;
    o.open = open;
    o.close = close;
    o.unescaped = un.size();
    o.content.assign(un.begin(), un.end() - 1);
    return true;
}

const Delivery *delivered_at(const Trace &t, size_t pos)
{
    for (auto &d : t.del)
        if (d.pos == pos)
            return &d;
    return nullptr;
}

std::string show(const Bytes &b) { return hexdump(b.data(), b.size(), 100); }

void check_stream(Kind k, size_t cap, const Bytes &stream, Case &c, const Rearm *ra = nullptr)
{
    const Alphabet &a = alpha_of(k);
    const bool rearmed = ra != nullptr;
    Trace t = run_stream(k, cap, stream, ra);

    // ---- sound (and overflow: a delivered packet always fits) --------------------------
    for (auto &d : t.del)
    {
        // the raw bytes of this frame: back to the last start marker / previous delimiter
        size_t i = d.pos;
        VP_CHECK(stream[i] == a.stop, "sound_not_at_stop", "%s: NEWPACKAGE on byte %zu (0x%02x), not a stop marker; stream %s", kind_name[k], i,
                 stream[i], show(stream).c_str());
        size_t j = i; // scan back for the marker that opened the frame
        bool found = false;
        while (j > 0)
        {
            j--;
            if (stream[j] == a.start || stream[j] == a.stop)
            {
                found = true;
                break;
            }
        }
        size_t body_from = found ? j + 1 : 0;
        if (!found && !rearmed)
            VP_CHECK(k == K_LEGACY, "sound_no_start", "%s: NEWPACKAGE at %zu without any start marker before it; stream %s", kind_name[k], i,
                     show(stream).c_str());
        if (found && !a.same())
            VP_CHECK(stream[j] == a.start, "sound_after_stop", "%s: packet delivered at %zu but the last marker before it (at %zu) is a stop; stream %s",
                     kind_name[k], i, j, show(stream).c_str());
        Bytes un;
        bool ok = ref_unstuff(a, stream.data() + body_from, i - body_from, un);
        VP_CHECK(ok, "sound_bad_escape", "%s: packet delivered at %zu although bytes %zu..%zu do not un-escape; stream %s", kind_name[k], i, body_from,
                 i, show(stream).c_str());
        VP_CHECK(!un.empty() && crc8(un.data(), un.size() - 1) == un.back(), "sound_bad_crc",
                 "%s: packet delivered at %zu although the crc of bytes %zu..%zu does not match; stream %s", kind_name[k], i, body_from, i,
                 show(stream).c_str());
        Bytes want(un.begin(), un.end() - 1);
        VP_CHECK(d.content == want, "sound_content", "%s: delivered %s at %zu, the frame carries %s; stream %s", kind_name[k], show(d.content).c_str(),
                 i, show(want).c_str(), show(stream).c_str());
        VP_CHECK(un.size() <= cap - 1, "overflow_delivered", "%s cap %zu: delivered a frame of %zu un-escaped bytes; stream %s", kind_name[k], cap,
                 un.size(), show(stream).c_str());
        c.label("delivered");
    }

    // ---- overflow: the byte that does not fit is answered with OVERFLOW -----------------
    // (tracked on frames that start at a marker and contain no further marker: the un-escaped
    //  count since that marker is then unambiguous)
    // and ---- complete ---------------------------------------------------------------
    std::vector<Occ> occ;
    for (size_t open = 0; open < stream.size(); open++)
    {
        if (stream[open] != a.start)
            continue;
        size_t close = open + 1;
        while (close < stream.size() && stream[close] != a.start && stream[close] != a.stop)
            close++;
        if (close >= stream.size())
        {
            continue;
        }
        if (stream[close] != a.stop)
            continue;
        Occ o;
        if (well_formed(a, stream, open, close, o))
            occ.push_back(o);
    }
    for (size_t n = 0; n < occ.size(); n++)
    {
        const Occ &o = occ[n];
        bool fits = o.unescaped <= cap - 1;
        bool must;
        if (!a.same())
            must = true; // a start marker always opens a fresh frame
        else
        {
            // frame n is the 2nd..kth of a run of adjacent frames, or nothing but non-delimiter
            // bytes precedes it
            bool adjacent_prev = n > 0 && occ[n - 1].close + 1 == o.open;
            bool clean_prefix = true;
            for (size_t i = 0; i < o.open; i++)
                if (stream[i] == a.start)
                    clean_prefix = false;
            // the previous frame of the run must itself fit, otherwise its overflow handling
            // decides the phase (covered by the next frame of the run)
            must = (adjacent_prev && occ[n - 1].unescaped <= cap - 1) || (clean_prefix && k != K_LEGACY) || (o.open == 0);
            if (k == K_LEGACY && clean_prefix && o.open > 0)
                must = true; // legacy: garbage before the first delimiter is closed by it (crc error), the frame follows
            if (rearmed)
                must = adjacent_prev && occ[n - 1].unescaped <= cap - 1; // the receiver may be mid-frame at the re-arm: second frame of a run at the latest
        }
        const Delivery *d = delivered_at(t, o.close);
        if (fits && must)
        {
            VP_CHECK(d != nullptr, "complete_missed", "%s cap %zu: well-formed frame at %zu..%zu (payload %s) not delivered (status at its stop: %s); stream %s",
                     kind_name[k], cap, o.open, o.close, show(o.content).c_str(), status_name(t.st[o.close]), show(stream).c_str());
            c.label("complete_checked");
        }
        if (!fits)
        {
            VP_CHECK(d == nullptr, "overflow_delivered", "%s cap %zu: frame of %zu un-escaped bytes delivered; stream %s", kind_name[k], cap, o.unescaped,
                     show(stream).c_str());
            if (must)
            {
                bool saw = false;
                for (size_t i = o.open; i <= o.close; i++)
                    if (t.st[i] == S_OVERFLOW)
                        saw = true;
                VP_CHECK(saw, "overflow_not_reported", "%s cap %zu: frame at %zu..%zu of %zu un-escaped bytes does not fit but no OVERFLOW was reported; stream %s",
                         kind_name[k], cap, o.open, o.close, o.unescaped, show(stream).c_str());
                c.label("overflow");
            }
        }
    }
}

// ----------------------------------------------------------------- generator
void append_frame(const Alphabet &a, const Bytes &payload, Bytes &stream)
{
    Bytes f = ref_frame(a, payload);
    stream.insert(stream.end(), f.begin(), f.end());
}

// the *_large targets: receiver capacities around 256 and 512 with frames about as long
static bool g_large = false;
struct LargeMode
{
    LargeMode() { g_large = true; }
    ~LargeMode() { g_large = false; }
};

// the recv_rearm target: setbuf in the middle of the traffic
static bool g_rearm = false;

Bytes gen_payload(Src &s, const Alphabet &a, size_t maxn)
{
    size_t n = g_large && maxn > 8 && s.coin() ? maxn - (size_t)s.below(8) : (size_t)s.below(maxn + 1);
    Bytes p(n);
    const uint8_t marks[6] = {a.start, a.stop, a.stub, a.c_start, a.c_stop, a.c_stub};
    int style = (int)s.below(3);
    for (auto &b : p)
        b = style == 0 ? s.u8() : style == 1 ? marks[s.below(6)] : (s.below(3) == 0 ? marks[s.below(6)] : (uint8_t)('a' + s.below(3)));
    return p;
}

void t_recv(Src &s, Case &c, Kind k)
{
    const Alphabet &a = alpha_of(k);
    size_t cap = g_large ? (size_t)(s.coin() ? s.range(250, 262) : s.range(508, 516)) : (size_t)(s.coin() ? s.range(2, 12) : s.range(2, 48));
    // 64 KiB class of the large target: capacities that do not fit 16 bits; frames stay ordinary (<= 300 bytes, all fit)
    size_t paymax = cap + 3;
    if (g_large && s.below(5) == 0)
    {
        cap = (size_t)s.pick<uint32_t>({65535, 65536, 65537, 65538, 70000, 131072, 131073});
        paymax = 300;
        c.label("capacity>=65535");
    }
    const uint8_t marks[6] = {a.start, a.stop, a.stub, a.c_start, a.c_stop, a.c_stub};
    Bytes stream;
    int nseg = (int)s.range(1, g_large ? 5 : 8);
    bool fault_or_noise = false, good_after = false, overlong = false;
    for (int si = 0; si < nseg && stream.size() < (g_large ? 3000u : 400u); si++)
    {
        switch (s.weighted({2, 2, 4, 3, 1, 1}))
        {
        case 0: // uniform noise
            for (int n = (int)s.range(1, 6); n > 0; n--)
                stream.push_back(s.u8());
            fault_or_noise = true;
            break;
        case 1: // marker-heavy noise
            for (int n = (int)s.range(1, 5); n > 0; n--)
                stream.push_back(s.below(4) == 0 ? (uint8_t)'g' : marks[s.below(6)]);
            fault_or_noise = true;
            c.label("marker_noise");
            break;
        case 2: // well-formed frame (may or may not fit)
        {
            Bytes p = gen_payload(s, a, paymax);
            if (p.size() + 1 > cap - 1)
                overlong = true;
            else if (fault_or_noise)
                good_after = true;
            append_frame(a, p, stream);
            if (s.below(3) == 0)
            {
                // back to back
                Bytes q = gen_payload(s, a, std::min(paymax, cap > 3 ? cap - 3 : 0));
                append_frame(a, q, stream);
                c.label("back_to_back");
            }
            break;
        }
        case 3: // a frame with one fault
        {
            Bytes p = gen_payload(s, a, std::min(paymax, cap + 1));
            Bytes f = ref_frame(a, p);
            size_t at = (size_t)s.below(f.size());
            switch (s.below(7))
            {
            case 0: // truncated
                f.resize(at);
                c.label("fault_truncated");
                break;
            case 1: // one byte flipped
                f[at] ^= (uint8_t)(1u << s.below(8));
                c.label("fault_flip");
                break;
            case 2: // byte inserted
                f.insert(f.begin() + at, s.coin() ? marks[s.below(6)] : s.u8());
                c.label("fault_insert");
                break;
            case 3: // byte deleted
                f.erase(f.begin() + at);
                c.label("fault_delete");
                break;
            case 4: // byte duplicated
                f.insert(f.begin() + at, f[at]);
                c.label("fault_duplicate");
                break;
            case 5: // escape byte followed by an invalid code / by a marker
            {
                Bytes bad = {a.stub, (uint8_t)s.pick({(int)'z', (int)a.start, (int)a.stop, (int)a.stub, 0})};
                if (bad[1] == a.start)
                    c.label("stub_then_start");
                f.insert(f.begin() + std::min<size_t>(at + 1, f.size() - 1), bad.begin(), bad.end());
                c.label("fault_bad_escape");
                break;
            }
            default: // stray delimiter in front
                f.insert(f.begin(), a.start);
                if (a.same())
                    c.label("stray_delim_v0");
                break;
            }
            stream.insert(stream.end(), f.begin(), f.end());
            fault_or_noise = true;
            break;
        }
        case 4: // idle bytes between frames
            for (int n = (int)s.range(1, 4); n > 0; n--)
                stream.push_back((uint8_t)s.pick({0, 0xFF, (int)'x'}));
            break;
        default: // lone marker
            stream.push_back(marks[s.below(3)]);
            fault_or_noise = true;
        }
    }
    if (g_rearm)
    {
        // cut the generated traffic anywhere (not between an escape byte and its code: the legacy setbuf documents no
        // reset of a pending escape) and hand the receiver a new buffer there
        size_t cut = (size_t)s.below(stream.size() + 1);
        while (cut > 0 && stream[cut - 1] == a.stub)
            cut--;
        Rearm ra;
        ra.pre.assign(stream.begin(), stream.begin() + (long)cut);
        ra.pre_cap = s.coin() ? cap : (size_t)s.range(2, 48);
        Bytes rest(stream.begin() + (long)cut, stream.end());
        bool mid = false;
        for (size_t i = cut; i-- > 0;)
        {
            if (stream[i] == a.start || stream[i] == a.stop)
            {
                mid = stream[i] == a.start && i + 1 < cut;
                break;
            }
        }
        if (mid)
            c.label("rearm_inside_a_frame");
        c.log("%s cap=%zu before-rearm[%zu, cap %zu]=%s after[%zu]=%s", kind_name[k], cap, ra.pre.size(), ra.pre_cap, show(ra.pre).c_str(), rest.size(),
              show(rest).c_str());
        c.label(kind_name[k]);
        c.nontrivial = mid;
        check_stream(k, cap, rest, c, &ra);
        return;
    }
    c.log("%s cap=%zu stream[%zu]=%s", kind_name[k], cap, stream.size(), show(stream).c_str());
    c.label(kind_name[k]);
    if (good_after || overlong)
        c.nontrivial = true;
    check_stream(k, cap, stream, c);
}
void t_recv_cfg(Src &s, Case &c) { t_recv(s, c, s.coin() ? K_V1 : K_V0); }
void t_recv_legacy(Src &s, Case &c) { t_recv(s, c, K_LEGACY); }
void t_recv_rearm(Src &s, Case &c)
{
    struct G
    {
        G() { g_rearm = true; }
        ~G() { g_rearm = false; }
    } g;
    switch (s.below(3))
    {
    case 0:
        return t_recv(s, c, K_V1);
    case 1:
        return t_recv(s, c, K_V0);
    default:
        return t_recv(s, c, K_LEGACY);
    }
}
void t_recv_custom(Src &s, Case &c)
{
    // a user-defined context: six bytes from a pool that contains the shipped alphabets' bytes as ordinary values too
    static const uint8_t pool[] = {0x02, 0x03, 0x10, 0x7E, 0x7D, 0x5E, 0x5D, 0xA8, 0xB2, 0xAC, 0xAD, 0x00, 0xFF, 0x41, 0x1B, 0x5C};
    Alphabet a;
    uint8_t used[6];
    int nu = 0;
    auto fresh = [&]() {
        for (size_t tries = 0;; tries++)
        {
            uint8_t b = pool[(s.below(sizeof pool) + tries) % sizeof pool]; // walks on when the drawn entry is taken
            bool dup = false;
            for (int i = 0; i < nu; i++)
                dup |= used[i] == b;
            if (!dup)
            {
                used[nu++] = b;
                return b;
            }
        }
    };
    a.start = fresh();
    bool same = s.below(3) == 0;
    a.stop = same ? a.start : fresh();
    a.stub = fresh();
    a.c_start = fresh();
    a.c_stop = same ? a.c_start : fresh();
    a.c_stub = fresh();
    if ((a.start + a.stub + a.c_stub) % 4 == 0)
    {
        // the classic byte-stuffing convention: the escape byte escapes itself by doubling (DLE DLE)
        a.c_stub = a.stub;
        c.label("custom_doubled_escape");
    }
    g_custom = a;
    c.log("context {start %02x stop %02x stub %02x codes %02x %02x %02x} ", a.start, a.stop, a.stub, a.c_start, a.c_stop, a.c_stub);
    c.label(same ? "custom_same_markers" : "custom_distinct_markers");
    t_recv(s, c, K_CUSTOM);
}
void t_recv_large(Src &s, Case &c)
{
    LargeMode lm;
    switch (s.below(3))
    {
    case 0:
        return t_recv(s, c, K_V1);
    case 1:
        return t_recv(s, c, K_V0);
    default:
        return t_recv(s, c, K_LEGACY);
    }
}

// --------------------------------------------------------------- exhaustive
// all streams of length <= L over 8 symbols {START, STOP|'b', STUB, 3 codes|..., 'a', crc-fixer}
// x capacities {2,3,4,8} x {v1, v0, legacy}; crc-fixer = the byte that makes the running crc of
// the un-escaped bytes since the last marker zero (i.e. a valid crc byte, escaped if needed: 2 bytes)
uint64_t nstreams(int L)
{
    uint64_t t = 0, p = 1;
    for (int l = 0; l <= L; l++)
    {
        t += p;
        p *= 8;
    }
    return t;
}
unsigned __int128 enum_size(int tier) { return nstreams(tier ? 8 : 6) * 4 * 3; }
void t_recv_enum(Src &s, Case &c)
{
    uint64_t k = s.below((uint64_t)enum_size(tier()));
    Kind kind = (Kind)(k % 3);
    k /= 3;
    static const size_t caps[4] = {2, 3, 4, 8};
    size_t cap = caps[k % 4];
    k /= 4;
    const Alphabet &a = kind == K_V1 ? kV1 : kV0;
    size_t n = 0;
    uint64_t p = 1;
    while (k >= p)
    {
        k -= p;
        p *= 8;
        n++;
    }
    Bytes stream, cur; // cur = un-escaped bytes since the last marker
    std::string symtext;
    for (size_t i = 0; i < n; i++)
    {
        int sym = (int)(k % 8);
        k /= 8;
        auto plain = [&](uint8_t b) {
            stream.push_back(b);
            cur.push_back(b);
        };
        switch (sym)
        {
        case 0:
            stream.push_back(a.start);
            cur.clear();
            symtext += "S ";
            break;
        case 1:
            if (a.same())
                plain('b');
            else
            {
                stream.push_back(a.stop);
                cur.clear();
            }
            symtext += a.same() ? "b " : "P ";
            break;
        case 2:
            stream.push_back(a.stub); // raw escape byte: what follows decides
            symtext += "ESC ";
            break;
        case 3:
            plain(a.c_start);
            symtext += "cS ";
            break;
        case 4:
            plain(a.same() ? (uint8_t)'c' : a.c_stop);
            symtext += a.same() ? "c " : "cP ";
            break;
        case 5:
            plain(a.c_stub);
            symtext += "cE ";
            break;
        case 6:
            plain('a');
            symtext += "a ";
            break;
        default:
        {
            // crc of what has been accumulated since the last marker, stuffed
            uint8_t crc = crc8(cur.data(), cur.size());
            Bytes tmp;
            ref_stuff_byte(a, crc, tmp);
            stream.insert(stream.end(), tmp.begin(), tmp.end());
            cur.push_back(crc);
            symtext += "CRC ";
        }
        }
    }
    c.log("enum %s cap=%zu symbols=[%s] stream=%s", kind_name[kind], cap, symtext.c_str(), show(stream).c_str());
    c.nontrivial = n >= 3;
    c.label(kind_name[kind]);
    check_stream(kind, cap, stream, c);
}

} // namespace

VP_TARGET("recv_custom", t_recv_custom,
          "the configurable receiver with a user-defined context: start / stop (one time in three the same byte) / escape and the three escape codes drawn distinct from a pool "
          "that also holds the shipped alphabets' bytes; the stream generator and the four predicates of recv_cfg");
VP_TARGET("recv_rearm", t_recv_rearm,
          "all three receivers: the traffic of recv_cfg is cut at a random point where the receiver is handed a new exactly-sized buffer through "
          "init/setbuf (the old one is freed); bounded before and after, and on the part after the re-arm: sound (nothing received before the new "
          "buffer is delivered: a packet's bytes since the re-arm must un-escape and carry a matching CRC), overflow, and complete from the second "
          "frame of a run at the latest; non-trivial = the cut falls inside a frame");
VP_TARGET("recv_large", t_recv_large,
          "all three receivers with capacity 250..262 / 508..516 (one case in five: 65535..65538, 70000, 131072, 131073 with frames of at most 300 bytes): 1..5 segments of the same kinds as recv_cfg, payload lengths up to capacity+3 and "
          "concentrated within 8 bytes of it (frames that just fit / just do not fit a buffer longer than 255 bytes); same four predicates");
VP_TARGET("recv_cfg", t_recv_cfg,
          "configurable receiver, both alphabets, capacity 2..48: stream <= 400 bytes built from noise (uniform / marker-heavy), "
          "well-formed frames (payload 0..cap+3, so some do not fit), back-to-back frames, frames with one fault (truncated, bit "
          "flip, insert, delete, duplicate, invalid escape incl. escape+marker, stray delimiter), idle bytes, lone markers; oracle = "
          "bounded / sound / overflow / complete predicates (see file header); non-trivial = a fitting well-formed frame after a "
          "fault or noise, or an over-long frame");
VP_TARGET("recv_legacy", t_recv_legacy, "legacy C receiver: same stream generator and predicates (delimiter alphabet 0xAC/0xAD/0xAE/0xAF)");
VP_TARGET("recv_enum", t_recv_enum,
          "exhaustive: every stream of <= 6 (quick) / <= 8 (thorough) symbols over {START, STOP, ESC, code-START, code-STOP, "
          "code-ESC, 'a', valid-crc-byte} x capacities {2,3,4,8} x {v1, v0, legacy}",
          enum_size);
