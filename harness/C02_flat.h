// flat_map / flat_set against std::map / std::set (shared by the hosted and the
// embedded instantiation; the including TU decides which vector they sit on).
#pragma once
#include "vpbt.h"
#include <algorithm>
#include <map>
#include <set>
#include <stdexcept>
#include <string>

namespace c02flat
{
using namespace vpbt;

template <class K> struct Keys;
template <> struct Keys<int>
{
    static int make(int i) { return i * 3 - 4; }
    static std::string show(int k) { return std::to_string(k); }
};
template <> struct Keys<std::string>
{
    static std::string make(int i)
    {
        static const char *k[] = {"", "a", "b", "ab", "a-rather-long-key-that-does-not-fit-the-small-string-buffer", "zz", "B", "aa"};
        return k[i];
    }
    static std::string show(const std::string &k) { return "'" + k.substr(0, 6) + "'"; }
};
template <class M> struct Vals;
template <> struct Vals<int>
{
    static int make(int i) { return i * 7 + 1; }
};
template <> struct Vals<std::string>
{
    static std::string make(int i) { return i % 2 ? std::string(40, (char)('a' + i)) : std::string(1, (char)('0' + i)); }
};

// FM = flat_map<K,M>, FS = flat_set<K>
// ordering predicates for the Compare parameter
struct NoCase
{
    bool operator()(const std::string &a, const std::string &b) const
    {
        size_t n = std::min(a.size(), b.size());
        for (size_t i = 0; i < n; i++)
        {
            int x = a[i] >= 'A' && a[i] <= 'Z' ? a[i] + 32 : a[i], y = b[i] >= 'A' && b[i] <= 'Z' ? b[i] + 32 : b[i];
            if (x != y)
                return x < y;
        }
        return a.size() < b.size();
    }
};

// Cmp orders the reference map, SCmp the reference set. flat_map finds keys with operator== (a linear search, by design), so
// it is only given orders under which equivalent keys are equal keys; flat_set uses its Compare for everything.
template <class FM, class FS, class K, class M, class Cmp = std::less<K>, class SCmp = Cmp> void flat_target(Src &s, Case &c, const char *what)
{
    const int NK = 8;
    FM fm;
    FS fs;
    std::map<K, M, Cmp> rm;
    std::set<K, SCmp> rs;
    bool dup = false, miss = false;
    int nops = (int)s.range(0, 40);
    c.log("%s: ", what);
    int at_a = 0, at_b = 1; // keys whose at() is probed this step (exceptions are slow under ASan)
    auto check = [&](const char *op) {
        VP_CHECK(fm.size() == rm.size(), "map_size", "%s: flat_map size %zu, std::map %zu", op, (size_t)fm.size(), rm.size());
        VP_CHECK(fs.size() == rs.size(), "set_size", "%s: flat_set size %zu, std::set %zu", op, (size_t)fs.size(), rs.size());
        VP_CHECK(fm.empty() == rm.empty(), "map_empty", "%s: flat_map empty()=%d", op, (int)fm.empty());
        for (int i = 0; i < NK; i++)
        {
            K k = Keys<K>::make(i);
            VP_CHECK(fm.count(k) == rm.count(k), "map_count", "%s: flat_map count(%s)=%zu, std::map %zu", op, Keys<K>::show(k).c_str(),
                     (size_t)fm.count(k), rm.count(k));
            VP_CHECK(fs.count(k) == rs.count(k), "set_count", "%s: flat_set count(%s)=%zu, std::set %zu", op, Keys<K>::show(k).c_str(),
                     (size_t)fs.count(k), rs.count(k));
            auto it = fm.find(k);
            VP_CHECK((it != fm.end()) == (rm.find(k) != rm.end()), "map_find", "%s: flat_map find(%s) %s, std::map differs", op,
                     Keys<K>::show(k).c_str(), it != fm.end() ? "hit" : "miss");
            if (it != fm.end())
                VP_CHECK(it->first == rm.find(k)->first && it->second == rm.at(k), "map_find_value", "%s: find(%s) points at the wrong entry", op,
                         Keys<K>::show(k).c_str());
            {
                // const overloads of the lookups are functions of their own
                const auto &cfm = fm;
                auto cit = cfm.find(k);
                VP_CHECK((cit != cfm.end()) == (rm.find(k) != rm.end()), "map_const_find", "%s: const find(%s) %s, std::map differs", op, Keys<K>::show(k).c_str(),
                         cit != cfm.end() ? "hit" : "miss");
                if (cit != cfm.end())
                    VP_CHECK(cit->first == rm.find(k)->first && cit->second == rm.at(k), "map_const_find_value", "%s: const find(%s) points at the wrong entry", op,
                             Keys<K>::show(k).c_str());
                VP_CHECK(cfm.count(k) == rm.count(k) && cfm.size() == rm.size() && cfm.empty() == rm.empty(), "map_const_count", "%s: const count/size/empty differ from std::map",
                         op);
            }
            if (i != at_a && i != at_b)
                continue;
            bool threw = false;
            try
            {
                const M &v = fm.at(k);
                VP_CHECK(rm.count(k) && v == rm.at(k), "map_at_value", "%s: at(%s) returned a value std::map does not hold", op,
                         Keys<K>::show(k).c_str());
            }
            catch (const std::out_of_range &)
            {
                threw = true;
            }
            VP_CHECK(threw == (rm.count(k) == 0), "map_at_throw", "%s: at(%s) %s, std::map would %s", op, Keys<K>::show(k).c_str(),
                     threw ? "threw" : "returned", rm.count(k) ? "return" : "throw");
            // the const overload of at() is a function of its own
            bool cthrew = false;
            try
            {
                const auto &cfm = fm;
                const M &v = cfm.at(k);
                VP_CHECK(rm.count(k) && v == rm.at(k), "map_const_at_value", "%s: const at(%s) returned a value std::map does not hold", op,
                         Keys<K>::show(k).c_str());
            }
            catch (const std::out_of_range &)
            {
                cthrew = true;
            }
            VP_CHECK(cthrew == (rm.count(k) == 0), "map_const_at_throw", "%s: const at(%s) %s, std::map would %s", op, Keys<K>::show(k).c_str(),
                     cthrew ? "threw" : "returned", rm.count(k) ? "return" : "throw");
        }
    };
    check("initial");
    for (int n = 0; n < nops; n++)
    {
        int op = (int)s.below(9);
        int ki = (int)s.below(NK), vi = (int)s.below(6);
        at_a = ki;
        at_b = (int)s.below(NK);
        K k = Keys<K>::make(ki);
        M v = Vals<M>::make(vi);
        char name[64];
        bool present = rm.count(k) != 0;
        switch (op)
        {
        case 0:
        {
            snprintf(name, sizeof name, "map.insert(k%d,v%d)", ki, vi);
            c.log("%s ", name);
            auto it = fm.insert(typename FM::value_type(k, v));
            rm.insert(std::make_pair(k, v)); // does not overwrite
            VP_CHECK(it != fm.end() && it->first == k && it->second == rm.at(k), "map_insert_return", "%s: returned iterator does not designate the entry",
                     name);
            if (present)
                dup = true;
            break;
        }
        case 1:
        {
            snprintf(name, sizeof name, "map.emplace(k%d,v%d)", ki, vi);
            c.log("%s ", name);
            auto r = fm.emplace(k, v);
            auto rr = rm.emplace(k, v);
            VP_CHECK(r.second == rr.second, "map_emplace_flag", "%s: inserted=%d, std::map %d", name, (int)r.second, (int)rr.second);
            VP_CHECK(r.first != fm.end() && r.first->first == k && r.first->second == rm.at(k), "map_emplace_return",
                     "%s: returned iterator does not designate the entry", name);
            if (present)
                dup = true;
            break;
        }
        case 2:
        {
            snprintf(name, sizeof name, "map[k%d]=v%d", ki, vi);
            c.log("%s ", name);
            fm[k] = v;
            rm[k] = v;
            break;
        }
        case 3:
        {
            snprintf(name, sizeof name, "read map[k%d]", ki);
            c.log("%s ", name);
            M got = fm[k]; // inserts a default value when missing
            M want = rm[k];
            VP_CHECK(got == want, "map_index_value", "%s: differs from std::map", name);
            if (!present)
                miss = true;
            break;
        }
        case 4:
            snprintf(name, sizeof name, "set.insert(k%d)", ki);
            c.log("%s ", name);
            if (rs.count(k))
                dup = true;
            fs.insert(k);
            rs.insert(k);
            break;
        case 5:
            if (s.below(4))
                continue;
            snprintf(name, sizeof name, "clear");
            c.log("%s ", name);
            fm.clear();
            rm.clear();
            fs.clear();
            rs.clear();
            break;
        case 6:
        {
            snprintf(name, sizeof name, "copy/assign");
            c.log("%s ", name);
            FM copy(fm);
            FM assigned;
            assigned = copy;
            VP_CHECK(assigned == fm && !(assigned != fm), "map_copy_equal", "a copy of the flat_map does not compare equal to it");
            fm = std::move(assigned);
            FS scopy(fs);
            fs = scopy;
            break;
        }
        case 7:
        {
            // initializer list, possibly with a duplicate key (std::map keeps the first)
            int k2i = (int)s.below(NK);
            K k2 = Keys<K>::make(k2i);
            snprintf(name, sizeof name, "map={{k%d,v%d},{k%d,v0}}", ki, vi, k2i);
            c.log("%s ", name);
            if ((ki + k2i) % 3 == 0)
            {
                // a long list: 24 entries over the 8 keys, so every key comes several times with different values (the first
                // one counts); the entries are a function of the three drawn indices
#define C02_E(i) {Keys<K>::make((ki + (i) * (k2i * 2 + 1)) % NK), Vals<M>::make((vi + (i)) % 6)}
#define C02_E24 C02_E(0), C02_E(1), C02_E(2), C02_E(3), C02_E(4), C02_E(5), C02_E(6), C02_E(7), C02_E(8), C02_E(9), C02_E(10), C02_E(11), C02_E(12), C02_E(13), C02_E(14), \
                C02_E(15), C02_E(16), C02_E(17), C02_E(18), C02_E(19), C02_E(20), C02_E(21), C02_E(22), C02_E(23)
                c.log("[24 entries] ");
                fm = FM{C02_E24};
                rm = std::map<K, M, Cmp>{C02_E24};
#undef C02_E24
#undef C02_E
                dup = true;
                c.label("initlist_long_with_duplicates");
                break;
            }
            fm = FM{{k, v}, {k2, Vals<M>::make(0)}};
            rm = std::map<K, M, Cmp>{{k, v}, {k2, Vals<M>::make(0)}};
            if (ki == k2i)
            {
                dup = true;
                c.label("initlist_duplicate");
            }
            break;
        }
        default:
            snprintf(name, sizeof name, "probe k%d", ki);
            if (!present)
                miss = true;
            break;
        }
        check(name);
    }
    c.nontrivial = dup && miss;
}

} // namespace c02flat
