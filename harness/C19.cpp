// C19 — text, argv and command-line utilities match their definitions and
// stay in bounds (path helpers live in C19_path.cpp).
//
// Targets (random):  split, join, trim, replace, memmem, cmdargs, argvc, shell,
//                    creader
// Targets (enum):    split_enum, ws_enum, cmdargs_enum, search_enum, shell_enum
//
// Every buffer handed to igris is an exactly-sized heap block (vpbt::Exact):
// (ptr,size) interfaces get a NON-terminated block, C-string interfaces a block
// that ends with the terminator. References are written from the property
// statement, not from the implementation.
#include "vpbt.h"

#include <igris/creader.h>
#include <igris/datastruct/argvc.h>
#include <igris/shell/mshell.h>
#include <igris/shell/rshell.h>
#include <igris/util/string.h>

#include <algorithm>
#include <cerrno>
#include <string>
#include <vector>

using namespace vpbt;
typedef std::string Str;

// known-finding slugs (see the report / known_findings.json)
static const char K_SPLIT_CHAR[] = "C19-split-char-overread";
static const char K_SPLIT_DELIMS_OOB[] = "C19-split-delims-overread";
static const char K_SPLIT_DELIMS_NUL[] = "C19-split-delims-nul";
static const char K_CMDARGS_OOB[] = "C19-split-cmdargs-overread";
static const char K_REPL_MAXSIZE[] = "C19-replace-substrings-maxsize";
static const char K_ARGVC_N[] = "C19-argvc-split-n-overrun";
static const char K_SHELL_BLANK[] = "C19-shell-blank-line";
static const char K_CREADER[] = "C19-creader-readline-overread";

// ------------------------------------------------------------------ helpers
static Str esc(const Str &s)
{
    Str o;
    char b[8];
    for (unsigned char ch : s)
    {
        switch (ch)
        {
        case 0:
            o += "\\0";
            break;
        case '\t':
            o += "\\t";
            break;
        case '\n':
            o += "\\n";
            break;
        case '\r':
            o += "\\r";
            break;
        case '\\':
            o += "\\\\";
            break;
        default:
            if (ch >= 0x20 && ch < 0x7f)
                o += (char)ch;
            else
            {
                snprintf(b, sizeof b, "\\x%02x", ch);
                o += b;
            }
        }
    }
    return o;
}
static Str show(const std::vector<Str> &v)
{
    Str o = "[";
    for (size_t i = 0; i < v.size(); i++)
    {
        if (i)
            o += "|";
        o += esc(v[i]);
    }
    return o + "]";
}

// An exactly-sized heap block like vpbt::Exact, except that a zero-length
// buffer is the one-past-the-end pointer of a 1-byte block: ASan gives a
// zero-size allocation one addressable byte, which would hide a read of an
// empty buffer.
struct NBlk
{
    Exact e;
    uint8_t *p;
    size_t n;
    explicit NBlk(size_t n_) : e(n_ ? n_ : 1), p(n_ ? e.p : e.p + 1), n(n_)
    {
        if (!n_)
            e.p[0] = 0xEE;
    }
    NBlk(const void *src, size_t n_) : NBlk(n_)
    {
        if (n_)
            memcpy(p, src, n_);
    }
    char *c() { return (char *)p; }
};

static const char FULL[12] = {'a', 'b', ' ', ',', '\t', '\n', '\r', '"', '\'', '/', '.', '\0'};

// (the text_long target: lengths around 256 / 512 / 1000 whatever the routine's usual maximum)
static bool g_long = false;
static size_t gen_len(Src &s, size_t maxlen)
{
    if (g_long && maxlen >= 40) // the main operand; needles, patterns and replacements keep their short lengths
        switch (s.weighted({3, 4, 2}))
        {
        case 0:
            return (size_t)s.range(250, 262);
        case 1:
            return (size_t)s.range(65, 520);
        default:
            return (size_t)s.range(1000, 1100);
        }
    switch (s.weighted({3, 4, 2}))
    {
    case 0:
        return (size_t)s.range(0, (int64_t)std::min<size_t>(6, maxlen));
    case 1:
        return (size_t)s.range(0, (int64_t)std::min<size_t>(16, maxlen));
    default:
        return (size_t)s.range(0, (int64_t)maxlen);
    }
}
static Str gen_str(Src &s, const char *alpha, size_t asz, size_t maxlen)
{
    size_t n = gen_len(s, maxlen);
    Str d(n, 'a');
    if (g_long && maxlen >= 40)
    {
        // long operand: a drawn period of 1..24 characters repeated, then up to 6 point mutations — delimiters,
        // quotes and NULs occur all along the string while the choice sequence stays short
        size_t plen = (size_t)s.range(1, 24);
        char pat[24];
        for (size_t i = 0; i < plen; i++)
            pat[i] = alpha[s.below(asz)];
        for (size_t i = 0; i < n; i++)
            d[i] = pat[i % plen];
        for (size_t k = (size_t)s.below(7); k > 0 && n; k--)
            d[s.below(n)] = alpha[s.below(asz)];
        return d;
    }
    for (size_t i = 0; i < n; i++)
        d[i] = alpha[s.below(asz)];
    return d;
}
// k-th string (shortest first) over alpha; k must be < count_upto(asz, L)
static uint64_t count_upto(uint64_t asz, int L)
{
    uint64_t t = 0, p = 1;
    for (int l = 0; l <= L; l++)
    {
        t += p;
        p *= asz;
    }
    return t;
}
static Str nth_str(uint64_t k, const char *alpha, uint64_t asz)
{
    size_t n = 0;
    uint64_t p = 1;
    while (k >= p)
    {
        k -= p;
        p *= asz;
        n++;
    }
    Str d(n, 'a');
    for (size_t i = 0; i < n; i++)
    {
        d[i] = alpha[k % asz];
        k /= asz;
    }
    return d;
}

template <class P> static std::vector<Str> ref_split(const Str &d, P isd)
{
    std::vector<Str> out;
    size_t i = 0, n = d.size();
    while (i < n)
    {
        if (isd(d[i]))
        {
            i++;
            continue;
        }
        size_t st = i;
        while (i < n && !isd(d[i]))
            i++;
        out.push_back(d.substr(st, i - st));
    }
    return out;
}
// DESIGN NT rule: a delimiter adjacent to a buffer end, or a repeated delimiter
template <class P> static bool nt_delims(const Str &d, P isd)
{
    if (d.empty())
        return false;
    if (isd(d.front()) || isd(d.back()))
        return true;
    for (size_t i = 0; i + 1 < d.size(); i++)
        if (isd(d[i]) && isd(d[i + 1]))
            return true;
    return false;
}
static bool is_ws(char ch)
{
    return ch == ' ' || ch == '\t' || ch == '\r' || ch == '\n';
}

// ------------------------------------------------------------------- split
static void check_split_char(Case &c, const Str &d, char delim)
{
    auto want = ref_split(d, [&](char ch) { return ch == delim; });
    std::vector<Str> got;
    if (known_active(K_SPLIT_CHAR))
    {
        // the delimiter-skipping loop has no end check: every buffer that is not
        // followed by a readable non-delimiter byte is over-read. Give it one.
        c.known_hit(K_SPLIT_CHAR);
        Str padded = d;
        padded.push_back(delim ? '\0' : 'x');
        NBlk blk(padded.data(), padded.size());
        got = igris::split(igris::buffer((const void *)blk.p, d.size()), delim);
    }
    else
    {
        NBlk blk(d.data(), d.size());
        got = igris::split(igris::buffer((const void *)blk.p, d.size()), delim);
    }
    VP_CHECK(got == want, "split_char_value", "split(\"%s\",'%s') got %s want %s", esc(d).c_str(),
             esc(Str(1, delim)).c_str(), show(got).c_str(), show(want).c_str());
}

// delims: a C string of delimiter characters (so it cannot list NUL)
static void check_split_delims(Case &c, const Str &d, const Str &delims)
{
    auto listed = [&](char ch) { return ch != 0 && delims.find(ch) != Str::npos; };
    auto listed_or_nul = [&](char ch) { return ch == 0 || delims.find(ch) != Str::npos; };
    auto want = ref_split(d, listed);
    bool has_nul = d.find('\0') != Str::npos;
    if (has_nul && known_active(K_SPLIT_DELIMS_NUL))
    {
        // strchr(delims, 0) != NULL: igris treats NUL bytes as delimiters
        c.known_hit(K_SPLIT_DELIMS_NUL);
        want = ref_split(d, listed_or_nul);
    }
    // the skip loop dereferences before comparing with the end: over-read when
    // the buffer ends with a delimiter (or a NUL, which igris takes for one)
    bool ends_delim = !d.empty() && listed_or_nul(d.back());
    std::vector<Str> got;
    if (ends_delim && known_active(K_SPLIT_DELIMS_OOB))
    {
        c.known_hit(K_SPLIT_DELIMS_OOB);
        Str padded = d;
        padded.push_back('x'); // never a delimiter in this harness
        NBlk blk(padded.data(), padded.size());
        got = igris::split(igris::buffer((const void *)blk.p, d.size()), delims.c_str());
    }
    else
    {
        NBlk blk(d.data(), d.size());
        got = igris::split(igris::buffer((const void *)blk.p, d.size()), delims.c_str());
    }
    VP_CHECK(got == want, has_nul ? "split_delims_nul_value" : "split_delims_value",
             "split(\"%s\",\"%s\") got %s want %s", esc(d).c_str(), esc(delims).c_str(),
             show(got).c_str(), show(want).c_str());
}

static void t_split(Src &s, Case &c)
{
    bool multi = s.coin();
    Str d = gen_str(s, FULL, sizeof FULL, 64);
    if (!multi)
    {
        static const char dl[] = {',', ' ', 'a', '\t', '/', '\n', '.', '\0'};
        char delim = dl[s.weighted({6, 6, 3, 2, 2, 2, 1, 1})];
        c.log("split_char d=\"%s\" n=%zu delim='%s'", esc(d).c_str(), d.size(),
              esc(Str(1, delim)).c_str());
        c.nontrivial = nt_delims(d, [&](char ch) { return ch == delim; });
        if (d.empty())
            c.label("empty");
        if (delim == 0)
            c.label("nul_delim");
        if (!d.empty() && d.back() == delim)
            c.label("ends_with_delim");
        check_split_char(c, d, delim);
    }
    else
    {
        static const char pool[] = {',', ' ', '\t', 'a', '/', '.', '\n'};
        size_t k = s.weighted({1, 4, 4, 2}); // number of listed delimiters
        Str delims;
        for (size_t i = 0; i < k; i++)
        {
            char ch = pool[s.below(sizeof pool)];
            if (delims.find(ch) == Str::npos)
                delims.push_back(ch);
        }
        c.log("split_delims d=\"%s\" n=%zu delims=\"%s\"", esc(d).c_str(), d.size(),
              esc(delims).c_str());
        auto listed = [&](char ch) { return ch != 0 && delims.find(ch) != Str::npos; };
        c.nontrivial = nt_delims(d, listed);
        if (d.empty())
            c.label("empty");
        if (delims.empty())
            c.label("no_delims");
        if (d.find('\0') != Str::npos)
            c.label("data_has_nul");
        if (!d.empty() && listed(d.back()))
            c.label("ends_with_delim");
        check_split_delims(c, d, delims);
    }
}
VP_TARGET("split", t_split,
          "random string 0..64 over {a b SP , TAB LF CR \" ' / . NUL} in an exactly-sized "
          "non-terminated block, char overload (delim incl. NUL) or const char* overload (0..3 "
          "listed delimiters); non-trivial = a delimiter at either buffer end or two adjacent "
          "delimiters");

// -------------------------------------------------------------------- join
static void t_join(Src &s, Case &c)
{
    static const char dl[] = {',', ' ', 'a', '/', '\t', '.'};
    char delim = dl[s.below(sizeof dl)];
    size_t k = (size_t)s.range(0, 6);
    std::vector<Str> toks;
    for (size_t i = 0; i < k; i++)
    {
        size_t n = (size_t)s.range(1, 5);
        Str t(n, 'a');
        for (size_t j = 0; j < n; j++)
        {
            char ch = FULL[s.below(sizeof FULL)];
            if (ch == delim)
                ch = (delim == 'b') ? 'a' : 'b';
            t[j] = ch;
        }
        toks.push_back(t);
    }
    c.log("join delim='%s' toks=%s", esc(Str(1, delim)).c_str(), show(toks).c_str());
    c.nontrivial = k >= 2;
    if (k == 0)
        c.label("no_tokens");
    if (k == 1)
        c.label("one_token");
    Str j = igris::join(toks, delim);
    // join is the inverse of split on token lists without the delimiter and
    // without empty tokens: the definitional split of join(t) is t ...
    auto back_ref = ref_split(j, [&](char ch) { return ch == delim; });
    VP_CHECK(back_ref == toks, "join_inverse", "join -> \"%s\"; definitional split gives %s want %s",
             esc(j).c_str(), show(back_ref).c_str(), show(toks).c_str());
    // ... and so is igris::split (std::string input: terminated, delim != NUL)
    auto back = igris::split(igris::buffer(j), delim);
    VP_CHECK(back == toks, "split_join_roundtrip", "join -> \"%s\"; igris::split gives %s want %s",
             esc(j).c_str(), show(back).c_str(), show(toks).c_str());
    if (k >= 1)
    {
        // the iterator-range form with a delimiter string, a prefix and a postfix (what goes round the list is a function of
        // the tokens, no extra choice): prefix + t0 + delim + t1 + ... + postfix
        static const char *const pre[] = {"", "[", "{ ", "("};
        static const char *const post[] = {"", "]", " }", ");"};
        const char *px = pre[(k + toks[0].size()) % 4], *sx = post[(j.size() + k) % 4];
        Str dstr = delim == ',' ? Str(", ") : Str(1, delim);
        Str want = px;
        for (size_t i = 0; i < k; i++)
            want += (i ? dstr : Str()) + toks[i];
        want += sx;
        Str got = igris::join(toks.begin(), toks.end(), dstr.c_str(), px, sx);
        VP_CHECK(got == want, "join_range_form", "join(range of %zu, \"%s\", \"%s\", \"%s\") gives \"%s\", want \"%s\"", k, esc(dstr).c_str(), px, sx, esc(got).c_str(),
                 esc(want).c_str());
    }
}
VP_TARGET("join", t_join,
          "0..6 non-empty tokens (1..5 chars over the full alphabet minus the delimiter), "
          "delimiter from {, SP a / TAB .}; split(join(t)) == t with the reference split and with "
          "igris::split; non-trivial = at least two tokens");

// -------------------------------------------------------------------- trim
static Str ref_trim(const Str &d)
{
    size_t a = 0, b = d.size();
    while (a < b && is_ws(d[a]))
        a++;
    while (b > a && is_ws(d[b - 1]))
        b--;
    return d.substr(a, b - a);
}
static void check_trim(Case &c, const Str &d)
{
    (void)c;
    NBlk blk(d.data(), d.size());
    Str got = igris::trim(igris::buffer((const void *)blk.p, d.size()));
    Str want = ref_trim(d);
    VP_CHECK(got == want, "trim_value", "trim(\"%s\") got \"%s\" want \"%s\"", esc(d).c_str(),
             esc(got).c_str(), esc(want).c_str());
}
static void t_trim(Src &s, Case &c)
{
    static const char al[] = {'a', ' ', '\t', '\n', '\r', 'b', '\0', ',', '.'};
    Str d = gen_str(s, al, s.coin() ? 5 : sizeof al, 64);
    c.log("trim d=\"%s\" n=%zu", esc(d).c_str(), d.size());
    c.nontrivial = !d.empty() && (is_ws(d.front()) || is_ws(d.back()));
    if (d.empty())
        c.label("empty");
    else if (ref_trim(d).empty())
        c.label("all_white");
    if (!d.empty() && d.back() == '\r')
        c.label("ends_with_cr");
    check_trim(c, d);
}
VP_TARGET("trim", t_trim,
          "random string 0..64 over {a SP TAB LF CR} (+ b NUL , .) in an exactly-sized "
          "non-terminated block; non-trivial = white space at either buffer end");

// ---------------------------------------------------------- replace, memmem
static Str ref_replace(const Str &in, const Str &sub, const Str &rep)
{
    if (sub.empty())
        return in;
    Str out;
    size_t i = 0;
    while (i < in.size())
    {
        if (in.size() - i >= sub.size() && in.compare(i, sub.size(), sub) == 0)
        {
            out += rep;
            i += sub.size();
        }
        else
            out += in[i++];
    }
    return out;
}

// fit: 0 exact fit, >0 that many spare bytes, <0 output buffer too small by -fit
static void check_replace(Case &c, const Str &in, const Str &sub, const Str &rep, int fit)
{
    Str want = ref_replace(in, sub, rep);
    Str got = igris::replace(in, sub, rep);
    VP_CHECK(got == want, "replace_value", "replace(\"%s\",\"%s\",\"%s\") got \"%s\" want \"%s\"",
             esc(in).c_str(), esc(sub).c_str(), esc(rep).c_str(), esc(got).c_str(),
             esc(want).c_str());

    size_t need = want.size() + 1;
    size_t maxsize = need;
    if (fit > 0)
        maxsize = need + (size_t)fit;
    else if (fit < 0)
    {
        size_t cut = std::min<size_t>((size_t)-fit, need - 1);
        maxsize = need - cut; // >= 1
    }
    if (maxsize < need && known_active(K_REPL_MAXSIZE))
    {
        c.known_hit(K_REPL_MAXSIZE); // replace_substrings never looks at maxsize
        maxsize = need;
    }
    NBlk bi(in.data(), in.size()), bs(sub.data(), sub.size()), br(rep.data(), rep.size());
    NBlk out(maxsize);
    memset(out.p, 0xAA, maxsize);
    replace_substrings(out.c(), maxsize, bi.c(), in.size(), bs.c(), sub.size(), br.c(), rep.size());
    // (a write beyond maxsize is an ASan failure before we get here)
    VP_CHECK(memchr(out.p, 0, maxsize) != nullptr, "replace_substrings_unterminated",
             "no NUL within maxsize=%zu", maxsize);
    if (maxsize >= need)
    {
        bool ok = memcmp(out.p, want.data(), want.size()) == 0 && out.p[want.size()] == 0;
        VP_CHECK(ok, "replace_substrings_value",
                 "replace_substrings(\"%s\",\"%s\",\"%s\") got \"%s\" want \"%s\"", esc(in).c_str(),
                 esc(sub).c_str(), esc(rep).c_str(), esc(Str(out.c(), want.size() + 1)).c_str(),
                 esc(want).c_str());
    }
}

static void check_memmem(Case &c, const Str &hay, const Str &nd)
{
    (void)c;
    NBlk bh(hay.data(), hay.size()), bn(nd.data(), nd.size());
    void *r = igris_memmem(bh.p, hay.size(), bn.p, nd.size());
    if (nd.empty() || hay.empty())
    {
        // igris documents "we need something to compare" -> NULL; position 0 is
        // the other defensible answer for an empty needle. Accept both.
        bool ok = r == nullptr || (nd.empty() && r == (void *)bh.p);
        VP_CHECK(ok, "memmem_empty", "memmem(l_len=%zu,s_len=%zu) returned offset %td", hay.size(),
                 nd.size(), (uint8_t *)r - bh.p);
        return;
    }
    auto it = std::search(hay.begin(), hay.end(), nd.begin(), nd.end());
    if (it == hay.end())
        VP_CHECK(r == nullptr, "memmem_value", "memmem(\"%s\",\"%s\") got offset %td want NULL",
                 esc(hay).c_str(), esc(nd).c_str(), (uint8_t *)r - bh.p);
    else
        VP_CHECK(r == (void *)(bh.p + (it - hay.begin())), "memmem_value",
                 "memmem(\"%s\",\"%s\") got %s%td want offset %td", esc(hay).c_str(), esc(nd).c_str(),
                 r ? "offset " : "NULL ", r ? (uint8_t *)r - bh.p : (ptrdiff_t)0, it - hay.begin());
}

static Str gen_needle(Src &s, const Str &hay, const char *al, size_t asz, size_t maxn)
{
    if (!hay.empty() && s.chance(3, 5))
    {
        size_t st = s.below(hay.size());
        size_t ln = (size_t)s.range(1, (int64_t)std::min(maxn, hay.size() - st));
        if (s.chance(1, 4)) // the very tail of the haystack
            st = hay.size() - ln;
        Str nd = hay.substr(st, ln);
        if (s.chance(1, 5))
            nd.back() = al[s.below(asz)]; // near miss
        return nd;
    }
    size_t n = (size_t)s.range(0, (int64_t)(s.chance(1, 8) ? maxn : std::min(maxn, hay.size())));
    Str nd(n, 'a');
    for (size_t i = 0; i < n; i++)
        nd[i] = al[s.below(asz)];
    return nd;
}
static size_t count_occ(const Str &in, const Str &sub, bool *at_edge, bool *adjacent)
{
    size_t cnt = 0, i = 0, last_end = (size_t)-1;
    *at_edge = *adjacent = false;
    if (sub.empty())
        return 0;
    while (i + sub.size() <= in.size())
    {
        if (in.compare(i, sub.size(), sub) == 0)
        {
            if (i == 0 || i + sub.size() == in.size())
                *at_edge = true;
            if (i == last_end)
                *adjacent = true;
            cnt++;
            i += sub.size();
            last_end = i;
        }
        else
            i++;
    }
    return cnt;
}

static void t_replace(Src &s, Case &c)
{
    static const char al[] = {'a', 'b', 'c', ' ', '\0'};
    size_t asz = s.weighted({3, 2, 1}) + 2; // {a,b} | {a,b,c} | {a,b,c,SP}
    if (s.chance(1, 8))
        asz = 5;
    Str in = gen_str(s, al, asz, 40);
    Str sub = gen_needle(s, in, al, asz, 4);
    static const char ral[] = {'a', 'b', 'x', ' ', '\0'};
    size_t rn = (size_t)s.range(0, 5);
    Str rep(rn, 'a');
    for (size_t i = 0; i < rn; i++)
        rep[i] = ral[s.below(sizeof ral)];
    if (s.chance(1, 6))
        rep = sub + sub; // replacement contains the pattern: no re-scan allowed
    int fit;
    switch (s.weighted({3, 2, 2}))
    {
    case 0:
        fit = 0;
        break;
    case 1:
        fit = (int)s.range(1, 8);
        break;
    default:
        fit = -(int)s.range(1, 8);
    }
    c.log("replace in=\"%s\" sub=\"%s\" rep=\"%s\" fit=%d", esc(in).c_str(), esc(sub).c_str(),
          esc(rep).c_str(), fit);
    bool edge, adj;
    size_t occ = count_occ(in, sub, &edge, &adj);
    c.nontrivial = occ > 0 && (edge || adj);
    if (sub.empty())
        c.label("empty_pattern");
    if (occ == 0)
        c.label("no_occurrence");
    if (adj)
        c.label("adjacent_occurrences");
    if (fit < 0)
        c.label("output_too_small");
    check_replace(c, in, sub, rep, fit);
}
VP_TARGET("replace", t_replace,
          "input 0..40 over {a b (c SP NUL)}, pattern 0..4 (usually cut from the input), "
          "replacement 0..5 (sometimes containing the pattern); igris::replace and "
          "replace_substrings (exactly-sized non-terminated in/sub/rep, output block of exactly "
          "maxsize: exact fit, spare, or too small); non-trivial = an occurrence at a buffer end "
          "or two adjacent occurrences");

static void t_memmem(Src &s, Case &c)
{
    static const char al[] = {'a', 'b', '\0', 'c'};
    size_t asz = s.weighted({4, 2, 1}) + 2;
    Str hay = gen_str(s, al, asz, 48);
    Str nd = gen_needle(s, hay, al, asz, 6);
    if (s.chance(1, 16))
        nd = hay + Str(1, 'a'); // longer than the haystack
    c.log("memmem hay=\"%s\" needle=\"%s\"", esc(hay).c_str(), esc(nd).c_str());
    c.nontrivial = nd.size() >= 2 && hay.size() >= nd.size();
    if (nd.empty())
        c.label("empty_needle");
    if (nd.size() == 1)
        c.label("needle_1");
    if (nd.size() > hay.size())
        c.label("needle_longer");
    if (nd.size() >= 1 && hay.size() >= nd.size())
    {
        auto it = std::search(hay.begin(), hay.end(), nd.begin(), nd.end());
        if (it == hay.end())
            c.label("absent");
        else if ((size_t)(it - hay.begin()) + nd.size() == hay.size())
            c.label("match_at_tail");
    }
    check_memmem(c, hay, nd);
}
// haystack and needle over all byte values (text in any encoding, binary markers such as FF FE)
static void t_memmem_bytes(Src &s, Case &c)
{
    size_t hn = gen_len(s, 48);
    Str hay(hn, 'a');
    static const unsigned char few[] = {0x80, 0xFF, 0xFE, 0xC3, 0xA0, 'a', 0x00, 0x7F};
    bool narrow = s.coin(); // few distinct values: partial matches and repeats
    for (size_t i = 0; i < hn; i++)
        hay[i] = narrow ? (char)few[s.below(sizeof few)] : (char)s.u8();
    Str nd;
    size_t nn = (size_t)s.range(0, 6);
    if (hn && nn && s.below(4) != 0)
    {
        size_t at = (size_t)s.below(hn);
        nd = hay.substr(at, nn); // cut from the haystack
        if (!nd.empty() && s.below(5) == 0)
            nd.back() = (char)(nd.back() ^ 0x81); // near miss
    }
    else
        for (size_t i = 0; i < nn; i++)
            nd += narrow ? (char)few[s.below(sizeof few)] : (char)s.u8();
    c.log("memmem hay=\"%s\" needle=\"%s\"", esc(hay).c_str(), esc(nd).c_str());
    c.nontrivial = nd.size() >= 2 && hay.size() >= nd.size() && (nd[0] & 0x80);
    if (!nd.empty() && (nd[0] & 0x80))
        c.label("needle_starts_with_high_byte");
    if (nd.size() >= 1 && hay.size() >= nd.size())
        c.label(std::search(hay.begin(), hay.end(), nd.begin(), nd.end()) == hay.end() ? "absent" : "present");
    check_memmem(c, hay, nd);
}
VP_TARGET("memmem_bytes", t_memmem_bytes,
          "igris_memmem with haystack 0..48 and needle 0..6 over all 256 byte values (half of the cases over {80 FF FE C3 A0 'a' 00 7F}), needle usually cut from the haystack "
          "or a near miss; same oracle as memmem; non-trivial = a needle of >= 2 bytes starting with a byte >= 0x80");
VP_TARGET("memmem", t_memmem,
          "haystack 0..48 over {a b (NUL c)}, needle 0..6 (usually cut from the haystack, "
          "sometimes a near miss or the tail), both exactly-sized non-terminated; non-trivial = "
          "needle length >= 2 and not longer than the haystack");

// ----------------------------------------------------------- split_cmdargs
// Reference for the quoting defined by the shipped tests: blank-separated
// tokens; a token that starts with ' or " runs to the matching quote, quotes
// removed, the other quote and blanks are literal inside.  `strict` is false
// for inputs the tests do not define (unclosed quote, quote inside a bare
// word, text glued to a closing quote, empty quotes, other white space).
struct CmdRef
{
    std::vector<Str> toks;
    bool strict = true;
    bool ends_unclosed = false;
    bool quoted = false;
};
static CmdRef ref_cmdargs(const Str &d)
{
    CmdRef r;
    size_t i = 0, n = d.size();
    for (char ch : d)
        if (ch == '\t' || ch == '\n' || ch == '\r' || ch == 0)
            r.strict = false;
    while (true)
    {
        while (i < n && d[i] == ' ')
            i++;
        if (i == n)
            break;
        if (d[i] == '"' || d[i] == '\'')
        {
            char q = d[i++];
            size_t st = i;
            r.quoted = true;
            while (i < n && d[i] != q)
                i++;
            r.toks.push_back(d.substr(st, i - st));
            if (i == n)
            {
                r.strict = false;
                r.ends_unclosed = true;
                break;
            }
            if (i == st)
                r.strict = false;
            i++;
            if (i < n && d[i] != ' ')
                r.strict = false;
        }
        else
        {
            size_t st = i;
            while (i < n && d[i] != ' ')
            {
                if (d[i] == '"' || d[i] == '\'')
                    r.strict = false;
                i++;
            }
            r.toks.push_back(d.substr(st, i - st));
        }
    }
    return r;
}
static void check_cmdargs(Case &c, const Str &d)
{
    CmdRef r = ref_cmdargs(d);
    std::vector<Str> got;
    // every path except "unclosed quote runs to the end" returns to the blank-
    // skipping loop, which dereferences before comparing with the end
    bool overreads = !d.empty() && !r.ends_unclosed;
    if (overreads && known_active(K_CMDARGS_OOB))
    {
        c.known_hit(K_CMDARGS_OOB);
        Str padded = d;
        padded.push_back('\0');
        NBlk blk(padded.data(), padded.size());
        got = igris::split_cmdargs(igris::buffer((const void *)blk.p, d.size()));
    }
    else
    {
        NBlk blk(d.data(), d.size());
        got = igris::split_cmdargs(igris::buffer((const void *)blk.p, d.size()));
    }
    if (r.strict)
    {
        c.label("cmdargs_defined_by_tests");
        VP_CHECK(got == r.toks, "cmdargs_value", "split_cmdargs(\"%s\") got %s want %s",
                 esc(d).c_str(), show(got).c_str(), show(r.toks).c_str());
    }
    else
    {
        // undefined quoting: only "tokens are in-order, non-overlapping pieces of
        // the input"
        c.label("cmdargs_weak_oracle");
        size_t pos = 0;
        for (auto &t : got)
        {
            size_t f = d.find(t, pos);
            VP_CHECK(f != Str::npos, "cmdargs_token_not_in_input",
                     "split_cmdargs(\"%s\") got %s", esc(d).c_str(), show(got).c_str());
            pos = f + t.size();
        }
    }
}
static void t_cmdargs(Src &s, Case &c)
{
    Str d;
    if (s.chance(2, 3))
    {
        // structured: bare words and quoted groups separated by blanks
        size_t k = (size_t)s.range(0, 5);
        for (size_t i = 0, lead = s.below(3); i < lead; i++)
            d += ' ';
        for (size_t i = 0; i < k; i++)
        {
            if (i)
                d.append((size_t)s.range(1, 2), ' ');
            static const char wl[] = {'a', 'b', '.', ','};
            if (s.chance(1, 2))
            {
                char q = s.coin() ? '\'' : '"';
                char oq = q == '"' ? '\'' : '"';
                size_t n = (size_t)s.range(1, 6);
                d += q;
                for (size_t j = 0; j < n; j++)
                {
                    size_t w = s.weighted({4, 2, 1});
                    d += w == 0 ? wl[s.below(sizeof wl)] : w == 1 ? ' ' : oq;
                }
                d += q;
            }
            else
            {
                size_t n = (size_t)s.range(1, 4);
                for (size_t j = 0; j < n; j++)
                    d += wl[s.below(sizeof wl)];
            }
        }
        for (size_t i = 0, tr = s.below(3); i < tr; i++)
            d += ' ';
    }
    else
    {
        static const char al[] = {'a', ' ', '"', '\'', 'b', '\t', '\0'};
        d = gen_str(s, al, s.chance(1, 4) ? sizeof al : 5, 40);
    }
    c.log("cmdargs d=\"%s\" n=%zu", esc(d).c_str(), d.size());
    CmdRef r = ref_cmdargs(d);
    c.nontrivial = r.quoted || nt_delims(d, [](char ch) { return ch == ' '; });
    if (d.empty())
        c.label("empty");
    if (r.quoted)
        c.label("quoted_group");
    if (r.ends_unclosed)
        c.label("unclosed_quote");
    check_cmdargs(c, d);
}
VP_TARGET("cmdargs", t_cmdargs,
          "2/3 structured lines (bare words and '..' / \"..\" groups separated by 1-2 blanks, "
          "optional leading/trailing blanks), 1/3 raw strings 0..40 over {a b SP \" ' (TAB NUL)}, "
          "exactly-sized non-terminated; full equality where the shipped tests define the quoting, "
          "substring/order invariant otherwise; non-trivial = a quoted group, or a blank at a "
          "buffer end, or two adjacent blanks");

// ------------------------------------------------------------------- argvc
struct Tok
{
    size_t off, len;
};
template <class P> static std::vector<Tok> ref_words(const Str &d, P isd)
{
    std::vector<Tok> out;
    size_t i = 0, n = d.size();
    while (i < n)
    {
        if (isd(d[i]))
        {
            i++;
            continue;
        }
        size_t st = i;
        while (i < n && !isd(d[i]))
            i++;
        out.push_back({st, i - st});
    }
    return out;
}

// C string (no embedded NUL) in an exactly-sized terminated block
static void check_argvc_split(Case &c, const Str &d, int argcmax)
{
    (void)c;
    auto words = ref_words(d, is_ws);
    size_t want = std::min<size_t>(words.size(), (size_t)argcmax);
    NBlk blk(d.c_str(), d.size() + 1);
    NBlk av((size_t)argcmax * sizeof(char *));
    memset(av.p, 0x5A, av.n);
    char **argv = (char **)av.p;
    int argc = argvc_internal_split(blk.c(), argv, argcmax);
    VP_CHECK(argc >= 0 && argc <= argcmax, "argvc_split_argc_range", "argc=%d argcmax=%d", argc,
             argcmax);
    VP_CHECK((size_t)argc == want, "argvc_split_argc", "split(\"%s\",max=%d) argc=%d want %zu",
             esc(d).c_str(), argcmax, argc, want);
    for (size_t i = 0; i < want; i++)
    {
        VP_CHECK(argv[i] == blk.c() + words[i].off, "argvc_split_ptr",
                 "split(\"%s\") argv[%zu] at offset %td want %zu", esc(d).c_str(), i,
                 argv[i] - blk.c(), words[i].off);
        Str w = d.substr(words[i].off, words[i].len);
        size_t room = d.size() + 1 - words[i].off;
        VP_CHECK(strnlen(argv[i], room) == w.size() && memcmp(argv[i], w.data(), w.size()) == 0,
                 "argvc_split_token", "split(\"%s\") argv[%zu]=\"%s\" want \"%s\"", esc(d).c_str(), i,
                 esc(Str(argv[i], strnlen(argv[i], room))).c_str(), esc(w).c_str());
    }
}

// (ptr,maxlen) buffer that "may not be terminated" (argvc.h): exactly-sized
// non-terminated block. An embedded NUL either ends the string (strn*
// reading) or is one more separator (what igris does): both accepted.
static void check_argvc_split_n(Case &c, const Str &d, int argcmax)
{
    auto ws_or_nul = [](char ch) { return is_ws(ch) || ch == 0; };
    Str upto = d.substr(0, std::min(d.find('\0'), d.size()));
    std::vector<Tok> refs[2] = {ref_words(d, ws_or_nul), ref_words(upto, is_ws)};
    size_t nref = d.find('\0') == Str::npos ? 1 : 2;

    // igris reads (and may write) data[maxlen] unless it stops early because
    // argcmax words were found and more follow
    bool overruns = refs[0].size() <= (size_t)argcmax;
    Str img = d;
    if (overruns && known_active(K_ARGVC_N))
    {
        c.known_hit(K_ARGVC_N);
        img.push_back('x'); // a NUL or blank here makes igris walk on past it
    }
    NBlk blk(img.data(), img.size());
    NBlk av((size_t)argcmax * sizeof(char *));
    memset(av.p, 0x5A, av.n);
    char **argv = (char **)av.p;
    int argc = argvc_internal_split_n(blk.c(), (int)d.size(), argv, argcmax);
    VP_CHECK(argc >= 0 && argc <= argcmax, "argvc_split_n_argc_range", "argc=%d argcmax=%d", argc,
             argcmax);
    if (img.size() > d.size())
        VP_CHECK(blk.p[d.size()] == 'x', "argvc_split_n_wrote_past_end", "data[maxlen] became %02x",
                 blk.p[d.size()]);
    Str why;
    for (size_t r = 0; r < nref; r++)
    {
        auto &words = refs[r];
        size_t want = std::min<size_t>(words.size(), (size_t)argcmax);
        if ((size_t)argc != want)
        {
            why += fmt("[ref%zu: argc want %zu] ", r, want);
            continue;
        }
        bool ok = true;
        for (size_t i = 0; i < want && ok; i++)
        {
            const Tok &w = words[i];
            if (argv[i] != blk.c() + w.off)
                ok = false;
            else if (memcmp(argv[i], d.data() + w.off, w.len) != 0)
                ok = false;
            else if (w.off + w.len < d.size() && blk.p[w.off + w.len] != 0)
                ok = false; // a word that ends inside the buffer is terminated
        }
        if (ok)
            return;
        why += fmt("[ref%zu: token mismatch] ", r);
    }
    std::vector<Str> got;
    for (int i = 0; i < argc; i++)
    {
        ptrdiff_t off = argv[i] - blk.c();
        if (off < 0 || (size_t)off > d.size())
            got.push_back("<outside>");
        else
            got.push_back(Str(argv[i], strnlen(argv[i], d.size() - (size_t)off)));
    }
    VP_FAIL("argvc_split_n_value", "split_n(\"%s\",maxlen=%zu,max=%d) argc=%d argv=%s %s",
            esc(d).c_str(), d.size(), argcmax, argc, show(got).c_str(), why.c_str());
}

static int gen_argcmax(Src &s)
{
    switch (s.weighted({3, 2, 2, 1}))
    {
    case 0:
        return 10;
    case 1:
        return (int)s.range(1, 3);
    case 2:
        return (int)s.range(0, 12);
    default:
        return 0;
    }
}
static void t_argvc(Src &s, Case &c)
{
    bool n_variant = s.coin();
    static const char al[] = {'a', ' ', '\t', '\n', '\r', 'b', '"', ',', '\0'};
    size_t asz = s.coin() ? 5 : 8;
    if (n_variant && s.chance(1, 5))
        asz = 9;
    Str d = gen_str(s, al, asz, 64);
    int argcmax = gen_argcmax(s);
    c.log("%s d=\"%s\" n=%zu argcmax=%d", n_variant ? "argvc_split_n" : "argvc_split", esc(d).c_str(),
          d.size(), argcmax);
    auto words = ref_words(d, is_ws);
    c.nontrivial = nt_delims(d, is_ws);
    if (d.empty())
        c.label("empty");
    else if (words.empty())
        c.label("blank");
    if (words.size() > (size_t)argcmax)
        c.label("more_words_than_argcmax");
    if (words.size() == (size_t)argcmax)
        c.label("words_eq_argcmax");
    if (n_variant)
        check_argvc_split_n(c, d, argcmax);
    else
        check_argvc_split(c, d, argcmax);
}
// Words of arbitrary bytes (UTF-8 / Latin-1 text, control characters): only SP TAB LF CR separate, whatever the
// signedness of char.
static void t_argvc_bytes(Src &s, Case &c)
{
    bool n_variant = s.coin();
    size_t n = gen_len(s, 48);
    Str d(n, 'a');
    bool high = false;
    for (size_t i = 0; i < n; i++)
    {
        switch (s.weighted({5, 3, 1, 1}))
        {
        case 0:
            d[i] = (char)s.u8();
            break;
        case 1:
            d[i] = s.pick({' ', ' ', '\t', '\n', '\r'});
            break;
        case 2:
            d[i] = (char)(s.pick<uint8_t>({' ', '\t', '\n', '\r'}) | s.pick<uint8_t>({0x40, 0x80, 0xC0})); // a separator's low bits under other high bits
            break;
        default:
            d[i] = 'a';
        }
        if (d[i] == 0 && !(n_variant && s.chance(1, 4)))
            d[i] = (char)0x80;
        high |= (d[i] & 0x80) != 0;
    }
    int argcmax = gen_argcmax(s);
    c.log("%s d=\"%s\" n=%zu argcmax=%d", n_variant ? "argvc_split_n" : "argvc_split", esc(d).c_str(), d.size(), argcmax);
    auto words = ref_words(d, is_ws);
    c.nontrivial = high && !words.empty();
    if (high)
        c.label("high_bytes");
    if (words.size() > (size_t)argcmax)
        c.label("more_words_than_argcmax");
    if (n_variant)
        check_argvc_split_n(c, d, argcmax);
    else
        check_argvc_split(c, d, argcmax);
}
VP_TARGET("argvc_bytes", t_argvc_bytes,
          "argvc_internal_split / _split_n on strings of 0..48 arbitrary bytes (all of 0x01..0xFF, separators over-weighted, bytes that share a separator's low six bits, NUL "
          "for _split_n): only SP TAB LF CR separate words; checks of argvc; non-trivial = a byte >= 0x80 and at least one word");
VP_TARGET("argvc", t_argvc,
          "random string 0..64 over {a SP TAB LF CR (b \" ,)} (+NUL for _split_n), argcmax 0..12; "
          "argvc_internal_split on an exactly-sized terminated block, argvc_internal_split_n on an "
          "exactly-sized non-terminated block, argv array of exactly argcmax slots; non-trivial = "
          "white space at either end or two adjacent white-space characters");

// ------------------------------------------------------------------ shells
struct Call
{
    int id, argc;
    std::vector<Str> args;
    bool ptrs_inside;
    char *out;
    int maxsize;
};
static std::vector<Call> g_calls;
static const char *g_lo, *g_hi;
static void record(int id, int argc, char **argv, char *out, int maxsize)
{
    Call k{id, argc, {}, true, out, maxsize};
    for (int i = 0; i < argc && i < 32; i++)
    {
        const char *p = argv[i];
        if (p < g_lo || p >= g_hi)
        {
            k.ptrs_inside = false;
            k.args.push_back("<outside>");
            continue;
        }
        k.args.emplace_back(p, strnlen(p, (size_t)(g_hi - p)));
    }
    g_calls.push_back(k);
}
template <int ID> static int mh(int argc, char **argv)
{
    record(ID, argc, argv, nullptr, 0);
    return 100 + ID;
}
template <int ID> static int rh(int argc, char **argv, char *out, int maxsize)
{
    record(ID, argc, argv, out, maxsize);
    return 100 + ID;
}
typedef int (*mfun)(int, char **);
typedef int (*rfun)(int, char **, char *, int);
static const mfun MH[4] = {mh<0>, mh<1>, mh<2>, mh<3>};
static const rfun RH[4] = {rh<0>, rh<1>, rh<2>, rh<3>};

// The dispatchers keep argv[10] uninitialised on their stack; fill the stack
// region they are about to use with a non-canonical pointer pattern so that a
// read of a never-written argv slot faults deterministically instead of
// depending on what an earlier call left there.
__attribute__((noinline)) static void scribble_stack()
{
    volatile unsigned char junk[1536];
    for (size_t i = 0; i < sizeof junk; i++)
        junk[i] = 0x01;
}

enum ShellFn
{
    MSH_EXEC,
    MSH_TABLES,
    RSH_EXEC,
    RSH_TABLES
};
static const char *const FN_NAME[4] = {"mshell_execute", "mshell_tables_execute", "rshell_execute",
                                       "rshell_tables_execute"};

// names: distinct command names; split_at: names[0..split_at) go to the first
// table, the rest to the second (tables_* only; an empty table sits between
// them when `gap`); drop[t]: dropargs of table t (rshell only)
static void check_shell(Case &c, int fn, const std::vector<Str> &names, size_t split_at, bool gap,
                        const int drop[2], const Str &line)
{
    const int ARGCMAX = 10;
    g_calls.clear();
    auto words = ref_words(line, is_ws);
    size_t nargs = std::min<size_t>(words.size(), ARGCMAX);
    bool blank = words.empty() && !line.empty();
    if (fn == MSH_EXEC || fn == RSH_EXEC)
        split_at = names.size();

    if (blank && !names.empty() && fn != RSH_TABLES && known_active(K_SHELL_BLANK))
    {
        // argvc_internal_split returns 0 and argv[0] is read uninitialised
        c.known_hit(K_SHELL_BLANK);
        return;
    }

    NBlk blk(line.c_str(), line.size() + 1);
    g_lo = blk.c();
    g_hi = blk.c() + line.size() + 1;
    int ret = -777;
    int rc;
    const int OUTSZ = 7;
    NBlk out(OUTSZ);
    // a caller not interested in the handler's return value passes no place for it (decided by the case's content, no
    // extra choice): the handler still runs, with the same arguments
    const bool no_ret = (line.size() * 7 + names.size() * 3 + (size_t)fn) % 4 == 0;
    int *const retp = no_ret ? nullptr : &ret;
    if (no_ret)
        c.label("null_retptr");

    if (fn == MSH_EXEC || fn == MSH_TABLES)
    {
        std::vector<mshell_command> t0, t1, te;
        for (size_t i = 0; i < names.size(); i++)
            (i < split_at ? t0 : t1).push_back({names[i].c_str(), MH[i], i & 1 ? "help" : nullptr});
        t0.push_back({nullptr, nullptr, nullptr});
        t1.push_back({nullptr, nullptr, nullptr});
        te.push_back({nullptr, nullptr, nullptr});
        if (fn == MSH_EXEC)
        {
            scribble_stack();
            rc = mshell_execute(blk.c(), t0.data(), retp);
        }
        else
        {
            std::vector<const mshell_command *> tabs;
            tabs.push_back(t0.data());
            if (gap)
                tabs.push_back(te.data());
            tabs.push_back(t1.data());
            tabs.push_back(nullptr);
            scribble_stack();
            rc = mshell_tables_execute(blk.c(), tabs.data(), retp);
        }
    }
    else
    {
        std::vector<rshell_command> t0, t1, te;
        for (size_t i = 0; i < names.size(); i++)
            (i < split_at ? t0 : t1).push_back({names[i].c_str(), RH[i], i & 1 ? "help" : nullptr});
        t0.push_back({nullptr, nullptr, nullptr});
        t1.push_back({nullptr, nullptr, nullptr});
        te.push_back({nullptr, nullptr, nullptr});
        if (fn == RSH_EXEC)
        {
            scribble_stack();
            rc = rshell_execute(blk.c(), t0.data(), retp, drop[0], out.c(), OUTSZ);
        }
        else
        {
            std::vector<rshell_command_table> tabs;
            tabs.push_back({t0.data(), drop[0]});
            if (gap)
                tabs.push_back({te.data(), 0});
            tabs.push_back({t1.data(), drop[1]});
            tabs.push_back({nullptr, 0});
            scribble_stack();
            rc = rshell_tables_execute(blk.c(), tabs.data(), retp, out.c(), OUTSZ);
        }
    }

    const char *F = FN_NAME[fn];
    if (words.empty())
    {
        // empty / blank line: nothing runs (any return code)
        VP_CHECK(g_calls.empty(), "shell_blank_ran_handler", "%s(\"%s\") ran handler %d", F,
                 esc(line).c_str(), g_calls[0].id);
        return;
    }
    Str first = line.substr(words[0].off, words[0].len);
    int hit = -1;
    for (size_t i = 0; i < names.size() && hit < 0; i++)
        if (names[i] == first)
            hit = (int)i;
    if (hit < 0)
    {
        VP_CHECK(g_calls.empty(), "shell_ran_unknown", "%s(\"%s\"): \"%s\" is not a command but handler %d ran",
                 F, esc(line).c_str(), esc(first).c_str(), g_calls[0].id);
        VP_CHECK(rc == ENOENT, "shell_rc_unknown", "%s(\"%s\") returned %d want ENOENT", F,
                 esc(line).c_str(), rc);
        return;
    }
    VP_CHECK(g_calls.size() == 1, "shell_handler_count", "%s(\"%s\"): %zu handler calls want 1", F,
             esc(line).c_str(), g_calls.size());
    const Call &k = g_calls[0];
    VP_CHECK(k.id == hit, "shell_wrong_handler", "%s(\"%s\") ran handler %d want %d", F,
             esc(line).c_str(), k.id, hit);
    int d = 0;
    if (fn == RSH_EXEC)
        d = drop[0];
    if (fn == RSH_TABLES)
        d = (size_t)hit < split_at ? drop[0] : drop[1];
    std::vector<Str> want;
    for (size_t i = (size_t)d; i < nargs; i++)
        want.push_back(line.substr(words[i].off, words[i].len));
    VP_CHECK(k.argc <= ARGCMAX, "shell_argc_over_limit", "%s(\"%s\") argc=%d", F, esc(line).c_str(),
             k.argc);
    VP_CHECK(k.argc == (int)nargs - d && k.ptrs_inside && k.args == want, "shell_args",
             "%s(\"%s\") handler got argc=%d %s want argc=%d %s", F, esc(line).c_str(), k.argc,
             show(k.args).c_str(), (int)nargs - d, show(want).c_str());
    if (fn == RSH_EXEC || fn == RSH_TABLES)
        VP_CHECK(k.out == out.c() && k.maxsize == OUTSZ, "rshell_output_args",
                 "%s handler got output=%p/%d want %p/%d", F, (void *)k.out, k.maxsize,
                 (void *)out.c(), OUTSZ);
    VP_CHECK(rc == SSHELL_OK && ret == (no_ret ? -777 : 100 + hit), "shell_rc_hit", "%s(\"%s\"%s) rc=%d ret=%d want 0/%d", F,
             esc(line).c_str(), no_ret ? ", no place for the return value" : "", rc, ret, no_ret ? -777 : 100 + hit);
}

// Nested dispatch: the handler of the outer command dispatches a second line through the same dispatcher (a
// "repeat"/"time"/"sudo"-style command) before it looks at its own arguments — those must still be the tokens of
// its own line, inside its own buffer, and the inner handler must have seen the tokens of the inner line.
struct Nest
{
    int fn = 0;
    const mshell_command *mt = nullptr;
    const rshell_command *rt = nullptr;
    NBlk *inner = nullptr; // the inner line in its own exactly-sized block
    int inner_rc = -1, inner_ret = -1;
    int depth = 0;
};
static Nest g_nest;
static void nested_dispatch()
{
    if (g_nest.depth)
        return;
    g_nest.depth = 1;
    const char *lo = g_lo, *hi = g_hi;
    g_lo = g_nest.inner->c();
    g_hi = g_nest.inner->c() + g_nest.inner->n;
    if (g_nest.fn == MSH_EXEC)
        g_nest.inner_rc = mshell_execute(g_nest.inner->c(), g_nest.mt, &g_nest.inner_ret);
    else if (g_nest.fn == MSH_TABLES)
    {
        const mshell_command *tabs[2] = {g_nest.mt, nullptr};
        g_nest.inner_rc = mshell_tables_execute(g_nest.inner->c(), tabs, &g_nest.inner_ret);
    }
    else if (g_nest.fn == RSH_EXEC)
        g_nest.inner_rc = rshell_execute(g_nest.inner->c(), g_nest.rt, &g_nest.inner_ret, 0, nullptr, 0);
    else
    {
        rshell_command_table tabs[2] = {{g_nest.rt, 0}, {nullptr, 0}};
        g_nest.inner_rc = rshell_tables_execute(g_nest.inner->c(), tabs, &g_nest.inner_ret, nullptr, 0);
    }
    g_lo = lo;
    g_hi = hi;
    g_nest.depth = 0;
}
static int mh_outer(int argc, char **argv)
{
    nested_dispatch();
    record(0, argc, argv, nullptr, 0);
    return 100;
}
static int rh_outer(int argc, char **argv, char *out, int maxsize)
{
    nested_dispatch();
    record(0, argc, argv, out, maxsize);
    return 100;
}
static void t_shell_nested(Src &s, Case &c)
{
    static const char *const wordpool[] = {"x", "yy", "1", "b.", "q,q", "zzz", "7"};
    int fn = (int)s.below(4);
    auto make_line = [&](const char *cmd, size_t nwords) {
        Str l = cmd;
        for (size_t i = 0; i < nwords; i++)
        {
            l += s.coin() ? " " : "  ";
            l += wordpool[s.below(7)];
        }
        if (s.coin())
            l += s.coin() ? "\r\n" : " ";
        return l;
    };
    Str outer = make_line("rep", (size_t)s.range(0, 9)), inner = make_line("echo", (size_t)s.range(0, 9));
    mshell_command mt[3] = {{"rep", mh_outer, nullptr}, {"echo", mh<1>, "help"}, {nullptr, nullptr, nullptr}};
    rshell_command rt[3] = {{"rep", rh_outer, nullptr}, {"echo", rh<1>, "help"}, {nullptr, nullptr, nullptr}};
    NBlk oblk(outer.c_str(), outer.size() + 1), iblk(inner.c_str(), inner.size() + 1);
    g_nest = Nest{};
    g_nest.fn = fn;
    g_nest.mt = mt;
    g_nest.rt = rt;
    g_nest.inner = &iblk;
    g_calls.clear();
    g_lo = oblk.c();
    g_hi = oblk.c() + outer.size() + 1;
    int ret = -777, rc;
    const char *F = FN_NAME[fn];
    c.log("%s outer=\"%s\" inner=\"%s\"", F, esc(outer).c_str(), esc(inner).c_str());
    c.label(F);
    c.nontrivial = true;
    scribble_stack();
    if (fn == MSH_EXEC)
        rc = mshell_execute(oblk.c(), mt, &ret);
    else if (fn == MSH_TABLES)
    {
        const mshell_command *tabs[2] = {mt, nullptr};
        rc = mshell_tables_execute(oblk.c(), tabs, &ret);
    }
    else if (fn == RSH_EXEC)
        rc = rshell_execute(oblk.c(), rt, &ret, 0, nullptr, 0);
    else
    {
        rshell_command_table tabs[2] = {{rt, 0}, {nullptr, 0}};
        rc = rshell_tables_execute(oblk.c(), tabs, &ret, nullptr, 0);
    }
    auto want_of = [&](const Str &line) {
        std::vector<Str> w;
        auto words = ref_words(line, is_ws);
        for (size_t i = 0; i < words.size() && i < 10; i++)
            w.push_back(line.substr(words[i].off, words[i].len));
        return w;
    };
    VP_CHECK(g_calls.size() == 2, "shell_nested_calls", "%s: %zu handler calls, want the inner and the outer one", F, g_calls.size());
    VP_CHECK(g_calls[0].id == 1 && g_calls[0].ptrs_inside && g_calls[0].args == want_of(inner), "shell_nested_inner_args",
             "%s: the inner handler got %s, the inner line has %s", F, show(g_calls[0].args).c_str(), show(want_of(inner)).c_str());
    VP_CHECK(g_nest.inner_rc == SSHELL_OK && g_nest.inner_ret == 101, "shell_nested_inner_rc", "%s: inner dispatch rc=%d ret=%d", F, g_nest.inner_rc,
             g_nest.inner_ret);
    VP_CHECK(g_calls[1].id == 0 && g_calls[1].ptrs_inside && g_calls[1].args == want_of(outer), "shell_nested_outer_args",
             "%s: after the nested dispatch the outer handler's argv reads %s, its line has %s", F, show(g_calls[1].args).c_str(),
             show(want_of(outer)).c_str());
    VP_CHECK(rc == SSHELL_OK && ret == 100, "shell_nested_rc", "%s: outer dispatch rc=%d ret=%d", F, rc, ret);
}
VP_TARGET("shell_nested", t_shell_nested,
          "all four dispatchers: the handler of the outer command (\"rep\" + 0..9 words) dispatches an inner line (\"echo\" + 0..9 words) through the same "
          "dispatcher before reading its own argv; both handlers must have received exactly the tokens of their own line, pointing into their own buffer");

static void t_shell(Src &s, Case &c)
{
    static const char *const pool[] = {"a", "ab", "b", "go", "abc", "ba"};
    int fn = (int)s.below(4);
    size_t k = (size_t)s.range(0, 4);
    std::vector<Str> names;
    for (size_t i = 0; i < k; i++)
    {
        Str nm = pool[s.below(6)];
        if (std::find(names.begin(), names.end(), nm) == names.end())
            names.push_back(nm);
    }
    size_t split_at = names.empty() ? 0 : s.below(names.size() + 1);
    bool gap = s.coin();
    int drop[2] = {(int)s.below(2), (int)s.below(2)};
    if (fn == MSH_EXEC || fn == MSH_TABLES)
        drop[0] = drop[1] = 0;

    // the line
    static const char wsl[] = {' ', '\t', '\r', '\n'};
    static const char wl[] = {'a', 'b', '1', '"', '.', ','};
    size_t ntok;
    switch (s.weighted({1, 6, 2}))
    {
    case 0:
        ntok = 0;
        break;
    case 1:
        ntok = (size_t)s.range(1, 4);
        break;
    default:
        ntok = (size_t)s.range(9, 13);
    }
    Str line;
    auto put_ws = [&](size_t lo, size_t hi) {
        for (size_t i = 0, n = (size_t)s.range((int64_t)lo, (int64_t)hi); i < n; i++)
            line += wsl[s.weighted({5, 1, 1, 1})];
    };
    put_ws(0, 2);
    const char *kind = "none";
    for (size_t i = 0; i < ntok; i++)
    {
        if (i)
            put_ws(1, 2);
        Str t;
        if (i == 0 && !names.empty() && s.chance(3, 4))
        {
            t = names[s.below(names.size())];
            switch (s.weighted({4, 1, 1}))
            {
            case 0:
                kind = "command";
                break;
            case 1:
                kind = "prefix_of_command";
                t.pop_back();
                if (t.empty())
                    t = "z";
                break;
            default:
                kind = "command_plus_char";
                t += wl[s.below(2)];
            }
        }
        else
        {
            if (i == 0)
                kind = "other";
            size_t n = (size_t)s.range(1, 3);
            for (size_t j = 0; j < n; j++)
                t += wl[s.below(sizeof wl)];
        }
        line += t;
    }
    put_ws(0, 2);

    c.log("%s names=%s split_at=%zu gap=%d drop=%d,%d line=\"%s\" first=%s", FN_NAME[fn],
          show(names).c_str(), split_at, gap, drop[0], drop[1], esc(line).c_str(), kind);
    auto words = ref_words(line, is_ws);
    bool hit = !words.empty() && std::find(names.begin(), names.end(),
                                           line.substr(words[0].off, words[0].len)) != names.end();
    c.nontrivial = words.empty() || words.size() > 10 || hit;
    c.label(FN_NAME[fn]);
    if (line.empty())
        c.label("empty_line");
    else if (words.empty())
        c.label("blank_line");
    if (words.size() > 10)
        c.label("more_than_10_words");
    if (hit)
        c.label("table_hit");
    else if (!words.empty())
        c.label(kind[0] == 'p' ? "miss_prefix" : "miss");
    if (names.empty())
        c.label("empty_table");
    check_shell(c, fn, names, split_at, gap, drop, line);
}
VP_TARGET("shell", t_shell,
          "mshell_execute / mshell_tables_execute / rshell_execute / rshell_tables_execute with "
          "0..4 distinct commands (two tables, optional empty table between, dropargs 0/1), line "
          "of 0, 1..4 or 9..13 words separated by 1-2 of {SP TAB CR LF} with optional "
          "leading/trailing white space, first word = a command / its prefix / command+char / "
          "other, in an exactly-sized terminated block; non-trivial = empty or blank line, more "
          "than 10 words, or a table hit");

// ----------------------------------------------------------------- creader
// Bounds only: every token/length/cursor lies inside [strt, fini].
static void check_creader(Case &c, const Str &d, Src *ops)
{
    Str img = d;
    // creader_readline dereferences before comparing with fini: over-read when
    // no LF / NUL ends the last line
    bool open_tail = !d.empty() && d.back() != '\n' && d.back() != '\0';
    bool padded = false;
    if (open_tail && known_active(K_CREADER))
    {
        img.push_back('\0');
        padded = true;
    }
    NBlk blk(img.data(), img.size());
    const char *strt = blk.c(), *fini = blk.c() + d.size();
    struct creader r;
    creader_init(&r, strt, d.size());
    const char *prev = r.cursor;
    for (size_t step = 0; step < d.size() + 3; step++)
    {
        int op = ops ? (int)ops->weighted({6, 1, 1}) : 0;
        if (op == 0)
        {
            const char *tok = (const char *)8;
            ptrdiff_t len = creader_readline(&r, &tok);
            VP_CHECK(tok >= strt && tok <= fini, "creader_token_outside", "\"%s\": token offset %td",
                     esc(d).c_str(), tok - strt);
            VP_CHECK(len >= -1 && (len < 0 || tok + len <= fini), "creader_len_outside",
                     "\"%s\": token offset %td len %td size %zu", esc(d).c_str(), tok - strt, len,
                     d.size());
            VP_CHECK((len == -1) == (prev == fini), "creader_end", "\"%s\": len %td at cursor %td",
                     esc(d).c_str(), len, prev - strt);
            if (len == -1)
                break;
            if (r.cursor == prev)
            {
                // last line without terminator: the cursor stays (not judged)
                c.label("creader_open_last_line");
                if (padded)
                    c.known_hit(K_CREADER);
                break;
            }
        }
        else if (op == 1)
            creader_skipws(&r);
        else
            creader_skip(&r, "a,");
        VP_CHECK(r.cursor >= prev && r.cursor <= fini, "creader_cursor_outside",
                 "\"%s\": cursor offset %td", esc(d).c_str(), r.cursor - strt);
        prev = r.cursor;
    }
}
static void t_creader(Src &s, Case &c)
{
    static const char al[] = {'a', '\n', ' ', '\r', '\0', '\t', ','};
    Str d = gen_str(s, al, s.coin() ? 4 : sizeof al, 48);
    c.log("creader d=\"%s\" n=%zu ops=", esc(d).c_str(), d.size());
    // log the op choices by replaying them: ops are drawn inside check_creader,
    // so describe the remaining choice bytes instead
    c.nontrivial = !d.empty() && (d.back() != '\n' || d.find("\n\n") != Str::npos ||
                                  d.find("\r\n") != Str::npos || d.front() == '\n');
    if (d.empty())
        c.label("empty");
    if (!d.empty() && d.back() != '\n' && d.back() != '\0')
        c.label("open_last_line");
    Src ops = s; // copy: same remaining choices, logged below
    Str opl;
    for (size_t i = 0; i < d.size() + 3; i++)
        opl += "rws"[ops.weighted({6, 1, 1})];
    c.log("%s", opl.c_str());
    check_creader(c, d, &s);
}
VP_TARGET("creader", t_creader,
          "random buffer 0..48 over {a LF SP CR (NUL TAB ,)}, exactly-sized non-terminated, a "
          "random sequence of readline/skipws/skip until the end; bounds only; non-trivial = last "
          "line open, or empty lines / CRLF / leading LF present");

// ============================================================ enumerations
static int enum_L()
{
    return tier() ? 8 : 6;
}

// all strings over {a , SP NUL}: split(char) with ',' and ' ', split(delims)
// with "," and ", ", trim
static const char A_SPLIT[4] = {'a', ',', ' ', '\0'};
static unsigned __int128 split_enum_size(int t)
{
    return count_upto(4, t ? 8 : 6);
}
static void t_text_long(Src &s, Case &c)
{
    struct G
    {
        G() { g_long = true; }
        ~G() { g_long = false; }
    } g;
    c.label("long_text");
    switch (s.below(7))
    {
    case 0:
        return t_split(s, c);
    case 1:
        return t_trim(s, c);
    case 2:
        return t_replace(s, c);
    case 3:
        return t_memmem(s, c);
    case 4:
        return t_cmdargs(s, c);
    case 5:
        return t_argvc(s, c);
    default:
        return t_creader(s, c);
    }
}
VP_TARGET("text_long", t_text_long,
          "split / trim / replace / memmem / split_cmdargs / argvc / creader on strings of 250..262, 65..520 or 1000..1100 characters "
          "(the same alphabets, exactly-sized blocks and oracles as the short-string targets; first choice selects the routine)");

static void t_split_enum(Src &s, Case &c)
{
    uint64_t k = s.below((uint64_t)split_enum_size(tier()));
    Str d = nth_str(k, A_SPLIT, 4);
    c.log("split_enum d=\"%s\"", esc(d).c_str());
    c.nontrivial = true;
    check_split_char(c, d, ',');
    check_split_char(c, d, ' ');
    check_split_char(c, d, 'a');
    check_split_delims(c, d, ",");
    check_split_delims(c, d, ", ");
    check_split_delims(c, d, "");
    check_trim(c, d);
}
VP_TARGET("split_enum", t_split_enum,
          "exhaustive: every string of length <=6 (quick) / <=8 (thorough) over {a , SP NUL}: "
          "split with ',' ' ' 'a', split with \",\" \", \" \"\", trim",
          split_enum_size);

// all strings over {a SP TAB LF CR}: trim, argvc (argcmax 0,1,2,10), creader
static const char A_WS[5] = {'a', ' ', '\t', '\n', '\r'};
static unsigned __int128 ws_enum_size(int t)
{
    return count_upto(5, t ? 8 : 6);
}
static void t_ws_enum(Src &s, Case &c)
{
    uint64_t k = s.below((uint64_t)ws_enum_size(tier()));
    Str d = nth_str(k, A_WS, 5);
    c.log("ws_enum d=\"%s\"", esc(d).c_str());
    c.nontrivial = true;
    check_trim(c, d);
    static const int maxes[] = {0, 1, 2, 10};
    for (int m : maxes)
    {
        check_argvc_split(c, d, m);
        check_argvc_split_n(c, d, m);
    }
    check_creader(c, d, nullptr);
    check_split_delims(c, d, " \t\r\n");
}
VP_TARGET("ws_enum", t_ws_enum,
          "exhaustive: every string of length <=6 / <=8 over {a SP TAB LF CR}: trim, "
          "argvc_internal_split and _split_n with argcmax 0,1,2,10, creader_readline loop, "
          "split with \" \\t\\r\\n\"",
          ws_enum_size);

static const char A_CMD[5] = {'a', ' ', '"', '\'', 'b'};
static unsigned __int128 cmdargs_enum_size(int t)
{
    return count_upto(5, t ? 8 : 6);
}
static void t_cmdargs_enum(Src &s, Case &c)
{
    uint64_t k = s.below((uint64_t)cmdargs_enum_size(tier()));
    Str d = nth_str(k, A_CMD, 5);
    c.log("cmdargs_enum d=\"%s\"", esc(d).c_str());
    c.nontrivial = true;
    check_cmdargs(c, d);
}
VP_TARGET("cmdargs_enum", t_cmdargs_enum,
          "exhaustive: every string of length <=6 / <=8 over {a b SP \" '}: split_cmdargs",
          cmdargs_enum_size);

// haystack over {a b c} x needle (<=3 over {a b}) x replacement
static const char A_HAY[3] = {'a', 'b', 'c'};
static const char *const REPS[4] = {"", "b", "ab", "aab"};
static unsigned __int128 search_enum_size(int t)
{
    return (unsigned __int128)count_upto(3, t ? 8 : 6) * count_upto(2, 3) * 4;
}
static void t_search_enum(Src &s, Case &c)
{
    uint64_t k = s.below((uint64_t)search_enum_size(tier()));
    uint64_t nh = count_upto(3, enum_L()), nn = count_upto(2, 3);
    Str hay = nth_str(k % nh, A_HAY, 3);
    k /= nh;
    Str nd = nth_str(k % nn, A_HAY, 2);
    k /= nn;
    Str rep = REPS[k];
    c.log("search_enum hay=\"%s\" needle=\"%s\" rep=\"%s\"", hay.c_str(), nd.c_str(), rep.c_str());
    c.nontrivial = true;
    check_memmem(c, hay, nd);
    check_replace(c, hay, nd, rep, 0);
}
VP_TARGET("search_enum", t_search_enum,
          "exhaustive: every haystack of length <=6 / <=8 over {a b c} x every needle of length "
          "<=3 over {a b} x replacement in {\"\",b,ab,aab}: igris_memmem, igris::replace, "
          "replace_substrings (exact-fit output)",
          search_enum_size);

// every line over {a b SP TAB} against the table {a, ab} (+ k x "a" lines for
// the 10-argument limit), all four dispatchers
static const char A_SH[4] = {'a', 'b', ' ', '\t'};
static unsigned __int128 shell_enum_size(int t)
{
    return count_upto(4, t ? 8 : 6) + 16;
}
static void t_shell_enum(Src &s, Case &c)
{
    uint64_t total = (uint64_t)shell_enum_size(tier());
    uint64_t k = s.below(total);
    uint64_t nl = count_upto(4, enum_L());
    Str line;
    if (k < nl)
        line = nth_str(k, A_SH, 4);
    else
        for (uint64_t i = 0; i < k - nl; i++) // 0..15 words
            line += i ? " a" : "a";
    c.log("shell_enum line=\"%s\"", esc(line).c_str());
    c.nontrivial = true;
    std::vector<Str> names = {"a", "ab"};
    const int drop[2] = {0, 1};
    for (int fn = 0; fn < 4; fn++)
        check_shell(c, fn, names, 1, true, drop, line);
}
VP_TARGET("shell_enum", t_shell_enum,
          "exhaustive: every line of length <=6 / <=8 over {a b SP TAB}, plus lines of 0..15 "
          "words, against the table {a, ab} through all four dispatchers",
          shell_enum_size);
