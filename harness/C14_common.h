// C14 — fixed-capacity containers never exceed capacity or write outside storage.
//
// Shared, templated harness for igris::static_vector<T,N> / igris::static_string<N>
// (C14.cpp) and their twins inside std_portable.h (C14_portable.cpp, which renames
// the namespace so the two definitions of `igris::static_vector<int,3>` never meet
// in one program — their inline members would otherwise be merged by the linker).
//
// Every object under test lives in `struct {canary[32]; T obj; canary[32];}` in an
// exactly-sized heap block. The canaries are filled with a pattern *and* poisoned for
// ASan, so the first byte read or written outside the object is a sanitizer abort and
// a write that escapes ASan still breaks the pattern. The object's own bytes are
// pre-filled with 0xEE so reads of never-written members are deterministic.
#pragma once
#include "vpbt.h"
#include <algorithm>
#include <cstddef>
#include <initializer_list>
#include <iterator>
#include <list>
#include <memory>
#include <new>
#include <sanitizer/asan_interface.h>
#include <string>
#include <unordered_set>
#include <utility>
#include <vector>

namespace c14
{
    using namespace vpbt;

    // ------------------------------------------------------------------ Tracked
    // Element type with an observable lifetime. Owns a heap byte (a double free or
    // use after free is an ASan report) and registers `this` in a global live set.
    // Lifetime errors cannot throw (they surface inside destructors and inside
    // igris code), so the first one is latched in the ledger and raised by the
    // harness right after the operation; Tracked itself stays memory-safe when
    // called on a non-live address (it never touches `own` there).
    struct Tracked;
    struct Ledger
    {
        std::unordered_set<const Tracked *> live;
        long ctors = 0, dtors = 0;
        const char *viol = nullptr; // first lifetime violation
        const Tracked *viol_at = nullptr;
        void reset()
        {
            live.clear();
            ctors = dtors = 0;
            viol = nullptr;
            viol_at = nullptr;
        }
        void flag(const char *what, const Tracked *at)
        {
            if (!viol)
            {
                viol = what;
                viol_at = at;
            }
        }
        bool is_live(const Tracked *p) const { return live.count(p) != 0; }
    };
    inline Ledger &ledger()
    {
        static Ledger l;
        return l;
    }

    struct CopyRefused
    {
    };
    // n > 0: the n-th copy construction of a Tracked from now on throws CopyRefused (0: never)
    inline int &copy_failure_in()
    {
        static int n = 0;
        return n;
    }

    struct Tracked
    {
        enum
        {
            MOVED_FROM = -1,
            FROM_NONLIVE = -2
        };
        int v;
        char *own; // heap byte holding (char)v; null in the moved-from state

        void born()
        {
            Ledger &l = ledger();
            if (!l.live.insert(this).second)
                l.flag("construct_at_live", this);
            l.ctors++;
        }
        bool alive(const char *what) const
        {
            Ledger &l = ledger();
            if (l.is_live(this))
                return true;
            l.flag(what, this);
            return false;
        }
        Tracked() : v(0), own(nullptr)
        {
            born();
            own = new char(0);
        }
        Tracked(int x) : v(x), own(nullptr)
        {
            born();
            own = new char((char)x);
        }
        Tracked(const Tracked &o) : v(FROM_NONLIVE), own(nullptr)
        {
            // injected failure (armed by the harness for one specific copy): the object never comes to life
            if (copy_failure_in() > 0 && --copy_failure_in() == 0)
                throw CopyRefused{};
            born();
            if (o.alive("copy_from_nonlive"))
            {
                v = o.v;
                own = o.own ? new char(*o.own) : nullptr;
            }
        }
        Tracked(Tracked &&o) noexcept : v(FROM_NONLIVE), own(nullptr)
        {
            born();
            if (o.alive("move_from_nonlive"))
            {
                v = o.v;
                own = o.own;
                o.own = nullptr;
                o.v = MOVED_FROM;
            }
        }
        Tracked &operator=(const Tracked &o)
        {
            if (!alive("assign_to_nonlive"))
            {
                // behave like a construction so that nothing dangling is touched
                ledger().live.insert(this);
                own = nullptr;
            }
            if (this == &o)
                return *this;
            bool src = o.alive("copy_from_nonlive");
            delete own;
            own = nullptr;
            v = src ? o.v : (int)FROM_NONLIVE;
            if (src && o.own)
                own = new char(*o.own);
            return *this;
        }
        Tracked &operator=(Tracked &&o) noexcept
        {
            if (!alive("assign_to_nonlive"))
            {
                ledger().live.insert(this);
                own = nullptr;
            }
            if (this == &o)
                return *this;
            bool src = o.alive("move_from_nonlive");
            delete own;
            own = nullptr;
            v = src ? o.v : (int)FROM_NONLIVE;
            if (src)
            {
                own = o.own;
                o.own = nullptr;
                o.v = MOVED_FROM;
            }
            return *this;
        }
        ~Tracked()
        {
            Ledger &l = ledger();
            if (!l.live.erase(this))
            {
                l.flag("destroy_nonlive", this);
                return;
            }
            l.dtors++;
            delete own;
            own = nullptr;
            v = -3;
        }
        int get() const
        {
            if (!alive("read_nonlive"))
                return -4;
            if (own && *own != (char)v)
                ledger().flag("owned_byte_mismatch", this);
            return v;
        }
    };

    // single-pass input iterator over a vector: all copies share the read position
    template <class T> struct OnePass
    {
        using iterator_category = std::input_iterator_tag;
        using value_type = T;
        using difference_type = std::ptrdiff_t;
        using pointer = const T *;
        using reference = const T &;
        const std::vector<T> *src;
        std::shared_ptr<size_t> pos;
        bool is_end;
        bool at_end() const { return is_end || *pos >= src->size(); }
        reference operator*() const { return (*src)[*pos]; }
        OnePass &operator++()
        {
            ++*pos;
            return *this;
        }
        OnePass operator++(int)
        {
            OnePass t = *this;
            ++*pos;
            return t;
        }
        bool operator==(const OnePass &o) const { return at_end() == o.at_end() && (at_end() || *pos == *o.pos); }
        bool operator!=(const OnePass &o) const { return !(*this == o); }
    };

    template <class T> struct Elem;
    template <> struct Elem<int>
    {
        static constexpr bool tracked = false;
        static constexpr const char *name = "int";
        static int get(const int &x) { return x; }
    };
    // small element types (size and alignment below a machine word): the stride of the storage cells is visible
    // through data()/begin()/end()
    template <> struct Elem<signed char>
    {
        static constexpr bool tracked = false;
        static constexpr const char *name = "signed char";
        static int get(const signed char &x) { return x; }
    };
    template <> struct Elem<short>
    {
        static constexpr bool tracked = false;
        static constexpr const char *name = "short";
        static int get(const short &x) { return x; }
    };
    template <> struct Elem<Tracked>
    {
        static constexpr bool tracked = true;
        static constexpr const char *name = "Tracked";
        static int get(const Tracked &x) { return x.get(); }
    };

    // ---------------------------------------------------------------------- Box
    template <class T> struct Box
    {
        static constexpr size_t CAN = 32;
        // ASan poisons whole 8-byte granules: the object's slot is rounded up to a multiple of 8;
        // the few slack bytes behind an object whose size is not (they are not poisoned) carry a
        // pattern of their own that is checked with the canaries. The harness must build whatever
        // the layout of the container is.
        static constexpr size_t SLOT = (sizeof(T) + 7) / 8 * 8;
        struct Layout
        {
            uint8_t pre[CAN];
            alignas(alignof(T) > 8 ? alignof(T) : 8) uint8_t obj[SLOT];
            uint8_t post[CAN];
        };
        static_assert(alignof(T) <= 16, "operator new alignment");
        static_assert(sizeof(Layout) == 2 * CAN + SLOT, "no padding around obj");
        Exact blk;
        Layout *L;
        bool built = false;

        Box() : blk(sizeof(Layout)), L((Layout *)blk.p)
        {
            memset(L->pre, 0xC5, CAN);
            memset(L->obj, 0xEE, sizeof(T));
            memset(L->obj + sizeof(T), 0xA7, SLOT - sizeof(T));
            memset(L->post, 0x5C, CAN);
            ASAN_POISON_MEMORY_REGION(L->pre, CAN);
            ASAN_POISON_MEMORY_REGION(L->post, CAN);
        }
        ~Box()
        {
            // never runs ~T: the harness destroys the object explicitly, and after a
            // failure the object may be in no state to be destroyed
            ASAN_UNPOISON_MEMORY_REGION(L->pre, CAN);
            ASAN_UNPOISON_MEMORY_REGION(L->post, CAN);
        }
        void *where() { return L->obj; }
        T *ptr() { return reinterpret_cast<T *>(L->obj); }
        bool inside(const void *p) const
        {
            return (const uint8_t *)p >= L->obj && (const uint8_t *)p < L->obj + sizeof(T);
        }
        bool canaries_ok()
        {
            ASAN_UNPOISON_MEMORY_REGION(L->pre, CAN);
            ASAN_UNPOISON_MEMORY_REGION(L->post, CAN);
            bool ok = true;
            for (size_t i = 0; i < CAN; i++)
                if (L->pre[i] != 0xC5 || L->post[i] != 0x5C)
                    ok = false;
            for (size_t i = sizeof(T); i < SLOT; i++)
                if (L->obj[i] != 0xA7)
                    ok = false;
            ASAN_POISON_MEMORY_REGION(L->pre, CAN);
            ASAN_POISON_MEMORY_REGION(L->post, CAN);
            return ok;
        }
    };

    inline std::string sig2(const char *what, const char *op)
    {
        return std::string(what) + ":" + op;
    }

    // Next operation of a history: an index chosen with the given weights, or -1 for
    // "end of history". The end is encoded explicitly (two zero bytes) instead of by
    // exhaustion of the choice sequence, so a case means the same with its trailing
    // zero bytes stripped or padded (the engine's shrinker strips them).
    inline int next_op(Src &s, std::initializer_list<unsigned> weights)
    {
        uint8_t b = s.u8();
        if (b == 0)
        {
            b = s.u8();
            if (b == 0)
                return -1;
        }
        unsigned tot = 0;
        for (unsigned w : weights)
            tot += w;
        unsigned r = (unsigned)(b - 1) % tot;
        int i = 0;
        for (unsigned w : weights)
        {
            if (r < w)
                return i;
            r -= w;
            i++;
        }
        return 0;
    }

    inline std::string ints(const std::vector<int> &v)
    {
        std::string s;
        for (size_t i = 0; i < v.size(); i++)
        {
            if (i)
                s += ',';
            s += std::to_string(v[i]);
        }
        return s;
    }

    // Call f(std::initializer_list<T>) with a list of the n (<= 16) given values.
    template <class T, class F> void with_initlist(const std::vector<int> &a, F f)
    {
#define C14_E(i) T(a[i])
#define C14_IL(n, ...)                                                                             \
    case n:                                                                                        \
    {                                                                                              \
        std::initializer_list<T> il = {__VA_ARGS__};                                               \
        f(il);                                                                                     \
        break;                                                                                     \
    }
        switch (a.size())
        {
        case 0:
        {
            std::initializer_list<T> il = {};
            f(il);
            break;
        }
            C14_IL(1, C14_E(0))
            C14_IL(2, C14_E(0), C14_E(1))
            C14_IL(3, C14_E(0), C14_E(1), C14_E(2))
            C14_IL(4, C14_E(0), C14_E(1), C14_E(2), C14_E(3))
            C14_IL(5, C14_E(0), C14_E(1), C14_E(2), C14_E(3), C14_E(4))
            C14_IL(6, C14_E(0), C14_E(1), C14_E(2), C14_E(3), C14_E(4), C14_E(5))
            C14_IL(7, C14_E(0), C14_E(1), C14_E(2), C14_E(3), C14_E(4), C14_E(5), C14_E(6))
            C14_IL(8, C14_E(0), C14_E(1), C14_E(2), C14_E(3), C14_E(4), C14_E(5), C14_E(6), C14_E(7))
            C14_IL(9, C14_E(0), C14_E(1), C14_E(2), C14_E(3), C14_E(4), C14_E(5), C14_E(6), C14_E(7),
                   C14_E(8))
            C14_IL(10, C14_E(0), C14_E(1), C14_E(2), C14_E(3), C14_E(4), C14_E(5), C14_E(6), C14_E(7),
                   C14_E(8), C14_E(9))
            C14_IL(11, C14_E(0), C14_E(1), C14_E(2), C14_E(3), C14_E(4), C14_E(5), C14_E(6), C14_E(7),
                   C14_E(8), C14_E(9), C14_E(10))
            C14_IL(12, C14_E(0), C14_E(1), C14_E(2), C14_E(3), C14_E(4), C14_E(5), C14_E(6), C14_E(7),
                   C14_E(8), C14_E(9), C14_E(10), C14_E(11))
            C14_IL(13, C14_E(0), C14_E(1), C14_E(2), C14_E(3), C14_E(4), C14_E(5), C14_E(6), C14_E(7),
                   C14_E(8), C14_E(9), C14_E(10), C14_E(11), C14_E(12))
            C14_IL(14, C14_E(0), C14_E(1), C14_E(2), C14_E(3), C14_E(4), C14_E(5), C14_E(6), C14_E(7),
                   C14_E(8), C14_E(9), C14_E(10), C14_E(11), C14_E(12), C14_E(13))
            C14_IL(15, C14_E(0), C14_E(1), C14_E(2), C14_E(3), C14_E(4), C14_E(5), C14_E(6), C14_E(7),
                   C14_E(8), C14_E(9), C14_E(10), C14_E(11), C14_E(12), C14_E(13), C14_E(14))
            C14_IL(16, C14_E(0), C14_E(1), C14_E(2), C14_E(3), C14_E(4), C14_E(5), C14_E(6), C14_E(7),
                   C14_E(8), C14_E(9), C14_E(10), C14_E(11), C14_E(12), C14_E(13), C14_E(14), C14_E(15))
        default:
            VP_FAIL("harness_bug", "initializer list of %zu elements", a.size());
        }
#undef C14_IL
#undef C14_E
    }

    // Known-finding slugs (see the report / known_findings.json).
    static constexpr const char *K_INITLIST = "C14-initlist-overflow";
    static constexpr const char *K_CLEAR = "C14-clear-no-destroy";
    static constexpr const char *K_RESIZE = "C14-resize-shrink-no-destroy";
    static constexpr const char *K_COPY_ASSIGN = "C14-copy-assign-no-destroy";
    static constexpr const char *K_MOVE_ASSIGN = "C14-move-assign-no-destroy";
    static constexpr const char *K_MOVE_CTOR = "C14-move-ctor-no-destroy";
    static constexpr const char *K_ERASE = "C14-erase-lifetime";
    static constexpr const char *K_CSTR = "C14-string-cstr-overflow";
    static constexpr const char *K_PTRLEN = "C14-portable-string-ptrlen-overflow";

    // ------------------------------------------------------------ static_vector
    // Api: struct { static constexpr bool initlist, range, erase, primary; name; }
    template <template <class, std::size_t> class SV, class T, std::size_t N, class Api> class VecRun
    {
        using V = SV<T, N>;
        using E = Elem<T>;
        static constexpr int SLOTS = 3;
        static constexpr int MAX_OPS = 40;
        struct Slot
        {
            std::unique_ptr<Box<V>> box;
            std::vector<int> ref; // the reference sequence, already cut to its first N elements
            bool live() const { return box && box->built; }
            V &v() { return *box->ptr(); }
        };
        Src &s;
        Case &c;
        Slot sl[SLOTS];
        int offered_excess = 0;

        // true: the known finding `id` covers this operation on these operands; skip it
        bool guarded(bool in_class, const char *id)
        {
            if (in_class && known_active(id))
            {
                c.known_hit(id);
                c.log("[skipped: %s] ", id);
                return true;
            }
            return false;
        }
        void excess(const char *label)
        {
            offered_excess++;
            c.label(label);
        }
        int pick_live()
        {
            int k = (int)s.below(SLOTS);
            for (int i = 0; i < SLOTS; i++)
                if (sl[(k + i) % SLOTS].live())
                    return (k + i) % SLOTS;
            return -1;
        }
        std::vector<int> values(size_t n)
        {
            std::vector<int> a(n);
            for (auto &x : a)
                x = (int)s.below(10);
            return a;
        }
        static void cut(std::vector<int> &r)
        {
            if (r.size() > N)
                r.resize(N);
        }

        // After a move the source is "valid but unspecified": any size <= N, all
        // elements live; the reference takes over whatever it exposes.
        void resync(int k, const char *op)
        {
            V &v = sl[k].v();
            size_t sz = v.size();
            VP_CHECK(sz <= N, sig2("size_exceeds_N", op), "moved-from slot %d reports size()=%zu, N=%zu", k,
                     sz, (size_t)N);
            sl[k].ref.clear();
            for (size_t i = 0; i < sz; i++)
                sl[k].ref.push_back(E::get(v[i]));
        }

        std::string where_is(const Tracked *p)
        {
            for (int k = 0; k < SLOTS; k++)
                if (sl[k].live() && sl[k].box->inside(p))
                {
                    size_t idx = (size_t)((const uint8_t *)p - (const uint8_t *)sl[k].v().data()) / sizeof(T);
                    return fmt("slot %d element index %zu", k, idx);
                }
            return "an address outside every live container (temporary or destroyed container)";
        }
        void check_ledger(const char *op)
        {
            if constexpr (E::tracked)
            {
                Ledger &l = ledger();
                if (l.viol)
                    VP_FAIL(sig2(l.viol, op), "element lifetime violation '%s' during %s at %s", l.viol, op,
                            where_is(l.viol_at).c_str());
            }
        }

        void check(const char *op)
        {
            for (int k = 0; k < SLOTS; k++)
                if (sl[k].box)
                    VP_CHECK(sl[k].box->canaries_ok(), sig2("canary", op),
                             "bytes next to the object in slot %d were overwritten", k);
            check_ledger(op);
            size_t total = 0;
            for (int k = 0; k < SLOTS; k++)
            {
                if (!sl[k].live())
                    continue;
                V &v = sl[k].v();
                const V &cv = v;
                const std::vector<int> &ref = sl[k].ref;
                size_t sz = v.size();
                VP_CHECK(sz <= N, sig2("size_exceeds_N", op), "slot %d size()=%zu > N=%zu", k, sz, (size_t)N);
                VP_CHECK(v.room() == N - sz, sig2("room", op), "slot %d room()=%zu, N-size()=%zu", k,
                         (size_t)v.room(), (size_t)(N - sz));
                VP_CHECK(sz == ref.size(), sig2("size", op), "slot %d size()=%zu, reference prefix has %zu (%s)", k,
                         sz, ref.size(), ints(ref).c_str());
                for (size_t i = 0; i < sz; i++)
                {
                    int a = E::get(v[i]), b = E::get(cv[i]), d = E::get(v.data()[i]), e = E::get(cv.data()[i]);
                    VP_CHECK(a == ref[i] && b == ref[i] && d == ref[i] && e == ref[i], sig2("content", op),
                             "slot %d [%zu]: operator[]=%d const=%d data()=%d/%d, reference %d (%s)", k, i, a, b, d,
                             e, ref[i], ints(ref).c_str());
                    if constexpr (E::tracked)
                        VP_CHECK(ledger().is_live(&v[i]), sig2("element_not_live", op),
                                 "slot %d [%zu] is not a live object", k, i);
                }
                size_t n = 0;
                for (auto it = v.begin(); it != v.end(); ++it, ++n)
                    VP_CHECK(n < sz && E::get(*it) == ref[n], sig2("iteration", op),
                             "slot %d begin()..end() position %zu", k, n);
                VP_CHECK(n == sz, sig2("iteration", op), "slot %d begin()..end() visits %zu of %zu", k, n, sz);
                n = 0;
                for (auto it = cv.begin(); it != cv.end(); ++it, ++n)
                    VP_CHECK(n < sz && E::get(*it) == ref[n], sig2("iteration", op),
                             "slot %d const begin()..end() position %zu", k, n);
                VP_CHECK(n == sz, sig2("iteration", op), "slot %d const begin()..end() visits %zu of %zu", k, n,
                         sz);
                if (sz)
                    VP_CHECK(E::get(v.front()) == ref.front() && E::get(v.back()) == ref.back() &&
                                 E::get(cv.front()) == ref.front() && E::get(cv.back()) == ref.back(),
                             sig2("front_back", op), "slot %d front/back", k);
                total += sz;
            }
            if constexpr (E::tracked)
            {
                check_ledger(op);
                size_t live = ledger().live.size();
                VP_CHECK(live <= total, sig2("elements_not_destroyed", op),
                         "%zu Tracked objects are alive but the containers hold %zu elements: %zu dropped "
                         "without a destructor call",
                         live, total, live - total);
                VP_CHECK(live == total, sig2("live_element_destroyed", op),
                         "%zu Tracked objects are alive but the containers hold %zu elements", live, total);
            }
        }

        void destroy(int k)
        {
            c.log("~s%d ", k);
            sl[k].v().~V();
            sl[k].box.reset();
            sl[k].ref.clear();
            check("destroy");
        }

        void construct(int k)
        {
            if (sl[k].live())
                destroy(k);
            unsigned w_il = Api::initlist ? 4 : 0, w_rg = Api::range ? 2 : 0;
            size_t kind = s.weighted({2, 2, 2, w_il, w_rg, w_rg, w_rg, w_rg, w_rg});
            int j = -1;
            if (kind == 1 || kind == 2 || kind == 8)
            {
                j = pick_live();
                if (j < 0)
                    kind = 0;
            }
            std::vector<int> a;
            if (kind >= 3 && kind <= 7)
                a = values((size_t)s.range(0, 2 * N));
            const char *op = "ctor_default";
            auto box = std::make_unique<Box<V>>();
            void *at = box->where();
            sl[k].ref.clear();
            switch (kind)
            {
            case 0:
                c.log("s%d=V() ", k);
                new (at) V();
                break;
            case 1:
                op = "ctor_copy";
                c.log("s%d=V(s%d) ", k, j);
                new (at) V(const_cast<const V &>(sl[j].v()));
                sl[k].ref = sl[j].ref;
                break;
            case 2:
                op = "ctor_move";
                c.log("s%d=V(move s%d) ", k, j);
                if (guarded(E::tracked && Api::primary && sl[j].v().size() > 0, K_MOVE_CTOR))
                {
                    op = "ctor_default";
                    new (at) V();
                    break;
                }
                new (at) V(std::move(sl[j].v()));
                box->built = true;
                sl[k].box = std::move(box);
                sl[k].ref = sl[j].ref;
                resync(j, op);
                check(op);
                return;
            case 3:
                op = "ctor_initlist";
                if constexpr (Api::initlist)
                {
                    if (a.size() > 16)
                        a.resize(16); // the literal initializer lists of this harness go up to 16 elements
                    if (a.size() > N && known_active(K_INITLIST))
                    {
                        c.known_hit(K_INITLIST);
                        c.log("[%zu values cut to N: %s] ", a.size(), K_INITLIST);
                        a.resize(N);
                    }
                    c.log("s%d=V{%s} ", k, ints(a).c_str());
                    if (a.size() > N)
                        excess("ctor_initlist_gt_N");
                    with_initlist<T>(a, [&](const std::initializer_list<T> &il) {
                        new (at) V(il);
                        // the list is taken by const reference and may be used again: its elements keep their values
                        size_t i = 0;
                        for (const T &e : il)
                        {
                            VP_CHECK(E::get(e) == a[i], sig2("source_changed", "ctor_initlist"), "after V(list) element %zu of the list reads %d, it held %d", i, E::get(e), a[i]);
                            i++;
                        }
                    });
                    sl[k].ref = a;
                }
                break;
            case 4: // iterators of a std::vector
                op = "ctor_range";
                if constexpr (Api::range)
                {
                    c.log("s%d=V(vector %s) ", k, ints(a).c_str());
                    std::vector<T> src(a.begin(), a.end());
                    if (s.coin())
                        new (at) V(src.begin(), src.end());
                    else
                        new (at) V(src.cbegin(), src.cend());
                    sl[k].ref = a;
                }
                break;
            case 5: // pointers into an exactly-sized array
                op = "ctor_range";
                if constexpr (Api::range)
                {
                    c.log("s%d=V(ptr %s) ", k, ints(a).c_str());
                    if constexpr (E::tracked)
                    {
                        std::vector<T> src(a.begin(), a.end());
                        const T *b = src.data();
                        new (at) V(b, b + src.size());
                    }
                    else
                    {
                        // flush against the end of the block (an empty range is the end
                        // pointer of a 4-byte block: readable nowhere, but aligned)
                        size_t bytes = a.size() * sizeof(int);
                        Exact blk(bytes ? bytes : sizeof(int));
                        if (bytes)
                            memcpy(blk.p, a.data(), bytes);
                        const int *e = (const int *)(blk.p + blk.n);
                        const int *b = e - a.size();
                        new (at) V(b, e);
                    }
                    sl[k].ref = a;
                }
                break;
            case 6: // bidirectional iterators; for sources of odd length a single-pass input range (every copy of the
                    // iterator shares one read position, as with std::istream_iterator): it can be walked only once
                op = "ctor_range";
                if constexpr (Api::range)
                {
                    if (a.size() % 2)
                    {
                        c.log("s%d=V(single-pass range %s) ", k, ints(a).c_str());
                        c.label("ctor_single_pass_range");
                        std::vector<T> src;
                        src.reserve(a.size());
                        for (int x : a)
                            src.emplace_back(x);
                        auto pos = std::make_shared<size_t>(0);
                        new (at) V(OnePass<T>{&src, pos, false}, OnePass<T>{&src, pos, true});
                    }
                    else
                    {
                        c.log("s%d=V(list %s) ", k, ints(a).c_str());
                        std::list<T> src(a.begin(), a.end());
                        new (at) V(src.begin(), src.end());
                    }
                    sl[k].ref = a;
                }
                break;
            case 7: // another fixed-capacity container, of capacity 2N
                op = "ctor_range";
                if constexpr (Api::range)
                {
                    c.log("s%d=V(static_vector<2N> %s) ", k, ints(a).c_str());
                    SV<T, 2 * N> src;
                    for (int x : a)
                        src.push_back(T(x));
                    new (at) V(src.begin(), src.end());
                    sl[k].ref = a;
                }
                break;
            case 8: // begin()/end() of a live container of the same type
                op = "ctor_range";
                if constexpr (Api::range)
                {
                    c.log("s%d=V(s%d.begin,end) ", k, j);
                    if (s.coin())
                        new (at) V(sl[j].v().begin(), sl[j].v().end());
                    else
                    {
                        const V &cv = sl[j].v();
                        new (at) V(cv.begin(), cv.end());
                    }
                    sl[k].ref = sl[j].ref;
                }
                break;
            }
            if (kind >= 4 && kind <= 7 && a.size() > N)
                excess("ctor_range_gt_N");
            cut(sl[k].ref);
            box->built = true;
            sl[k].box = std::move(box);
            check(op);
        }

        bool step()
        {
            int w = next_op(s, {6, 4, 3, Api::erase ? 3u : 0u, 1, 2, 2, 3, 1, 2});
            if (w < 0)
                return false;
            if (w == 7)
            {
                construct((int)s.below(SLOTS));
                return true;
            }
            int k = pick_live();
            if (k < 0)
            {
                construct((int)s.below(SLOTS));
                return true;
            }
            V &v = sl[k].v();
            std::vector<int> &ref = sl[k].ref;
            switch (w)
            {
            case 0:
            {
                int x = (int)s.below(10);
                c.log("s%d.push(%d) ", k, x);
                if (ref.size() >= N)
                    excess("push_full");
                if (s.coin())
                    v.push_back(T(x));
                else
                {
                    bool handled = false;
                    if constexpr (E::tracked)
                        if (x == 7)
                        {
                            // the copy this push_back makes fails: the container must be exactly what it was (no slot may
                            // count as an element that was never constructed)
                            c.log("[copy refused] ");
                            c.label("push_back_copy_refused");
                            bool refused = false, armed;
                            {
                                T tmp(x);
                                copy_failure_in() = 1;
                                try
                                {
                                    v.push_back(tmp);
                                }
                                catch (const CopyRefused &)
                                {
                                    refused = true;
                                }
                                armed = copy_failure_in() != 0; // still armed: no copy was made (full container)
                                copy_failure_in() = 0;
                            }
                            VP_CHECK(refused || armed, sig2("copy_not_refused", "push_back"), "the armed copy was made but no exception came out of push_back");
                            handled = true;
                        }
                    if (handled)
                    {
                        cut(ref);
                        check("push_back_refused");
                        break;
                    }
                    T tmp(x);
                    v.push_back(tmp);
                    VP_CHECK(E::get(tmp) == x, sig2("lvalue_argument_changed", "push_back"), "push_back(lvalue) left its argument as %d, it held %d", E::get(tmp),
                             x);
                }
                ref.push_back(x);
                cut(ref);
                check("push_back");
                break;
            }
            case 1:
            {
                int x = (int)s.below(10);
                const bool full = ref.size() >= N;
                if (full)
                    excess("emplace_full");
                if (x % 4 == 3 && !ref.empty() && !full)
                {
                    // an lvalue that is an element of the container itself: it is copied (the storage never moves)
                    // and stays what it was — check() below compares every element
                    c.log("s%d.emplace(s%d[0]) ", k, k);
                    c.label("emplace_back_aliasing_lvalue");
                    v.emplace_back(v[0]);
                    ref.push_back(ref[0]);
                }
                else if (x & 1)
                {
                    // an lvalue of the element type is copied, not moved from
                    c.log("s%d.emplace(lvalue %d) ", k, x);
                    T tmp(x);
                    v.emplace_back(tmp);
                    VP_CHECK(E::get(tmp) == x, sig2("lvalue_argument_changed", "emplace_back"), "emplace_back(lvalue) left its argument as %d, it held %d",
                             E::get(tmp), x);
                    ref.push_back(x);
                }
                else
                {
                    c.log("s%d.emplace(%d) ", k, x);
                    v.emplace_back(x);
                    ref.push_back(x);
                }
                cut(ref);
                check("emplace_back");
                break;
            }
            case 2:
            {
                size_t n = (size_t)s.range(0, 2 * N);
                if (n == 2 * N && N > 1)
                {
                    // far beyond the capacity: a size computed by subtraction that went below zero, SIZE_MAX as "as much as fits"
                    static const size_t far[] = {SIZE_MAX, SIZE_MAX / 2 + 1, SIZE_MAX - 1, (size_t)1 << 32, SIZE_MAX / 2};
                    n = far[(ref.size() + (size_t)k) % 5];
                }
                c.log("s%d.resize(%zu) ", k, n);
                if (guarded(E::tracked && n < ref.size(), K_RESIZE))
                    break;
                if (n > N)
                    excess("resize_gt_N");
                if (n < ref.size())
                    c.label("resize_shrink");
                v.resize(n);
                ref.resize(std::min<size_t>(n, N), 0);
                check("resize");
                break;
            }
            case 3:
                if constexpr (Api::erase)
                {
                    size_t sz = ref.size();
                    size_t first = (size_t)s.range(0, sz), last = (size_t)s.range(first, sz);
                    c.log("s%d.erase(%zu,%zu) ", k, first, last);
                    if (guarded(E::tracked && first < last && last < sz, K_ERASE))
                        break;
                    if (first < last && last < sz)
                        c.label("erase_inside");
                    else if (first < last)
                        c.label("erase_tail");
                    v.erase(v.begin() + first, v.begin() + last);
                    ref.erase(ref.begin() + first, ref.begin() + last);
                    check("erase");
                }
                break;
            case 4:
                c.log("s%d.clear ", k);
                if (guarded(E::tracked && !ref.empty(), K_CLEAR))
                    break;
                v.clear();
                ref.clear();
                check("clear");
                break;
            case 5:
            {
                int j = pick_live();
                c.log("s%d=s%d ", k, j);
                if (guarded(E::tracked && !ref.empty(), K_COPY_ASSIGN))
                    break;
                if (j == k)
                    c.label("self_copy_assign");
                V &r = (v = const_cast<const V &>(sl[j].v()));
                VP_CHECK(&r == &v, "assign_returns_other", "operator= did not return *this");
                if (j != k)
                    ref = sl[j].ref;
                check("copy_assign");
                break;
            }
            case 6:
            {
                int j = pick_live();
                c.log("s%d=move s%d ", k, j);
                if (guarded(E::tracked && (!ref.empty() || !sl[j].ref.empty()), K_MOVE_ASSIGN))
                    break;
                V &src = sl[j].v();
                v = std::move(src);
                if (j != k)
                {
                    ref = sl[j].ref;
                    resync(j, "move_assign");
                }
                else
                {
                    // self-move leaves a valid but unspecified state
                    c.label("self_move_assign");
                    resync(k, "move_assign");
                }
                check("move_assign");
                break;
            }
            case 8:
                destroy(k);
                break;
            case 9:
            {
                std::vector<int> a = values((size_t)s.range(0, 2 * N));
                c.log("s%d.append(%s) ", k, ints(a).c_str());
                if (a.size() > N - ref.size())
                    excess("append_gt_room");
                {
                    std::vector<T> src(a.begin(), a.end());
                    std::copy(src.begin(), src.end(), std::back_inserter(v));
                }
                ref.insert(ref.end(), a.begin(), a.end());
                cut(ref);
                check("back_inserter");
                break;
            }
            }
            return true;
        }

      public:
        VecRun(Src &s_, Case &c_) : s(s_), c(c_) {}
        void run()
        {
            ledger().reset();
            c.log("%s static_vector<%s,%zu>: ", Api::name, E::name, (size_t)N);
            construct(0);
            int ops = 1;
            while (ops < MAX_OPS && step())
                ops++;
            if (ops >= 20)
                c.label("ops>=20");
            for (int k = 0; k < SLOTS; k++)
                if (sl[k].live())
                    destroy(k);
            if constexpr (E::tracked)
            {
                Ledger &l = ledger();
                VP_CHECK(l.live.empty() && l.ctors == l.dtors, "unbalanced_at_end",
                         "%ld constructions, %ld destructions, %zu objects still alive", l.ctors, l.dtors,
                         l.live.size());
            }
            c.nontrivial = offered_excess > 0;
        }
    };

    static constexpr const char *N_LABEL[] = {"N=1", "N=2", "N=3", "N=5", "N=8", "N=12"};

    template <template <class, std::size_t> class SV, class T, class Api> void vec_target(Src &s, Case &c)
    {
        // mostly small capacities; now and then the capacities around a byte-sized counter
        // (255, 256, 257: "for all capacities N >= 1")
        // (decoded from the one byte that used to pick among the five small capacities, so that
        // earlier replay files keep their meaning)
        size_t b = s.u8();
        if (b >= 238)
        {
            size_t big = b % 3;
            c.label(big == 0 ? "N=255" : big == 1 ? "N=256" : "N=257");
            if (big == 0)
                VecRun<SV, T, 255, Api>(s, c).run();
            else if (big == 1)
                VecRun<SV, T, 256, Api>(s, c).run();
            else
                VecRun<SV, T, 257, Api>(s, c).run();
            return;
        }
        size_t which = b % 5;
        c.label(N_LABEL[which]);
        switch (which)
        {
        case 0:
            VecRun<SV, T, 1, Api>(s, c).run();
            break;
        case 1:
            VecRun<SV, T, 2, Api>(s, c).run();
            break;
        case 2:
            VecRun<SV, T, 3, Api>(s, c).run();
            break;
        case 3:
            VecRun<SV, T, 5, Api>(s, c).run();
            break;
        default:
            VecRun<SV, T, 8, Api>(s, c).run();
        }
    }

    // ------------------------------------------------------------ static_string
    // Api: struct { static constexpr bool portable; name; }. The primary header has
    // no clear(), no (ptr,len) constructor, no operator+=, and an operator[] that
    // does not compile (`return &data[pos];` as char&), so none of them is used there.
    template <template <std::size_t> class SS, std::size_t N, class Api> class StrRun
    {
        using S = SS<N>;
        static constexpr int SLOTS = 3;
        static constexpr int MAX_OPS = 40;
        static constexpr std::size_t SPLIT_V = 2, SPLIT_S = (N + 1) / 2;
        struct Slot
        {
            std::unique_ptr<Box<S>> box;
            std::string ref;
            bool live() const { return box && box->built; }
            S &v() { return *box->ptr(); }
        };
        Src &s;
        Case &c;
        Slot sl[SLOTS];
        int offered_excess = 0;

        void excess(const char *label)
        {
            offered_excess++;
            c.label(label);
        }
        int pick_live()
        {
            int k = (int)s.below(SLOTS);
            for (int i = 0; i < SLOTS; i++)
                if (sl[(k + i) % SLOTS].live())
                    return (k + i) % SLOTS;
            return -1;
        }
        char nonzero_char()
        {
            static const char alpha[] = {'a', 'b', 'c', 'x', 'y', ' ', '_', '0', '\x01', '\x7f', '\x80', '\xff'};
            return alpha[s.below(sizeof alpha)];
        }
        char any_char() { return s.below(24) == 0 ? '\0' : nonzero_char(); }
        static std::string show(const std::string &t)
        {
            std::string o = "\"";
            for (unsigned char ch : t)
                if (ch >= 0x20 && ch < 0x7f && ch != '"' && ch != '\\')
                    o += (char)ch;
                else
                    o += fmt("\\x%02x", ch);
            return o + "\"";
        }
        static void cut(std::string &r)
        {
            if (r.size() > N)
                r.resize(N);
        }
        void resync(int k, const char *op)
        {
            S &v = sl[k].v();
            size_t sz = v.size();
            VP_CHECK(sz <= N, sig2("size_exceeds_N", op), "moved-from slot %d reports size()=%zu, N=%zu", k, sz,
                     (size_t)N);
            sl[k].ref.assign((const char *)v.begin(), (const char *)v.end());
        }

        void check(const char *op)
        {
            for (int k = 0; k < SLOTS; k++)
                if (sl[k].box)
                    VP_CHECK(sl[k].box->canaries_ok(), sig2("canary", op),
                             "bytes next to the object in slot %d were overwritten", k);
            for (int k = 0; k < SLOTS; k++)
            {
                if (!sl[k].live())
                    continue;
                S &v = sl[k].v();
                const S &cv = v;
                const std::string &ref = sl[k].ref;
                size_t sz = v.size();
                VP_CHECK(sz <= N, sig2("size_exceeds_N", op), "slot %d size()=%zu > N=%zu", k, sz, (size_t)N);
                VP_CHECK(v.room() == N - sz, sig2("room", op), "slot %d room()=%zu, N-size()=%zu", k,
                         (size_t)v.room(), (size_t)(N - sz));
                VP_CHECK(sz == ref.size(), sig2("size", op), "slot %d size()=%zu, reference prefix %s", k, sz,
                         show(ref).c_str());
                const char *z = cv.c_str();
                VP_CHECK(sl[k].box->inside(z) && sl[k].box->inside(z + sz), sig2("c_str_outside", op),
                         "slot %d c_str() does not point into the object", k);
                VP_CHECK(z[sz] == 0, sig2("c_str_unterminated", op), "slot %d c_str()[size()] = %d", k, z[sz]);
                VP_CHECK(memcmp(z, ref.data(), sz) == 0, sig2("content", op), "slot %d c_str()=%s reference %s", k,
                         show(std::string(z, sz)).c_str(), show(ref).c_str());
                size_t n = 0;
                for (auto it = v.begin(); it != v.end(); ++it, ++n)
                    VP_CHECK(n < sz && *it == ref[n], sig2("iteration", op), "slot %d begin()..end() position %zu",
                             k, n);
                VP_CHECK(n == sz, sig2("iteration", op), "slot %d begin()..end() visits %zu of %zu", k, n, sz);
                if constexpr (Api::portable)
                {
                    for (size_t i = 0; i < sz; i++)
                        VP_CHECK(v[i] == ref[i] && cv[i] == ref[i] && v.data()[i] == ref[i], sig2("content", op),
                                 "slot %d operator[](%zu)", k, i);
                }
            }
        }

        void destroy(int k)
        {
            c.log("~s%d ", k);
            sl[k].v().~S();
            sl[k].box.reset();
            sl[k].ref.clear();
            check("destroy");
        }

        std::string text(size_t n, bool zeros)
        {
            std::string t(n, 'a');
            for (auto &ch : t)
                ch = zeros ? any_char() : nonzero_char();
            return t;
        }

        void construct(int k)
        {
            if (sl[k].live())
                destroy(k);
            size_t kind = s.weighted({2, 5, 2, 2, Api::portable ? 4u : 0u});
            int j = -1;
            if (kind == 2 || kind == 3)
            {
                j = pick_live();
                if (j < 0)
                    kind = 0;
            }
            const char *op = "ctor_default";
            auto box = std::make_unique<Box<S>>();
            void *at = box->where();
            sl[k].ref.clear();
            switch (kind)
            {
            case 0:
                c.log("s%d=S() ", k);
                new (at) S();
                break;
            case 1:
            {
                op = "ctor_cstr";
                std::string t = text((size_t)s.range(0, 2 * N), false);
                if (t.size() > N && known_active(K_CSTR))
                {
                    c.known_hit(K_CSTR);
                    c.log("[%zu chars cut to N: %s] ", t.size(), K_CSTR);
                    t.resize(N);
                }
                c.log("s%d=S(%s) ", k, show(t).c_str());
                if (t.size() > N)
                    excess("ctor_cstr_gt_N");
                Exact blk(t.c_str(), t.size() + 1); // ends with the terminator
                new (at) S((const char *)blk.c());
                sl[k].ref = t;
                break;
            }
            case 2:
                op = "ctor_copy";
                c.log("s%d=S(s%d) ", k, j);
                new (at) S(const_cast<const S &>(sl[j].v()));
                sl[k].ref = sl[j].ref;
                break;
            case 3:
                op = "ctor_move";
                c.log("s%d=S(move s%d) ", k, j);
                new (at) S(std::move(sl[j].v()));
                sl[k].ref = sl[j].ref;
                resync(j, op);
                break;
            case 4:
                op = "ctor_ptrlen";
                if constexpr (Api::portable)
                {
                    std::string t = text((size_t)s.range(0, 2 * N), true);
                    if (t.size() > N && known_active(K_PTRLEN))
                    {
                        c.known_hit(K_PTRLEN);
                        c.log("[%zu chars cut to N: %s] ", t.size(), K_PTRLEN);
                        t.resize(N);
                    }
                    c.log("s%d=S(%s,%zu) ", k, show(t).c_str(), t.size());
                    if (t.size() > N)
                        excess("ctor_ptrlen_gt_N");
                    Exact blk(t.data(), t.size()); // no terminator
                    new (at) S((const char *)blk.c(), t.size());
                    sl[k].ref = t;
                }
                break;
            }
            cut(sl[k].ref);
            box->built = true;
            sl[k].box = std::move(box);
            check(op);
        }

        bool step()
        {
            const unsigned P = Api::portable ? 1 : 0;
            int w = next_op(s, {8, 4, 2, 2, 1, 2 * P, 1 * P, 1 * P, 1 * P});
            if (w < 0)
                return false;
            if (w == 1)
            {
                construct((int)s.below(SLOTS));
                return true;
            }
            int k = pick_live();
            if (k < 0)
            {
                construct((int)s.below(SLOTS));
                return true;
            }
            S &v = sl[k].v();
            std::string &ref = sl[k].ref;
            switch (w)
            {
            case 0:
            {
                char ch = any_char();
                c.log("s%d.push(%s) ", k, show(std::string(1, ch)).c_str());
                if (ref.size() >= N)
                    excess("push_full");
                v.push_back(ch);
                ref.push_back(ch);
                cut(ref);
                check("push_back");
                break;
            }
            case 2:
            {
                int j = pick_live();
                c.log("s%d=s%d ", k, j);
                if (j == k)
                    c.label("self_copy_assign");
                v = const_cast<const S &>(sl[j].v());
                if (j != k)
                    ref = sl[j].ref;
                check("copy_assign");
                break;
            }
            case 3:
            {
                int j = pick_live();
                c.log("s%d=move s%d ", k, j);
                S &src = sl[j].v();
                v = std::move(src);
                if (j != k)
                {
                    ref = sl[j].ref;
                    resync(j, "move_assign");
                }
                else
                {
                    c.label("self_move_assign");
                    resync(k, "move_assign");
                }
                check("move_assign");
                break;
            }
            case 4:
                destroy(k);
                break;
            case 5:
                if constexpr (Api::portable)
                {
                    char ch = any_char();
                    c.log("s%d+=%s ", k, show(std::string(1, ch)).c_str());
                    if (ref.size() >= N)
                        excess("pluseq_full");
                    S &r = (v += ch);
                    VP_CHECK(&r == &v, "pluseq_returns_other", "operator+= did not return *this");
                    ref.push_back(ch);
                    cut(ref);
                    check("operator+=");
                }
                break;
            case 6:
                if constexpr (Api::portable)
                {
                    c.log("s%d.clear ", k);
                    v.clear();
                    ref.clear();
                    check("clear");
                }
                break;
            case 7:
                if constexpr (Api::portable)
                {
                    if (ref.empty())
                        break;
                    size_t i = (size_t)s.below(ref.size());
                    char ch = any_char();
                    c.log("s%d[%zu]=%s ", k, i, show(std::string(1, ch)).c_str());
                    v[i] = ch;
                    ref[i] = ch;
                    check("index_write");
                }
                break;
            case 8:
                // split() emplaces static_string<SPLIT_S>(ptr,len) objects into a
                // static_vector<..,SPLIT_V>: only the capacity clauses are checked
                // (the statement does not define the tokenisation)
                if constexpr (Api::portable)
                {
                    char delim = nonzero_char();
                    c.log("s%d.split<%zu,%zu>(%s) ", k, (size_t)SPLIT_V, (size_t)SPLIT_S,
                          show(std::string(1, delim)).c_str());
                    // the tokens that get constructed: the first SPLIT_V maximal runs without delim
                    size_t longest = 0, tokens = 0, run = 0;
                    for (size_t i = 0; i <= ref.size(); i++)
                    {
                        if (i < ref.size() && ref[i] != delim)
                        {
                            run++;
                            continue;
                        }
                        if (run && tokens < SPLIT_V)
                        {
                            tokens++;
                            longest = std::max(longest, run);
                        }
                        run = 0;
                    }
                    if (longest > SPLIT_S && known_active(K_PTRLEN))
                    {
                        c.known_hit(K_PTRLEN);
                        c.log("[skipped: %s] ", K_PTRLEN);
                        break;
                    }
                    if (longest > SPLIT_S)
                        excess("split_token_gt_N");
                    auto out = v.template split<SPLIT_V, SPLIT_S>(delim);
                    VP_CHECK(out.size() <= SPLIT_V, "size_exceeds_N:split", "split result holds %zu > %zu strings",
                             (size_t)out.size(), (size_t)SPLIT_V);
                    for (size_t i = 0; i < out.size(); i++)
                        VP_CHECK(out[i].size() <= SPLIT_S, "size_exceeds_N:split",
                                 "token %zu has size()=%zu > capacity %zu", i, (size_t)out[i].size(),
                                 (size_t)SPLIT_S);
                    {
                        // "excess input is dropped keeping the prefix": the result holds the first SPLIT_V tokens, in order,
                        // each cut to its first SPLIT_S characters
                        std::vector<std::string> want;
                        std::string cur;
                        for (size_t i = 0; i <= ref.size(); i++)
                        {
                            if (i < ref.size() && ref[i] != delim)
                            {
                                cur += ref[i];
                                continue;
                            }
                            if (!cur.empty() && want.size() < SPLIT_V)
                                want.push_back(cur.substr(0, SPLIT_S));
                            cur.clear();
                        }
                        bool same = out.size() == want.size();
                        for (size_t i = 0; same && i < want.size(); i++)
                            same = std::string(out[i].c_str(), out[i].size()) == want[i];
                        std::string got_s;
                        for (size_t i = 0; i < out.size(); i++)
                            got_s += "[" + show(std::string(out[i].c_str(), out[i].size())) + "]";
                        VP_CHECK(same, "content:split", "split of %s gives %zu tokens %s; the first %zu tokens (each cut to %zu characters) are expected", show(ref).c_str(),
                                 (size_t)out.size(), got_s.c_str(), (size_t)SPLIT_V, (size_t)SPLIT_S);
                    }
                    check("split");
                }
                break;
            }
            return true;
        }

      public:
        StrRun(Src &s_, Case &c_) : s(s_), c(c_) {}
        void run()
        {
            c.log("%s static_string<%zu>: ", Api::name, (size_t)N);
            construct(0);
            int ops = 1;
            while (ops < MAX_OPS && step())
                ops++;
            if (ops >= 20)
                c.label("ops>=20");
            for (int k = 0; k < SLOTS; k++)
                if (sl[k].live())
                    destroy(k);
            c.nontrivial = offered_excess > 0;
        }
    };

    template <template <std::size_t> class SS, class Api> void str_target(Src &s, Case &c)
    {
        size_t b = s.u8();
        if (b >= 244)
        {
            c.label(b % 2 ? "N=255" : "N=256");
            if (b % 2)
                StrRun<SS, 255, Api>(s, c).run();
            else
                StrRun<SS, 256, Api>(s, c).run();
            return;
        }
        size_t which = b % 6;
        c.label(N_LABEL[which]);
        switch (which)
        {
        case 0:
            StrRun<SS, 1, Api>(s, c).run();
            break;
        case 1:
            StrRun<SS, 2, Api>(s, c).run();
            break;
        case 2:
            StrRun<SS, 3, Api>(s, c).run();
            break;
        case 3:
            StrRun<SS, 5, Api>(s, c).run();
            break;
        case 4:
            StrRun<SS, 8, Api>(s, c).run();
            break;
        default:
            StrRun<SS, 12, Api>(s, c).run();
        }
    }
} // namespace c14
