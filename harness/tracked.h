// Tracked: an element type with an observable lifetime (shared by C02 and C10;
// C14 carries its own identical copy). Owns a heap byte (a double free / use after
// free is an ASan report) and registers `this` in a global live set: constructing at
// a live address, destroying / assigning to / moving from / copying from / reading a
// non-live address are each latched as a distinct violation in the ledger, which the
// harness inspects after every operation (lifetime errors surface inside destructors
// and inside igris code, where throwing is not an option).
#pragma once
#include <unordered_set>

namespace trk
{
    struct Tracked;
    struct Ledger
    {
        std::unordered_set<const Tracked *> live;
        long ctors = 0, dtors = 0;
        const char *viol = nullptr; // first lifetime violation
        const Tracked *viol_at = nullptr;
        void reset()
        {
            live.clear();
            ctors = dtors = 0;
            viol = nullptr;
            viol_at = nullptr;
        }
        void flag(const char *what, const Tracked *at)
        {
            if (!viol)
            {
                viol = what;
                viol_at = at;
            }
        }
        bool is_live(const Tracked *p) const { return live.count(p) != 0; }
    };
    inline Ledger &ledger()
    {
        static Ledger l;
        return l;
    }

    struct Tracked
    {
        enum
        {
            MOVED_FROM = -1,
            FROM_NONLIVE = -2
        };
        int v;
        char *own; // heap byte holding (char)v; null in the moved-from state

        void born()
        {
            Ledger &l = ledger();
            if (!l.live.insert(this).second)
                l.flag("construct_at_live", this);
            l.ctors++;
        }
        bool alive(const char *what) const
        {
            Ledger &l = ledger();
            if (l.is_live(this))
                return true;
            l.flag(what, this);
            return false;
        }
        Tracked() : v(0), own(nullptr)
        {
            born();
            own = new char(0);
        }
        Tracked(int x) : v(x), own(nullptr)
        {
            born();
            own = new char((char)x);
        }
        Tracked(const Tracked &o) : v(FROM_NONLIVE), own(nullptr)
        {
            born();
            if (o.alive("copy_from_nonlive"))
            {
                v = o.v;
                own = o.own ? new char(*o.own) : nullptr;
            }
        }
        Tracked(Tracked &&o) noexcept : v(FROM_NONLIVE), own(nullptr)
        {
            born();
            if (o.alive("move_from_nonlive"))
            {
                v = o.v;
                own = o.own;
                o.own = nullptr;
                o.v = MOVED_FROM;
            }
        }
        Tracked &operator=(const Tracked &o)
        {
            if (!alive("assign_to_nonlive"))
            {
                // behave like a construction so that nothing dangling is touched
                ledger().live.insert(this);
                own = nullptr;
            }
            if (this == &o)
                return *this;
            bool src = o.alive("copy_from_nonlive");
            delete own;
            own = nullptr;
            v = src ? o.v : (int)FROM_NONLIVE;
            if (src && o.own)
                own = new char(*o.own);
            return *this;
        }
        Tracked &operator=(Tracked &&o) noexcept
        {
            if (!alive("assign_to_nonlive"))
            {
                ledger().live.insert(this);
                own = nullptr;
            }
            if (this == &o)
                return *this;
            bool src = o.alive("move_from_nonlive");
            delete own;
            own = nullptr;
            v = src ? o.v : (int)FROM_NONLIVE;
            if (src)
            {
                own = o.own;
                o.own = nullptr;
                o.v = MOVED_FROM;
            }
            return *this;
        }
        ~Tracked()
        {
            Ledger &l = ledger();
            if (!l.live.erase(this))
            {
                l.flag("destroy_nonlive", this);
                return;
            }
            l.dtors++;
            delete own;
            own = nullptr;
            v = -3;
        }
        int get() const
        {
            if (!alive("read_nonlive"))
                return -4;
            if (own && *own != (char)v)
                ledger().flag("owned_byte_mismatch", this);
            return v;
        }
    };


    inline bool operator==(const Tracked &a, const Tracked &b) { return a.get() == b.get(); }
    inline bool operator!=(const Tracked &a, const Tracked &b) { return a.get() != b.get(); }
    inline bool operator<(const Tracked &a, const Tracked &b) { return a.get() < b.get(); }
} // namespace trk
