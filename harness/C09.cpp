// C09 — binary serialization, `archive` system: igris/serialize/archive.h +
// stdtypes.h, i.e. igris::serialize(v) -> std::string and
// igris::deserialize<T>(bytes). (The serializer20 system lives in C09_s20.cpp:
// stdtypes.h and serialize_archive.h both define igris::serialize(const T&).)
//
// Targets
//   archive        : one of the compile-time type family below x two generated
//                    values a, b; oracles
//                      (i)   deserialize<T>(serialize(a)) == a  (floats bitwise), the
//                            input held in an exactly-sized heap block (ASan);
//                      (ii)  serialize(a)+serialize(b) decoded in sequence by one
//                            reader: position after the first == serialize(a).size(),
//                            after the second == the end, values == a, b;
//                      (iii) serialize(a) byte-identical to the harness' independent
//                            reference encoder (C09_common.h: enc);
//                      plus the fixed-buffer writer (binwriter) producing the same
//                      bytes into an exactly-sized block.
//   archive_golden : enumerates the committed golden-bytes table: serialize(fixed
//                    value) == recorded bytes and deserialize(recorded bytes) ==
//                    value, consuming all of them.
//
// Outside the family because they do not compile against archive.h (no load()
// overload -> falls into the reflect() template): char, bool, long long,
// unsigned long long (distinct from uint64_t = unsigned long here),
// std::vector<bool> (no data()). long double compiles but is not fixed-width
// (16-byte image with 6 padding bytes) and is left out. std::tuple<> compiles
// only through the zero-length-array GNU extension and encodes to nothing.
// binary_buffer_reader ignores its end pointer, so decoding *truncated* input is
// not bounded in this system; the statement's truncation clause names the
// bounded storage reader (deserialize_buffer_storage) and is checked in
// C09_s20.cpp.
#include "C09_common.h"

#include <igris/serialize/serialize.h>
#include <igris/serialize/stdtypes.h>

using namespace vpbt;
using namespace c09;

// Known-finding input classes (see the report / known_findings.json):
//  serialize_helper<vector<T>>::serialize dumps the raw object bytes of the
//  elements (archive::data<T>) while deserialize loads element by element:
//  wrong for every T that is not a plain scalar ...
static const char *K_RAW = "C09-vector-raw-dump";
//  ... and for scalars the byte count size()*sizeof(T) goes through
//  do_data(const char*, uint16_t) and is cut to 16 bits.
static const char *K_U16 = "C09-vector-bytes-u16";
//  An empty, never-allocated vector has data() == nullptr, which the raw dump hands to
//  binary_buffer_writer::dump_data -> memcpy(ptr, nullptr, 0): formally undefined (UBSan
//  nonnull-attribute), harmless in practice.
static const char *K_NULL = "C09-binwriter-null-memcpy";

static bool archive_known_skip(Case &c, const Scan &sc)
{
    bool skip = false;
    if (sc.composite_vec_elems > 0 && known_active(K_RAW))
    {
        c.known_hit(K_RAW);
        skip = true;
    }
    if (sc.scalar_vec_bytes > 65535 && known_active(K_U16))
    {
        c.known_hit(K_U16);
        skip = true;
    }
    return skip;
}

struct ArchiveSys
{
    static constexpr const char *name = "archive";
    template <class T> static std::string encode(const T &v) { return igris::serialize(v); }
    template <class T> static T decode(Exact &blk, size_t &used)
    {
        igris::archive::binary_buffer_reader rd(blk.c(), blk.n);
        T r;
        igris::deserialize(rd, r);
        used = (size_t)(rd.ptr - blk.c());
        return r;
    }
    template <class T> static bool known_skip(Case &c, const T &v)
    {
        Scan sc;
        scan(v, sc);
        return archive_known_skip(c, sc);
    }
};

// ------------------------------------------------------------ per-type check
template <class T> static void run_type(Src &s, Case &c, const char *tname)
{
    TwoValues<T> tv;
    make_case(s, c, tname, tv);
    const T &a = tv.a;
    const T &b = tv.b;
    if (archive_known_skip(c, tv.sc))
        return;

    // (i) round trip, input in an exactly-sized block
    std::string ea = igris::serialize(a);
    {
        Exact blk(ea.data(), ea.size());
        T r = igris::deserialize<T>(igris::buffer(blk.c(), blk.n));
        VP_CHECK(eq(r, a), "archive_roundtrip", "%s: serialize -> %zu bytes %s -> deserialize gives %s, want %s",
                 tname, ea.size(), hexs(ea).c_str(), show(r).c_str(), show(a).c_str());
    }
    // the std::string entry point is the same reader
    {
        T r = igris::deserialize<T>(ea);
        VP_CHECK(eq(r, a), "archive_roundtrip_string", "%s: deserialize<T>(std::string) gives %s", tname,
                 show(r).c_str());
    }
    // (ii) consumed == produced: a then b from one reader
    std::string eb = igris::serialize(b);
    {
        std::string cat = ea + eb;
        Exact blk(cat.data(), cat.size());
        igris::archive::binary_buffer_reader rd(blk.c(), blk.n);
        T x;
        igris::deserialize(rd, x);
        size_t pos1 = (size_t)(rd.ptr - blk.c());
        VP_CHECK(pos1 == ea.size(), "archive_consumed",
                 "%s: reader at %zu after decoding a value whose encoding has %zu bytes (%s)", tname, pos1,
                 ea.size(), hexs(ea).c_str());
        VP_CHECK(eq(x, a), "archive_concat_first", "%s: first of two concatenated values decodes to %s", tname,
                 show(x).c_str());
        T y;
        igris::deserialize(rd, y);
        size_t pos2 = (size_t)(rd.ptr - blk.c());
        VP_CHECK(pos2 == cat.size(), "archive_consumed",
                 "%s: reader at %zu after the second value, the concatenation has %zu bytes", tname, pos2,
                 cat.size());
        VP_CHECK(eq(y, b), "archive_concat_second", "%s: second of two concatenated values decodes to %s, want %s",
                 tname, show(y).c_str(), show(b).c_str());
    }
    // (ii-c) two encodings alive at the same time (serialize(a) + serialize(b), results bound to references): each keeps
    // its own bytes
    {
        const auto &ra = igris::serialize(a);
        const auto &rb = igris::serialize(b);
        VP_CHECK(std::string(ra) == ea && std::string(rb) == eb, "archive_results_alias",
                 "%s: with both results alive serialize(a) reads %s and serialize(b) reads %s (alone: %s / %s)", tname, hexs(std::string(ra)).c_str(),
                 hexs(std::string(rb)).c_str(), hexs(ea).c_str(), hexs(eb).c_str());
        std::string cat2 = igris::serialize(a) + igris::serialize(b);
        VP_CHECK(cat2 == ea + eb, "archive_results_alias", "%s: serialize(a) + serialize(b) gives %s, want %s", tname, hexs(cat2).c_str(), hexs(ea + eb).c_str());
    }
    // (iii) wire format == independent reference encoder
    VP_CHECK(ea == tv.ra, "archive_wire",
             "%s value %s: serialize gives %zu bytes %s, the documented layout is %zu bytes %s", tname,
             show(a).c_str(), ea.size(), hexs(ea).c_str(), tv.ra.size(), hexs(tv.ra).c_str());
    VP_CHECK(eb == tv.rb, "archive_wire",
             "%s value %s: serialize gives %zu bytes %s, the documented layout is %zu bytes %s", tname,
             show(b).c_str(), eb.size(), hexs(eb).c_str(), tv.rb.size(), hexs(tv.rb).c_str());
    // fixed-buffer writer: same bytes, ends exactly at the end of an exactly-sized block
    Scan sa;
    scan(a, sa);
    if (sa.null_data_vec && known_active(K_NULL))
        c.known_hit(K_NULL);
    else
    {
        Exact out(ea.size());
        igris::archive::binary_buffer_writer w(out.c(), out.n);
        igris::serialize(w, a);
        VP_CHECK((size_t)(w.ptr - out.c()) == ea.size(), "archive_bufwriter_size", "%s: binwriter wrote %zd bytes, "
                 "string writer %zu", tname, (ssize_t)(w.ptr - out.c()), ea.size());
        VP_CHECK(ea.empty() || memcmp(out.p, ea.data(), ea.size()) == 0, "archive_bufwriter_bytes",
                 "%s: binwriter bytes %s differ from string writer %s", tname,
                 hexdump(out.p, out.n, 48).c_str(), hexs(ea).c_str());
    }
}

// ---------------------------------- igris::buffer / string_view / char* forms
// dump(igris::buffer) / dump(std::string_view) / dump(const char*, u16) write
// u16 length + bytes; load(settable_buffer) aliases the input, load(writable_buffer)
// and load(char*, maxsz) copy into a destination that is large enough (in-domain:
// capacity >= length; smaller destinations are outside the statement).
static void run_buffer(Src &s, Case &c, const char *tname)
{
    TwoValues<std::string> tv;
    make_case(s, c, tname, tv);
    const std::string &a = tv.a;
    const std::string &b = tv.b;
    int slack = (int)s.below(4); // destination capacity = length + slack
    c.log(" slack=%d", slack);

    std::string ea, eb, sv, cp;
    {
        Exact src(a.data(), a.size()); // the source bytes are exactly sized too
        igris::archive::binary_string_writer w(ea);
        igris::serialize(w, igris::buffer(src.c(), src.n));
        igris::archive::binary_string_writer w2(sv);
        w2.dump(std::string_view(src.c(), src.n));
        igris::archive::binary_string_writer w3(cp);
        w3.dump((const char *)src.c(), (uint16_t)src.n);
    }
    {
        igris::archive::binary_string_writer w(eb);
        igris::serialize(w, igris::buffer(b.data(), b.size()));
    }
    VP_CHECK(ea == tv.ra, "archive_wire", "igris::buffer %s: dump gives %s, documented layout %s", show(a).c_str(),
             hexs(ea).c_str(), hexs(tv.ra).c_str());
    VP_CHECK(sv == tv.ra, "archive_wire", "string_view %s: dump gives %s, documented layout %s", show(a).c_str(),
             hexs(sv).c_str(), hexs(tv.ra).c_str());
    VP_CHECK(cp == tv.ra, "archive_wire", "dump(char*,u16) %s: gives %s, documented layout %s", show(a).c_str(),
             hexs(cp).c_str(), hexs(tv.ra).c_str());
    VP_CHECK(eb == tv.rb, "archive_wire", "igris::buffer %s: dump gives %s", show(b).c_str(), hexs(eb).c_str());
    if (a.empty() || b.empty())
    {
        // the empty payload as a buffer that points nowhere (default constructed, or over an empty std::vector): still a
        // length field of 0, and the next field follows it
        c.label("null_backed_empty_buffer");
        std::string en, en2;
        igris::archive::binary_string_writer wn(en);
        igris::serialize(wn, igris::buffer());
        igris::serialize(wn, (uint8_t)0x5A);
        std::vector<char> none;
        igris::archive::binary_string_writer wn2(en2);
        igris::serialize(wn2, igris::buffer(none.data(), none.size()));
        igris::serialize(wn2, (uint8_t)0x5A);
        const std::string want("\0\0\x5A", 3);
        VP_CHECK(en == want && en2 == want, "archive_wire", "empty igris::buffer without storage followed by a byte: dump gives %s / %s, documented layout %s",
                 hexs(en).c_str(), hexs(en2).c_str(), hexs(want).c_str());
    }

    std::string cat = ea + eb;
    Exact blk(cat.data(), cat.size());
    // aliasing load: a then b
    {
        igris::archive::binary_buffer_reader rd(blk.c(), blk.n);
        igris::buffer x, y;
        rd.load_set_buffer(x);
        VP_CHECK((size_t)(rd.ptr - blk.c()) == ea.size(), "archive_consumed", "load_set_buffer: reader at %zd, "
                 "encoding has %zu bytes", (ssize_t)(rd.ptr - blk.c()), ea.size());
        rd.load_set_buffer(y);
        VP_CHECK((size_t)(rd.ptr - blk.c()) == cat.size(), "archive_consumed", "load_set_buffer (2nd): reader at "
                 "%zd of %zu", (ssize_t)(rd.ptr - blk.c()), cat.size());
        VP_CHECK(x.size() == a.size() && x.data() == blk.c() + 2 &&
                     (a.empty() || memcmp(x.data(), a.data(), a.size()) == 0),
                 "archive_roundtrip", "load_set_buffer: got %zu bytes at offset %zd, want %zu at 2", x.size(),
                 (ssize_t)(x.data() - blk.c()), a.size());
        VP_CHECK(y.size() == b.size() && (b.empty() || memcmp(y.data(), b.data(), b.size()) == 0),
                 "archive_concat_second", "load_set_buffer (2nd): got %zu bytes, want %zu", y.size(), b.size());
    }
    // one view object re-used for consecutive fields (a record loop): it must show each field in turn, also when two
    // fields have the same length and the same bytes up to a NUL
    if (a.size() + 4 <= 65535) // the length field has 16 bits
    {
        std::string a2 = a + std::string("\0one", 4), b2 = a + std::string("\0two", 4), e2;
        igris::archive::binary_string_writer w(e2);
        igris::serialize(w, igris::buffer(a2.data(), a2.size()));
        igris::serialize(w, igris::buffer(b2.data(), b2.size()));
        igris::serialize(w, igris::buffer(a2.data(), a2.size()));
        Exact blk2(e2.data(), e2.size());
        igris::archive::binary_buffer_reader rd(blk2.c(), blk2.n);
        igris::buffer z;
        const std::string *want[3] = {&a2, &b2, &a2};
        for (int k = 0; k < 3; k++)
        {
            rd.load_set_buffer(z);
            size_t off = 2 + (size_t)k * (a2.size() + 2);
            VP_CHECK(z.size() == want[k]->size() && z.data() == blk2.c() + off && memcmp(z.data(), want[k]->data(), want[k]->size()) == 0, "archive_reused_view",
                     "load_set_buffer #%d into a re-used igris::buffer: view at offset %zd with %zu bytes \"%s\", the field is at %zu with %zu bytes \"%s\"", k + 1,
                     (ssize_t)(z.data() - blk2.c()), z.size(), hexs(std::string(z.data(), z.size())).c_str(), off, want[k]->size(), hexs(*want[k]).c_str());
        }
        VP_CHECK(rd.ptr == blk2.c() + blk2.n, "archive_consumed", "three fields read into a re-used view: reader at %zd of %zu", (ssize_t)(rd.ptr - blk2.c()), blk2.n);
    }
    // copying loads into destinations of capacity length+slack
    {
        igris::archive::binary_buffer_reader rd(blk.c(), blk.n);
        Exact d1(a.size() + (size_t)slack), d2(b.size() + (size_t)slack);
        igris::archive::writable_buffer wb;
        wb = igris::buffer(d1.c(), d1.n);
        rd.load(wb);
        VP_CHECK((size_t)(rd.ptr - blk.c()) == ea.size(), "archive_consumed", "load(writable_buffer): reader at "
                 "%zd, encoding has %zu bytes", (ssize_t)(rd.ptr - blk.c()), ea.size());
        VP_CHECK(wb.size() == a.size() && wb.data() == d1.c() &&
                     (a.empty() || memcmp(d1.p, a.data(), a.size()) == 0),
                 "archive_roundtrip", "load(writable_buffer): got %zu bytes, want %zu", wb.size(), a.size());
        // char* form: the caller learns the length only from the data; an all-0xEE prefill shows what was written
        memset(d2.p, 0xEE, d2.n);
        rd.load(d2.c(), (uint16_t)d2.n);
        VP_CHECK((size_t)(rd.ptr - blk.c()) == cat.size(), "archive_consumed", "load(char*,maxsz): reader at %zd "
                 "of %zu", (ssize_t)(rd.ptr - blk.c()), cat.size());
        VP_CHECK(b.empty() || memcmp(d2.p, b.data(), b.size()) == 0, "archive_concat_second",
                 "load(char*,maxsz): bytes differ");
        for (size_t i = b.size(); i < d2.n; i++)
            VP_CHECK(d2.p[i] == 0xEE, "archive_load_overwrite", "load(char*,maxsz) wrote past the %zu data bytes",
                     b.size());
    }
}

// ------------------------------------------------------------- the family
struct Entry
{
    const char *name;
    void (*run)(Src &, Case &, const char *);
};
#define TY(...)                                                                                                   \
    {                                                                                                                \
        #__VA_ARGS__, &run_type<__VA_ARGS__>                                                                         \
    }
using std::map;
using std::pair;
using std::string;
using std::tuple;
using std::vector;
static const Entry FAMILY[] = {
    TY(int8_t),
    TY(int16_t),
    TY(int32_t),
    TY(int64_t),
    TY(uint8_t),
    TY(uint16_t),
    TY(uint32_t),
    TY(uint64_t),
    TY(float),
    TY(double),
    TY(string),
    {"igris::buffer", &run_buffer},
    TY(vector<uint8_t>),
    TY(vector<int16_t>),
    TY(vector<int32_t>),
    TY(vector<uint64_t>),
    TY(vector<float>),
    TY(vector<double>),
    TY(vector<string>),
    TY(vector<vector<int16_t>>),
    TY(vector<pair<int8_t, int32_t>>),
    TY(vector<SA>),
    TY(pair<int8_t, int32_t>),
    TY(pair<string, double>),
    TY(tuple<int32_t>),
    TY(tuple<uint8_t, int64_t>),
    TY(tuple<string, float, int16_t>),
    TY(tuple<uint16_t, string, double, int8_t>),
    TY(map<string, int32_t>),
    TY(map<int32_t, vector<uint16_t>>),
    TY(map<uint8_t, pair<string, float>>),
    TY(SA),
    TY(SB),
    TY(SC),
    TY(SD),
};
static const size_t NFAMILY = sizeof FAMILY / sizeof FAMILY[0];

static void archive_target(Src &s, Case &c)
{
    const Entry &e = FAMILY[s.below(NFAMILY)];
    e.run(s, c, e.name);
}
// long double: archive.h has its own dump/load overloads for it (the fixed-width native image, 16 bytes here of which the
// x87 format uses 10; the other 6 are padding whose content is not specified, so the bytes are not compared with a
// reference — sizes, values and what follows are).
static void archive_longdouble_target(Src &s, Case &c)
{
    auto gen_ld = [&]() -> long double {
        switch (s.below(6))
        {
        case 0:
            return 0.0L;
        case 1:
            return -0.0L;
        case 2:
            return (long double)std::bit_cast<double>(s.u64() & 0x7fefffffffffffffull) * (s.coin() ? 1 : -1);
        case 3:
            return std::numeric_limits<long double>::max();
        case 4:
            return std::numeric_limits<long double>::denorm_min();
        default:
            return (long double)s.range(-1000000, 1000000) / 1024.0L + 0x1p-70L;
        }
    };
    auto same = [](long double a, long double b) { return memcmp(&a, &b, 10) == 0; };
    int form = (int)s.below(4);
    size_t n = (size_t)s.range(1, 5);
    std::vector<long double> xs;
    for (size_t i = 0; i < n; i++)
        xs.push_back(gen_ld());
    int32_t tail = s.biased_int<int32_t>();
    c.nontrivial = true;
    c.log("long double form %d, %zu value(s), first %.25Lg, tail %d", form, n, xs[0], tail);
    if (form == 0)
    {
        // scalars one after the other, then an int32
        c.label("ld_sequence");
        std::string e;
        for (long double x : xs)
            e += igris::serialize(x);
        e += igris::serialize(tail);
        VP_CHECK(e.size() == n * sizeof(long double) + 4, "archive_longdouble_size", "%zu long double + an int32 encode to %zu bytes, want %zu", n, e.size(),
                 n * sizeof(long double) + 4);
        Exact blk(e.data(), e.size());
        igris::archive::binary_buffer_reader rd(blk.c(), blk.n);
        for (size_t i = 0; i < n; i++)
        {
            long double y = 1;
            igris::deserialize(rd, y);
            VP_CHECK(same(y, xs[i]), "archive_longdouble_value", "value %zu decodes to %.25Lg, want %.25Lg", i, y, xs[i]);
        }
        int32_t t2 = ~tail;
        igris::deserialize(rd, t2);
        VP_CHECK(t2 == tail && (size_t)(rd.ptr - blk.c()) == e.size(), "archive_longdouble_consumed", "int32 after the long doubles decodes to %d (want %d), %td of %zu bytes consumed",
                 t2, tail, rd.ptr - blk.c(), e.size());
    }
    else if (form == 1)
    {
        c.label("ld_pair");
        std::pair<long double, int32_t> p{xs[0], tail};
        std::string e = igris::serialize(p);
        VP_CHECK(e.size() == sizeof(long double) + 4, "archive_longdouble_size", "pair<long double,int32> encodes to %zu bytes", e.size());
        Exact blk(e.data(), e.size());
        auto q = igris::deserialize<std::pair<long double, int32_t>>(igris::buffer(blk.c(), blk.n));
        VP_CHECK(same(q.first, p.first) && q.second == p.second, "archive_longdouble_value", "pair decodes to (%.25Lg, %d), want (%.25Lg, %d)", q.first, q.second, p.first, p.second);
    }
    else if (form == 2)
    {
        c.label("ld_vector");
        std::string e = igris::serialize(xs) + igris::serialize(tail);
        VP_CHECK(e.size() == 2 + n * sizeof(long double) + 4, "archive_longdouble_size", "vector of %zu long double + int32 encodes to %zu bytes", n, e.size());
        Exact blk(e.data(), e.size());
        igris::archive::binary_buffer_reader rd(blk.c(), blk.n);
        std::vector<long double> ys;
        igris::deserialize(rd, ys);
        int32_t t2 = ~tail;
        igris::deserialize(rd, t2);
        bool ok = ys.size() == xs.size();
        for (size_t i = 0; ok && i < n; i++)
            ok = same(ys[i], xs[i]);
        VP_CHECK(ok && t2 == tail && (size_t)(rd.ptr - blk.c()) == e.size(), "archive_longdouble_value", "vector<long double> of %zu + int32: %zu decoded, tail %d (want %d), %td of %zu consumed",
                 n, ys.size(), t2, tail, rd.ptr - blk.c(), e.size());
    }
    else
    {
        c.label("ld_tuple");
        std::tuple<uint8_t, long double, int32_t> t{(uint8_t)n, xs[0], tail};
        std::string e = igris::serialize(t);
        VP_CHECK(e.size() == 1 + sizeof(long double) + 4, "archive_longdouble_size", "tuple<u8,long double,int32> encodes to %zu bytes", e.size());
        Exact blk(e.data(), e.size());
        auto q = igris::deserialize<std::tuple<uint8_t, long double, int32_t>>(igris::buffer(blk.c(), blk.n));
        VP_CHECK(std::get<0>(q) == (uint8_t)n && same(std::get<1>(q), xs[0]) && std::get<2>(q) == tail, "archive_longdouble_value", "tuple decodes to (%u, %.25Lg, %d)",
                 std::get<0>(q), std::get<1>(q), std::get<2>(q));
    }
}
VP_TARGET("archive_longdouble", archive_longdouble_target,
          "long double through archive.h (its own dump/load overloads): sequences, pair, vector and tuple with an int32 behind — encoded size = sizeof(long double) per "
          "value, values round-trip (the 10 significant bytes), the value that follows decodes correctly and every byte is consumed");

// The writer bound to a string that already has content (a frame header, earlier records) appends behind it, and
// archive::data<T> — the raw-array helper — encodes n elements as their n * sizeof(T) native bytes whether it was built
// from a pointer to const or to non-const elements; an int32 follows to show the next value stays in place.
template <class T> static void raw_array_case(Src &s, Case &c, const char *tn)
{
    size_t n = (size_t)s.range(0, 12);
    std::vector<T> xs(n);
    xs.reserve(n + 1); // data() is a real address for the empty array too (a null pointer with a count of 0 is the caller's business)
    for (auto &x : xs)
        x = (T)s.biased_int<int32_t>();
    std::string prefix;
    for (size_t i = 0, k = (size_t)s.below(5); i < k; i++)
        prefix += (char)s.u8();
    int32_t tail = s.biased_int<int32_t>();
    bool from_const = s.coin();
    c.log("data<%s> of %zu elements built from a %s pointer, writer bound to a string of %zu bytes", tn, n, from_const ? "const" : "non-const", prefix.size());
    c.label(from_const ? "data_from_const_pointer" : "data_from_pointer");
    if (!prefix.empty())
        c.label("writer_on_non_empty_string");
    c.nontrivial = n > 0 && sizeof(T) > 1;
    std::string out = prefix;
    {
        igris::archive::binary_string_writer w(out);
        if (from_const)
        {
            const T *cp = xs.data();
            igris::archive::data<T> d(cp, n);
            igris::serialize(w, d);
        }
        else
        {
            igris::archive::data<T> d(xs.data(), n);
            igris::serialize(w, d);
        }
        igris::serialize(w, tail);
    }
    std::string want = prefix + std::string((const char *)xs.data(), n * sizeof(T)) + std::string((const char *)&tail, 4);
    VP_CHECK(out == want, "archive_raw_bytes", "data<%s> x %zu + int32 behind a %zu-byte prefix: the string holds %s, want %s", tn, n, prefix.size(), hexs(out).c_str(),
             hexs(want).c_str());
    // decode
    std::string enc = out.substr(prefix.size());
    Exact blk(enc.data(), enc.size());
    igris::archive::binary_buffer_reader rd(blk.c(), blk.n);
    std::vector<T> ys(n, (T)0x55);
    ys.reserve(n + 1);
    igris::archive::data<T> dd(ys.data(), n);
    igris::deserialize(rd, dd);
    int32_t t2 = ~tail;
    igris::deserialize(rd, t2);
    VP_CHECK(ys == xs && t2 == tail && (size_t)(rd.ptr - blk.c()) == enc.size(), "archive_raw_roundtrip", "data<%s> x %zu decodes wrongly or the int32 behind it reads %d (want %d); %td of %zu bytes consumed",
             tn, n, t2, tail, rd.ptr - blk.c(), enc.size());
}
static void archive_raw_target(Src &s, Case &c)
{
    switch (s.below(4))
    {
    case 0:
        return raw_array_case<uint8_t>(s, c, "uint8");
    case 1:
        return raw_array_case<int16_t>(s, c, "int16");
    case 2:
        return raw_array_case<int32_t>(s, c, "int32");
    default:
        return raw_array_case<int64_t>(s, c, "int64");
    }
}
VP_TARGET("archive_raw", archive_raw_target,
          "archive::data<T> (raw arrays of 0..12 uint8 / int16 / int32 / int64, built from a const or a non-const pointer) written by a binary_string_writer bound to a string that "
          "already holds 0..4 bytes, an int32 behind: the string = prefix + native bytes + int32, and the array and the int32 decode back; non-trivial = a non-empty array of a multi-byte type");

static void archive_defaults_target(Src &s, Case &c)
{
    if (s.coin())
        run_type<SE>(s, c, "SE");
    else
        run_type<SF>(s, c, "SF");
    c.label("defaults_struct");
}
VP_TARGET("archive_defaults", archive_defaults_target,
          "reflect() structs whose default-constructed members are not empty (string \"dflt\", vector{1,2,3}, map with two entries, vector<string>, "
          "vector<uint8>/vector<double> with elements) x two generated values, empty containers included: the same round trip, consumed == produced and wire "
          "format checks as archive — deserialize<T>() starts from the default object, so every member must be replaced, not appended to");
VP_TARGET("archive", archive_target,
          "type drawn from a 35-member compile-time family (8 fixed-width integers, float, double, string, "
          "igris::buffer forms, vectors of scalars/strings/vectors/pairs/structs, pairs, tuples of 1-4, 3 maps, 4 "
          "reflect() structs, depth <= 3) x two generated values (boundary-biased integers, all float bit patterns, "
          "sizes 0..20 with a tail of 255..65535, embedded NULs); non-trivial = a value contains a non-empty "
          "container or a string with an embedded NUL, or the type nests to depth >= 2");

// ------------------------------------------------------------ golden bytes
static const size_t GOLDEN_ARCHIVE_ONLY = 17;
static void golden_archive_only(size_t k, Case &c)
{
    using S = ArchiveSys;
    switch (k)
    {
    case 0:
        return golden_check<S>(c, "string \"\"", string(), "0000");
    case 1:
        return golden_check<S>(c, "string a\\0b", string("a\0b", 3), "0300 61 00 62");
    case 2:
        return golden_check<S>(c, "string \"hello world\"", string("hello world"), "0b00 68656c6c6f20776f726c64");
    case 3:
        return golden_check<S>(c, "vector<string>{\"hi\",\"\"}", vector<string>{"hi", ""}, "0200 0200 6869 0000");
    case 4:
        return golden_check<S>(c, "pair<int8,int32>{-1,258}", pair<int8_t, int32_t>{-1, 258}, "ff 02010000");
    case 5:
        return golden_check<S>(c, "pair<string,double>{\"x\",1.0}", pair<string, double>{"x", 1.0},
                               "0100 78 000000000000f03f");
    case 6:
        return golden_check<S>(c, "tuple<int32>{7}", tuple<int32_t>{7}, "07000000");
    case 7:
        return golden_check<S>(c, "tuple<uint8,int64>{255,-1}", tuple<uint8_t, int64_t>{255, -1},
                               "ff ffffffffffffffff");
    case 8:
        return golden_check<S>(c, "tuple<string,float,int16>{\"ab\",0.5f,-2}",
                               tuple<string, float, int16_t>{"ab", 0.5f, -2}, "0200 6162 0000003f feff");
    case 9:
        return golden_check<S>(c, "tuple<uint16,string,double,int8>{513,\"\",2.0,-128}",
                               tuple<uint16_t, string, double, int8_t>{513, "", 2.0, -128},
                               "0102 0000 0000000000000040 80");
    case 10: // the example of DESIGN §5
        return golden_check<S>(c, "map<string,int32>{a:1,b:2}", map<string, int32_t>{{"b", 2}, {"a", 1}},
                               "0200 0100 61 01000000 0100 62 02000000");
    case 11: // the map of tests/archive/serialize.cpp
        return golden_check<S>(c, "map<string,int32>{A:33,B:44,C:55}",
                               map<string, int32_t>{{"A", 33}, {"B", 44}, {"C", 55}},
                               "0300 0100 41 21000000 0100 42 2c000000 0100 43 37000000");
    case 12: // key order is numeric (-1 < 3), not byte order
        return golden_check<S>(c, "map<int32,vector<uint16>>{-1:{},3:{7,8}}",
                               map<int32_t, vector<uint16_t>>{{3, {7, 8}}, {-1, {}}},
                               "0200 ffffffff 0000 03000000 0200 0700 0800");
    case 13:
        return golden_check<S>(c, "map<uint8,pair<string,float>>{5:(\"q\",1.0f)}",
                               map<uint8_t, pair<string, float>>{{5, {"q", 1.0f}}}, "0100 05 0100 71 0000803f");
    case 14:
        return golden_check<S>(c, "vector<pair<int8,int32>>{(1,2)}", vector<pair<int8_t, int32_t>>{{1, 2}},
                               "0100 01 02000000");
    case 15:
    {
        SD d;
        d.name = "n";
        d.m = {{"k", -1}};
        d.p = {-128, 1};
        d.t = {255, "zz"};
        d.crc = 0x04030201;
        return golden_check<S>(c, "struct SD{\"n\",{k:-1},(-128,1),(255,\"zz\"),0x04030201}", d,
                               "0100 6e 0100 0100 6b ffffffff 80 01000000 ff 0200 7a7a 01020304");
    }
    default: // the vector of tests/archive/serialize.cpp
        return golden_check<S>(c, "vector<int32>{33,44,55}", vector<int32_t>{33, 44, 55},
                               "0300 21000000 2c000000 37000000");
    }
}
static unsigned __int128 archive_golden_size(int) { return GOLDEN_COMMON + GOLDEN_ARCHIVE_ONLY; }
static void archive_golden(Src &s, Case &c)
{
    size_t k = (size_t)s.below(GOLDEN_COMMON + GOLDEN_ARCHIVE_ONLY);
    if (k < GOLDEN_COMMON)
        golden_common<ArchiveSys>(k, c);
    else
        golden_archive_only(k - GOLDEN_COMMON, c);
}
VP_TARGET("archive_golden", archive_golden,
          "every entry of the committed golden-bytes table (fixed value, encoding written by hand from the documented "
          "layout): serialize == recorded bytes, deserialize(recorded bytes) == value and consumes all of them",
          archive_golden_size);
