// C03 — ring buffers are FIFO, lossless and byte-transparent for every fill
// pattern. Targets: c_ring (datastruct/ring.h), cxx_ring (igris::ring<int|char>,
// ctor and default+resize), cyclic (ring_counter + cyclic_buffer<int>) — random
// operation histories against a std::deque model — and ring_enum (every reachable
// (head, tail) pair x every single operation, sizes 2..17).
//
// Histories are decoded op by op; the op byte 00 followed by 00 ends a history,
// so a zero-padded or truncated choice sequence is the same (shorter) history.
// Operations are generated only under the preconditions their callers respect
// (push/move_head only with room, pop/move_tail only with data, get_last within
// avail); an op drawn in a state where its precondition fails becomes the
// checked counterpart (putc on full / getc on empty) or its opposite.
#include "vpbt.h"
#include <deque>
#include <igris/container/cyclic_buffer.h>
#include <igris/container/ring.h>
#include <igris/datastruct/ring.h>
#include <igris/datastruct/ring_counter.h>
#include <memory>
#include <string>
#include <vector>

using namespace vpbt;

// known-finding slugs (active only when listed in known_findings.json / VERIF_KNOWN_EXTRA)
static const char K_GETC_FF[] = "C03-getc-ff-is-empty";        // ring_getc: 0xFF read back as -1
static const char K_FIXUP_NEG[] = "C03-fixup-index-negative";  // ring_fixup_index: int % unsigned
static const char K_RESIZE[] = "C03-resize-buffer-one-short";  // igris::ring::resize: n slots, ring of n+1

namespace
{
const unsigned kMaxOps = 200; // history length bound
// The *_large targets: ring sizes around 256 and 512 (and, for the byte rings, 65536) with histories long
// enough to fill, wrap and drain them; everything else is shared with the small-size targets.
static bool g_large = false;
struct LargeMode
{
    LargeMode() { g_large = true; }
    ~LargeMode() { g_large = false; }
};
static unsigned max_ops(unsigned n) { return !g_large ? kMaxOps : n > 1000 ? 16 : 3 * n + 40; }

bool is_pow2(unsigned x)
{
    return x && !(x & (x - 1));
}
int mod(int i, int m)
{
    return ((i % m) + m) % m;
}

// ------------------------------------------------------------- generators
uint8_t gen_byte(Src &s)
{
    switch (s.weighted({4, 2, 2, 1, 1}))
    {
    case 0:
        return s.u8();
    case 1:
        return 0xFF;
    case 2:
        return 0x00;
    case 3:
        return 0x80;
    default:
        return s.pick<uint8_t>({0x7F, 0x01, 0xFE, 0x81});
    }
}
// k data bytes: per-byte draws, an ascending ramp (all values distinct, so loss,
// duplication and reordering all show), or a constant
std::vector<uint8_t> gen_data(Src &s, size_t k)
{
    std::vector<uint8_t> d(k);
    if (!k)
        return d;
    // long runs in the large targets are ramps or constant (keeps the choice sequence short)
    switch (g_large && k > 24 ? 1 + s.weighted({3, 1}) : s.weighted({3, 3, 1}))
    {
    case 0:
        for (auto &b : d)
            b = gen_byte(s);
        break;
    case 1:
    {
        uint8_t b0 = gen_byte(s);
        for (size_t i = 0; i < k; i++)
            d[i] = (uint8_t)(b0 + i);
        break;
    }
    default:
    {
        uint8_t b0 = gen_byte(s);
        for (auto &b : d)
            b = b0;
    }
    }
    return d;
}
// ring size (number of slots) 2..40, small sizes over-weighted
unsigned gen_size(Src &s, bool allow_huge = false)
{
    if (g_large)
        switch (s.weighted({4, 2, 2, 1}))
        {
        case 0:
            return (unsigned)s.range(250, 262);
        case 1:
            return (unsigned)s.range(508, 516);
        case 2:
            return (unsigned)s.range(41, 300);
        default:
            return allow_huge ? (unsigned)s.range(65530, 65542) : (unsigned)s.range(120, 136);
        }
    switch (s.weighted({3, 2, 1}))
    {
    case 0:
        return (unsigned)s.range(2, 9);
    case 1:
        return (unsigned)s.range(10, 17);
    default:
        return (unsigned)s.range(18, 40);
    }
}
bool has_ff(const std::vector<uint8_t> &d)
{
    for (auto b : d)
        if (b == 0xFF)
            return true;
    return false;
}

// history flags shared by the two FIFO rings
struct Flags
{
    bool was_full = false, drained = false, wrapped = false, byte_ff = false, nonempty_seen = false;
    void classify(Case &c, unsigned size) const
    {
        c.nontrivial = wrapped && was_full && drained;
        if (wrapped)
            c.label("wrapped");
        if (was_full)
            c.label("was_full");
        if (drained)
            c.label("drained");
        if (byte_ff)
            c.label("byte_ff");
        if (is_pow2(size))
            c.label("pow2");
        else
            c.label("non_pow2");
    }
};

// =================================================================== C ring
struct Snap
{
    unsigned head, tail;
    std::vector<uint8_t> buf;
};

struct CR
{
    Case &c;
    unsigned n; // slots; capacity n-1
    Exact blk;  // backing store: exactly n bytes
    ring_head r;
    std::deque<uint8_t> q;
    Flags f;

    CR(Case &c_, unsigned n_) : c(c_), n(n_), blk(n_)
    {
        memset(blk.p, 0xA5, n);
        // the control block comes from ring_init() or, for three sizes, from the static initialiser macro (which fills
        // the members positionally)
        static const ring_head k8 = RING_HEAD_INIT(8), k13 = RING_HEAD_INIT(13), k33 = RING_HEAD_INIT(33);
        if (n == 8)
            r = k8;
        else if (n == 13)
            r = k13;
        else if (n == 33)
            r = k33;
        else
            ring_init(&r, n);
    }
    size_t cap() const { return n - 1; }
    size_t room() const { return cap() - q.size(); }
    char *buf() { return blk.c(); }
    Snap snap() { return Snap{r.head, r.tail, std::vector<uint8_t>(blk.p, blk.p + n)}; }

    void unchanged(const Snap &b, const char *what)
    {
        VP_CHECK(r.head == b.head && r.tail == b.tail, "c_rejected_op_moved_index",
                 "%s: (head,tail) (%u,%u) -> (%u,%u), size %u", what, b.head, b.tail, r.head, r.tail, n);
        VP_CHECK(!memcmp(blk.p, b.buf.data(), n), "c_rejected_op_wrote_buffer", "%s: buffer %s -> %s", what,
                 hexdump(b.buf.data(), n).c_str(), hexdump(blk.p, n).c_str());
    }
    void pushed(const Snap &b, size_t k)
    {
        if (k && r.head < b.head)
            f.wrapped = true;
    }

    // every state clause of the statement, after every operation
    void check(const char *op)
    {
        VP_CHECK(r.size == n, "c_size_changed", "after %s: size %u -> %u", op, n, r.size);
        VP_CHECK(r.head < n && r.tail < n, "c_index_out_of_range", "after %s: head=%u tail=%u size=%u", op, r.head,
                 r.tail, n);
        unsigned a = ring_avail(&r), ro = ring_room(&r);
        VP_CHECK(a == q.size(), "c_avail", "after %s: ring_avail=%u, reference holds %zu (head=%u tail=%u size=%u)", op,
                 a, q.size(), r.head, r.tail, n);
        VP_CHECK(ro == room(), "c_room", "after %s: ring_room=%u, reference has %zu free (head=%u tail=%u size=%u)", op,
                 ro, room(), r.head, r.tail, n);
        VP_CHECK(a + ro == n - 1, "c_avail_room_sum", "after %s: avail %u + room %u != size-1 = %u", op, a, ro, n - 1);
        VP_CHECK(!!ring_empty(&r) == q.empty(), "c_empty", "after %s: ring_empty=%d with %zu stored (head=%u tail=%u)",
                 op, ring_empty(&r), q.size(), r.head, r.tail);
        VP_CHECK(!!ring_full(&r) == (q.size() == cap()), "c_full",
                 "after %s: ring_full=%d with %zu of %zu stored (head=%u tail=%u size=%u)", op, ring_full(&r),
                 q.size(), cap(), r.head, r.tail, n);
        size_t j = 0;
        ring_for_each(i, &r)
        {
            VP_CHECK(i < n, "c_for_each_index", "after %s: ring_for_each yields index %u, size %u", op, i, n);
            VP_CHECK(j < q.size(), "c_for_each_count", "after %s: ring_for_each visits more than the %zu stored", op,
                     q.size());
            VP_CHECK((uint8_t)buf()[i] == q[j], "c_data",
                     "after %s: stored element %zu (slot %u) is %02x, reference %02x (head=%u tail=%u size=%u)", op, j,
                     i, (uint8_t)buf()[i], q[j], r.head, r.tail, n);
            j++;
        }
        VP_CHECK(j == q.size(), "c_for_each_count", "after %s: ring_for_each visited %zu of %zu stored", op, j,
                 q.size());
        if (!q.empty())
            f.nonempty_seen = true;
        if (q.size() == cap())
            f.was_full = true;
        if (q.empty() && f.nonempty_seen)
            f.drained = true;
    }

    void putc(uint8_t b)
    {
        c.log("putc(%02x) ", b);
        Snap before = snap();
        bool ok = room() > 0;
        int ret = ring_putc(&r, buf(), (char)b);
        if (ok)
        {
            VP_CHECK(ret == 1, "c_putc_ret", "ring_putc(%02x) with %zu free returned %d", b, room(), ret);
            q.push_back(b);
            if (b == 0xFF)
                f.byte_ff = true;
            pushed(before, 1);
        }
        else
        {
            VP_CHECK(ret == 0, "c_putc_full_ret", "ring_putc on a full ring returned %d", ret);
            unchanged(before, "ring_putc on a full ring");
        }
        check("putc");
    }
    void getc()
    {
        if (!q.empty() && q.front() == 0xFF && known_active(K_GETC_FF))
        {
            c.known_hit(K_GETC_FF); // excluded: getc of a stored 0xFF; consume it without getc
            c.log("[known:getc of ff] ");
            move_tail_one();
            return;
        }
        c.log("getc ");
        Snap before = snap();
        int ret = ring_getc(&r, buf());
        if (q.empty())
        {
            VP_CHECK(ret == -1, "c_getc_empty_ret", "ring_getc on an empty ring returned %d", ret);
            unchanged(before, "ring_getc on an empty ring");
        }
        else
        {
            uint8_t want = q.front();
            q.pop_front();
            VP_CHECK(ret != -1, want == 0xFF ? "c_getc_ff_reads_as_empty" : "c_getc_nonempty_minus1",
                     "ring_getc with %zu stored, next byte %02x, returned -1 (the 'empty' code)", q.size() + 1, want);
            VP_CHECK(ret >= -128 && ret <= 255 && (uint8_t)ret == want, "c_getc_value",
                     "ring_getc returned %d, reference byte %02x", ret, want);
        }
        check("getc");
    }
    void write(const std::vector<uint8_t> &d)
    {
        c.log("write(%zu:%s) ", d.size(), hexdump(d.data(), d.size(), 48).c_str());
        Exact src(d.data(), d.size());
        size_t want = std::min(d.size(), room());
        Snap before = snap();
        int ret = ring_write(&r, buf(), src.c(), (unsigned)d.size());
        VP_CHECK(ret == (int)want, "c_write_ret", "ring_write of %zu bytes with %zu free returned %d", d.size(), room(),
                 ret);
        for (size_t i = 0; i < want; i++)
            q.push_back(d[i]);
        if (want == 0)
            unchanged(before, "ring_write accepting nothing");
        else if (has_ff(std::vector<uint8_t>(d.begin(), d.begin() + want)))
            f.byte_ff = true;
        pushed(before, want);
        check("write");
    }
    void read(unsigned k)
    {
        size_t want = std::min((size_t)k, q.size());
        bool ff = false;
        for (size_t i = 0; i < want; i++)
            if (q[i] == 0xFF)
                ff = true;
        if (ff && known_active(K_GETC_FF))
        {
            c.known_hit(K_GETC_FF); // excluded: ring_read across a stored 0xFF
            c.log("[known:read(%u) across ff] ", k);
            move_tail((unsigned)want);
            return;
        }
        c.log("read(%u) ", k);
        Exact out(k);
        if (k)
            memset(out.p, 0x5A, k);
        Snap before = snap();
        int ret = ring_read(&r, buf(), out.c(), k);
        VP_CHECK(ret == (int)want, ff ? "c_read_stops_at_ff" : "c_read_ret",
                 "ring_read(%u) with %zu stored (%s...) returned %d", k, q.size(),
                 hexdump(std::vector<uint8_t>(q.begin(), q.begin() + want).data(), want, 24).c_str(), ret);
        for (size_t i = 0; i < want; i++)
            VP_CHECK(out.p[i] == q[i], "c_read_data", "ring_read byte %zu is %02x, reference %02x", i, out.p[i], q[i]);
        q.erase(q.begin(), q.begin() + want);
        if (want == 0)
            unchanged(before, "ring_read delivering nothing");
        check("read");
    }
    // direct buffer use: the caller stores at head, then publishes (needs room)
    void move_head_one(uint8_t b)
    {
        c.log("store(%02x)+move_head_one ", b);
        Snap before = snap();
        buf()[r.head] = (char)b;
        ring_move_head_one(&r);
        q.push_back(b);
        if (b == 0xFF)
            f.byte_ff = true;
        pushed(before, 1);
        check("move_head_one");
    }
    void move_head(const std::vector<uint8_t> &d) // d.size() <= room
    {
        c.log("store(%zu:%s)+move_head ", d.size(), hexdump(d.data(), d.size(), 48).c_str());
        Snap before = snap();
        for (size_t i = 0; i < d.size(); i++)
        {
            buf()[(r.head + i) % n] = (char)d[i];
            q.push_back(d[i]);
        }
        ring_move_head(&r, (unsigned)d.size());
        if (has_ff(d))
            f.byte_ff = true;
        pushed(before, d.size());
        check("move_head");
    }
    void move_tail_one() // needs avail
    {
        c.log("move_tail_one ");
        ring_move_tail_one(&r);
        q.pop_front();
        check("move_tail_one");
    }
    void move_tail(unsigned k) // k <= avail
    {
        c.log("move_tail(%u) ", k);
        ring_move_tail(&r, k);
        q.erase(q.begin(), q.begin() + k);
        check("move_tail");
    }
    void clean()
    {
        c.log("clean ");
        ring_clean(&r);
        q.clear();
        check("clean");
    }
};

void t_c_ring(Src &s, Case &c)
{
    unsigned n = gen_size(s, true);
    c.log("c_ring size=%u: ", n);
    CR R(c, n);
    R.check("init");
    for (unsigned i = 0, ops = max_ops(n); i < ops; i++)
    {
        unsigned o = (unsigned)s.below(64);
        if (o == 0 && s.u8() == 0)
            break; // 00 00 ends the history (so does the end of the choice sequence)
        if (o < 12)
            R.putc(gen_byte(s));
        else if (o < 22)
            R.getc();
        else if (o < 32)
            R.write(gen_data(s, (size_t)s.range(0, n + 2)));
        else if (o < 41)
            R.read((unsigned)s.range(0, n + 2));
        else if (o < 46)
        {
            if (R.room())
                R.move_head_one(gen_byte(s));
            else
                R.putc(gen_byte(s)); // full: the rejected write instead
        }
        else if (o < 51)
        {
            if (!R.q.empty())
                R.move_tail_one();
            else
                R.getc(); // empty: the rejected read instead
        }
        else if (o < 56)
            R.move_head(gen_data(s, (size_t)s.below(R.room() + 1)));
        else if (o < 61)
            R.move_tail((unsigned)s.below(R.q.size() + 1));
        else if (o < 62)
            R.clean();
        else
        {
            c.log("for_each ");
            R.check("for_each");
        }
    }
    R.f.classify(c, n);
}
VP_TARGET("c_ring", t_c_ring,
          "datastruct/ring.h over an exactly-sized heap block, size 2..40, history <= 200 of putc/getc/write(k)/read(k)/"
          "move_head(_one)/move_tail(_one) under their room/avail preconditions/clean/for_each, bytes 0..255 with "
          "00/FF/80 over-weighted, against a std::deque; non-trivial = head wrapped and the ring was full and was "
          "drained to empty at least once each");

void t_c_ring_large(Src &s, Case &c)
{
    LargeMode lm;
    t_c_ring(s, c);
}
VP_TARGET("c_ring_large", t_c_ring_large,
          "c_ring with ring sizes 250..262, 508..516, 41..300 and 65530..65542 (beyond one- and two-byte indices): histories of "
          "3*size+40 operations (16 for the 64K sizes, where write/read move up to size+2 bytes at once), long runs as ramps or "
          "constant bytes; same reference and checks; non-trivial as for c_ring");

// ================================================================ C++ ring
template <class T> struct Val;
template <> struct Val<int>
{
    static long long show(int v) { return v; }
};
template <> struct Val<char>
{
    static long long show(char v) { return (unsigned char)v; }
};

template <class T> struct XR
{
    Case &c;
    bool resize_cfg;
    unsigned cap; // requested capacity; ring size cap+1
    std::unique_ptr<igris::ring<T>> R;
    std::deque<T> q;
    Flags f;

    XR(Case &c_, bool resize_cfg_, unsigned cap_) : c(c_), resize_cfg(resize_cfg_), cap(cap_)
    {
        if (resize_cfg)
        {
            R.reset(new igris::ring<T>());
            R->resize(cap);
        }
        else
            R.reset(new igris::ring<T>((int)cap));
    }
    unsigned size() const { return cap + 1; }
    size_t room() const { return cap - q.size(); }
    // the known resize defect is present on this object: fewer slots than the ring believes
    bool short_buffer() { return R->buffer.size() < R->r.size; }
    // slot idx would be outside the allocation (only possible with the resize defect)
    bool excluded_slot(unsigned idx)
    {
        if (idx >= R->buffer.size() && short_buffer() && known_active(K_RESIZE))
        {
            c.known_hit(K_RESIZE);
            return true;
        }
        return false;
    }
    // fixup_index(raw) is wrong and that is the known finding
    bool excluded_fixup(int raw)
    {
        if (raw < 0 && known_active(K_FIXUP_NEG) && R->fixup_index(raw) != mod(raw, (int)size()))
        {
            c.known_hit(K_FIXUP_NEG);
            return true;
        }
        return false;
    }

    void check(const char *op)
    {
        unsigned sz = size();
        VP_CHECK(R->size() == sz, "x_size", "after %s: size()=%u, want %u (capacity %u + 1)", op, R->size(), sz, cap);
        int h = R->head_index(), t = R->tail_index();
        VP_CHECK(h >= 0 && t >= 0 && (unsigned)h < sz && (unsigned)t < sz, "x_index_out_of_range",
                 "after %s: head=%d tail=%d size=%u", op, h, t, sz);
        unsigned a = R->avail(), ro = R->room();
        VP_CHECK(a == q.size(), "x_avail", "after %s: avail()=%u, reference holds %zu (head=%d tail=%d size=%u)", op, a,
                 q.size(), h, t, sz);
        VP_CHECK(ro == room(), "x_room", "after %s: room()=%u, reference has %zu free (head=%d tail=%d size=%u)", op,
                 ro, room(), h, t, sz);
        VP_CHECK(a + ro == sz - 1, "x_avail_room_sum", "after %s: avail %u + room %u != size-1 = %u", op, a, ro,
                 sz - 1);
        VP_CHECK(R->empty() == q.empty(), "x_empty", "after %s: empty()=%d with %zu stored", op, (int)R->empty(),
                 q.size());
        int dist = R->distance(h, t);
        VP_CHECK(dist == (int)q.size(), "x_distance_head_tail", "after %s: distance(head=%d, tail=%d)=%d, %zu stored",
                 op, h, t, dist, q.size());
        for (size_t j = 0; j < q.size(); j++)
        {
            unsigned idx = ((unsigned)t + (unsigned)j) % sz;
            if (excluded_slot(idx))
                continue;
            T got = R->get((int)idx);
            VP_CHECK(got == q[j], "x_data", "after %s: stored element %zu (slot %u) is %lld, reference %lld", op, j, idx,
                     Val<T>::show(got), Val<T>::show(q[j]));
        }
        if (!q.empty())
            f.nonempty_seen = true;
        if (q.size() == cap)
            f.was_full = true;
        if (q.empty() && f.nonempty_seen)
            f.drained = true;
    }
    void note(T v)
    {
        if ((unsigned char)v == 0xFF && sizeof(T) == 1)
            f.byte_ff = true;
    }

    // a burst written straight into the storage (as a DMA transfer would) and announced with set_last_index(index
    // of its last element); needs room for all of it
    void direct(const std::vector<T> &vals)
    {
        unsigned sz = size(), h = R->r.head;
        for (size_t i = 0; i < vals.size(); i++)
            R->buffer[(h + i) % sz] = vals[i];
        int last_idx = (int)((h + vals.size() - 1) % sz);
        c.log("direct(%zu values, set_last_index(%d)) ", vals.size(), last_idx);
        R->set_last_index(last_idx);
        for (T v : vals)
            q.push_back(v);
        if ((unsigned)last_idx == sz - 1)
            f.wrapped = true;
        check("set_last_index");
    }
    // how: 0 push, 1 emplace, 2 head_place()=v + move_head_one  (all need room)
    void push(T v, int how)
    {
        static const char *nm[] = {"push", "emplace", "head_place+move_head_one"};
        if (excluded_slot(R->r.head))
        {
            c.log("[known:%s at slot %u] ", nm[how], R->r.head);
            return;
        }
        c.log("%s(%lld) ", nm[how], Val<T>::show(v));
        unsigned h0 = R->r.head;
        if (how == 0)
            R->push(v);
        else if (how == 1)
            R->emplace(v);
        else
        {
            R->head_place() = v;
            R->move_head_one();
        }
        q.push_back(v);
        note(v);
        if (R->r.head < h0)
            f.wrapped = true;
        check(nm[how]);
    }
    // how: 0 pop, 1 move_tail_one (need non-empty)
    void pop(int how)
    {
        c.log(how ? "move_tail_one " : "pop ");
        if (how)
            R->move_tail_one();
        else
            R->pop();
        q.pop_front();
        check(how ? "move_tail_one" : "pop");
    }
    void tail() // non-empty
    {
        if (excluded_slot(R->r.tail))
            return;
        c.log("tail ");
        T &ref = R->tail();
        VP_CHECK(ref == q.front(), "x_tail_value", "tail()=%lld, oldest element %lld", Val<T>::show(ref),
                 Val<T>::show(q.front()));
        int io = R->index_of(&ref);
        VP_CHECK(io == R->tail_index(), "x_tail_index_of", "index_of(&tail())=%d, tail_index()=%d", io,
                 R->tail_index());
    }
    void last() // non-empty
    {
        int h = R->head_index();
        if (excluded_fixup(h - 1))
        {
            c.log("[known:last at head 0] ");
            return;
        }
        c.log("last ");
        T &ref = R->last();
        int io = R->index_of(&ref);
        int want_idx = mod(h - 1, (int)size());
        VP_CHECK(io == want_idx, h == 0 ? "x_last_slot_head0" : "x_last_slot",
                 "last() addresses slot %d, newest element is in slot %d (head=%d size=%u)", io, want_idx, h, size());
        VP_CHECK(ref == q.back(), "x_last_value", "last()=%lld, newest element %lld (head=%d size=%u)",
                 Val<T>::show(ref), Val<T>::show(q.back()), h, size());
    }
    void get_last(unsigned off, unsigned cnt, bool from_end) // off+cnt <= avail
    {
        int h = R->head_index();
        bool neg = false;
        for (unsigned i = 0; i < cnt; i++)
        {
            int raw = from_end ? h - (int)off - (int)i - 1 : h - (int)cnt - (int)off + (int)i;
            if (raw < 0)
                neg = true;
            if (excluded_fixup(raw))
            {
                c.log("[known:get_last(%u,%u,%d) below slot 0] ", off, cnt, (int)from_end);
                return;
            }
        }
        c.log("get_last(%u,%u,%d) ", off, cnt, (int)from_end);
        std::vector<T> v = R->get_last((int)off, (int)cnt, from_end);
        VP_CHECK(v.size() == cnt, "x_get_last_count", "get_last(%u,%u,%d) returned %zu elements", off, cnt,
                 (int)from_end, v.size());
        size_t m = q.size();
        for (unsigned i = 0; i < cnt; i++)
        {
            T want = from_end ? q[m - 1 - off - i] : q[m - cnt - off + i];
            VP_CHECK(v[i] == want, neg ? "x_get_last_value_across_slot0" : "x_get_last_value",
                     "get_last(%u,%u,%d)[%u]=%lld, reference %lld (head=%d tail=%d size=%u, %zu stored)", off, cnt,
                     (int)from_end, i, Val<T>::show(v[i]), Val<T>::show(want), h, R->tail_index(), size(), m);
        }
    }
    void fixup_index(int i) // i in [-size, 3*size]
    {
        if (excluded_fixup(i))
        {
            c.log("[known:fixup_index(%d)] ", i);
            return;
        }
        c.log("fixup_index(%d) ", i);
        int got = R->fixup_index(i), want = mod(i, (int)size());
        VP_CHECK(got == want, i < 0 ? "x_fixup_index_negative" : "x_fixup_index", "fixup_index(%d)=%d, want %d (size %u)",
                 i, got, want, size());
    }
    void distance(int a, int b) // both in [0,size)
    {
        c.log("distance(%d,%d) ", a, b);
        int got = R->distance(a, b), want = mod(a - b, (int)size());
        VP_CHECK(got == want, "x_distance", "distance(%d,%d)=%d, want %d (size %u)", a, b, got, want, size());
    }
    void index_of(unsigned i) // i in [0,size)
    {
        if (excluded_slot(i))
            return;
        c.log("index_of(&get(%u)) ", i);
        int got = R->index_of(&R->get((int)i));
        VP_CHECK(got == (int)i, "x_index_of", "index_of(&get(%u))=%d", i, got);
    }
    void reset()
    {
        if (short_buffer() && known_active(K_RESIZE))
        {
            c.known_hit(K_RESIZE); // reset() would re-size the ring to the short buffer
            c.log("[known:reset after resize] ");
            return;
        }
        c.log("reset ");
        R->reset();
        q.clear();
        VP_CHECK(R->size() == size(), "x_reset_changes_size", "reset() changed size() from %u to %u (buffer has %zu slots)",
                 size(), R->size(), R->buffer.size());
        check("reset");
    }
    void clear()
    {
        c.log("clear ");
        R->clear();
        q.clear();
        check("clear");
    }
    void resize(unsigned ncap)
    {
        c.log("resize(%u) ", ncap);
        R->resize(ncap);
        cap = ncap;
        q.clear();
        check("resize");
    }
    // ring<char> only
    void write(const std::vector<uint8_t> &d)
    {
        size_t want = std::min(d.size(), room());
        // with the resize defect a write that reaches slot n leaves the allocation
        if (short_buffer() && known_active(K_RESIZE))
        {
            size_t fit = R->r.head < R->buffer.size() ? R->buffer.size() - R->r.head : 0;
            if (want > fit)
            {
                c.known_hit(K_RESIZE);
                c.log("[known:write(%zu) past slot %zu] ", d.size(), R->buffer.size());
                return;
            }
        }
        c.log("write(%zu:%s) ", d.size(), hexdump(d.data(), d.size(), 48).c_str());
        Exact src(d.data(), d.size());
        unsigned h0 = R->r.head, t0 = R->r.tail;
        size_t ret = R->write((const T *)src.c(), d.size());
        VP_CHECK(ret == want, "x_write_ret", "write of %zu with %zu free returned %zu", d.size(), room(), ret);
        for (size_t i = 0; i < want; i++)
        {
            q.push_back((T)d[i]);
            note((T)d[i]);
        }
        if (want == 0)
            VP_CHECK(R->r.head == h0 && R->r.tail == t0, "x_rejected_op_moved_index",
                     "write accepting nothing moved (head,tail) (%u,%u) -> (%u,%u)", h0, t0, R->r.head, R->r.tail);
        else if (R->r.head < h0)
            f.wrapped = true;
        check("write");
    }
    void read(unsigned k)
    {
        size_t want = std::min((size_t)k, q.size());
        bool ff = false;
        for (size_t i = 0; i < want; i++)
            if ((unsigned char)q[i] == 0xFF)
                ff = true;
        if (ff && known_active(K_GETC_FF))
        {
            c.known_hit(K_GETC_FF);
            c.log("[known:read(%u) across ff] ", k);
            for (size_t i = 0; i < want; i++)
                pop(0);
            return;
        }
        c.log("read(%u) ", k);
        Exact out(k);
        if (k)
            memset(out.p, 0x5A, k);
        unsigned h0 = R->r.head, t0 = R->r.tail;
        size_t ret = R->read((T *)out.c(), k);
        VP_CHECK(ret == want, ff ? "x_read_stops_at_ff" : "x_read_ret", "read(%u) with %zu stored returned %zu", k,
                 q.size(), ret);
        for (size_t i = 0; i < want; i++)
            VP_CHECK(out.p[i] == (uint8_t)q[i], "x_read_data", "read byte %zu is %02x, reference %02x", i, out.p[i],
                     (uint8_t)q[i]);
        q.erase(q.begin(), q.begin() + want);
        if (want == 0)
            VP_CHECK(R->r.head == h0 && R->r.tail == t0, "x_rejected_op_moved_index",
                     "read delivering nothing moved (head,tail) (%u,%u) -> (%u,%u)", h0, t0, R->r.head, R->r.tail);
        check("read");
    }
    // every relative accessor over its whole in-domain argument range
    void sweep()
    {
        if (!q.empty())
        {
            tail();
            last();
        }
        size_t m = q.size();
        for (unsigned off = 0; off <= m; off++)
            for (unsigned cnt = 0; off + cnt <= m; cnt++)
            {
                get_last(off, cnt, true);
                get_last(off, cnt, false);
            }
        int sz = (int)size();
        for (int i = -sz; i <= 3 * sz; i++)
            fixup_index(i);
        for (int a = 0; a < sz; a++)
            for (int b = 0; b < sz; b++)
                distance(a, b);
        for (int i = 0; i < sz; i++)
            index_of((unsigned)i);
    }
};

template <class T> struct Gen;
template <> struct Gen<int>
{
    uint32_t base = 0, seq = 0;
    void init(Src &s) { base = (uint32_t)s.biased_int<int32_t>(); }
    int next(Src &) { return (int)(base + seq++); }
};
template <> struct Gen<char>
{
    bool ramp = false;
    uint8_t seq = 0;
    void init(Src &s)
    {
        ramp = s.coin();
        seq = gen_byte(s);
    }
    char next(Src &s) { return ramp ? (char)seq++ : (char)gen_byte(s); }
};

template <class T> void run_cxx(Src &s, Case &c, bool resize_cfg)
{
    const bool is_char = sizeof(T) == 1;
    unsigned size = gen_size(s, is_char);
    Gen<T> g;
    g.init(s);
    bool phased = s.below(3) != 0, filling = true;
    c.log("ring<%s> %s size=%u: ", is_char ? "char" : "int", resize_cfg ? "default+resize(size-1)" : "ring(size-1)",
          size);
    c.label(is_char ? "T=char" : "T=int");
    if (resize_cfg)
        c.label("resize_cfg");
    XR<T> X(c, resize_cfg, size - 1);
    X.check("construction");
    for (unsigned i = 0, ops = max_ops(size); i < ops; i++)
    {
        unsigned o = (unsigned)s.below(64);
        if (o == 0 && s.u8() == 0)
            break;
        unsigned sz = X.size();
        if (o < 30) // push / emplace / head_place+move_head_one (full: pop instead); pop / move_tail_one (empty: push)
        {
            bool want_push = o < 16;
            if (phased) // fill until full, then drain until empty, 3 steps forward 1 back
                want_push = ((o & 3) != 3) ? filling : !filling;
            if (want_push && !X.room())
                want_push = false;
            else if (!want_push && X.q.empty())
                want_push = true;
            unsigned v = o / 4; // 0..7
            if (want_push)
                X.push(g.next(s), v < 5 ? 0 : v < 7 ? 1 : 2);
            else
                X.pop(v < 6 ? 0 : 1);
            if (X.q.size() == X.cap)
                filling = false;
            else if (X.q.empty())
                filling = true;
        }
        else if (o < 34)
        {
            if (!X.q.empty())
                X.last();
        }
        else if (o < 37)
        {
            if (!X.q.empty())
                X.tail();
        }
        else if (o < 45)
        {
            unsigned off = (unsigned)s.below(X.q.size() + 1);
            unsigned cnt = (unsigned)s.below(X.q.size() - off + 1);
            X.get_last(off, cnt, s.coin());
        }
        else if (o < 48)
            X.fixup_index((int)s.range(-(int)sz, 3 * (int)sz));
        else if (o < 50)
        {
            int a = (int)s.below(sz);
            int b = (int)s.below(sz);
            X.distance(a, b);
        }
        else if (o < 52)
            X.index_of((unsigned)s.below(sz));
        else if (o < 53)
            X.reset();
        else if (o < 54)
            X.clear();
        else if (o < 55)
        {
            if (resize_cfg)
                X.resize((unsigned)gen_size(s) - 1);
            else
                X.clear();
        }
        else if (o < 60)
        {
            if constexpr (sizeof(T) == 1)
                X.write(gen_data(s, (size_t)s.range(0, sz + 1)));
            else if (X.room())
                X.push(g.next(s), 0);
        }
        else
        {
            if constexpr (sizeof(T) == 1)
                X.read((unsigned)s.range(0, sz + 1));
            else if (!X.q.empty())
                X.pop(0);
        }
    }
    X.f.classify(c, X.size());
}
void t_cxx_ring(Src &s, Case &c)
{
    bool is_char = s.coin();
    bool resize_cfg = s.coin();
    if (is_char)
        run_cxx<char>(s, c, resize_cfg);
    else
        run_cxx<int>(s, c, resize_cfg);
}
VP_TARGET("cxx_ring", t_cxx_ring,
          "igris::ring<int> / ring<char>, built by ring(n) or default ctor + resize(n), ring size 2..40, history <= 200 "
          "of push/emplace/head_place+move_head_one (only with room), pop/move_tail_one (only non-empty), last, tail, "
          "get_last(offset,count,order) with offset+count <= avail, fixup_index, distance, index_of, reset, clear, "
          "write/read (char) against a std::deque; non-trivial = head wrapped and the ring was full and was drained "
          "to empty at least once each");

// ======================================================= ring_counter/cyclic
struct CY
{
    Case &c;
    unsigned n;
    igris::cyclic_buffer<int> B;
    std::deque<int> m; // the last <= n samples, newest at the back
    uint64_t pushed = 0;
    ring_counter rc; // a free-standing counter for set/increment
    int pos = 0;     // its reference position

    CY(Case &c_, unsigned n_) : c(c_), n(n_), B(n_) { ring_counter_init(&rc, (int)n); }

    void check(const char *op)
    {
        VP_CHECK(B.counter.size == (int)n, "cy_counter_size", "after %s: counter.size=%d, want %u", op, B.counter.size,
                 n);
        VP_CHECK(B.counter.counter >= 0 && B.counter.counter < (int)n, "cy_counter_out_of_range",
                 "after %s: counter=%d size=%u", op, B.counter.counter, n);
        VP_CHECK(B.size() == m.size(), "cy_size", "after %s: size()=%zu, reference holds %zu", op, B.size(), m.size());
    }
    void push(int v)
    {
        c.log("push(%d) ", v);
        int ret = B.push(v);
        if (m.size() == n)
        {
            VP_CHECK(ret == m.front(), "cy_push_overwritten", "push(%d) returned %d, the overwritten sample is %d", v,
                     ret, m.front());
            m.pop_front();
        }
        m.push_back(v);
        pushed++;
        check("push");
    }
    void at(unsigned i, bool log = true) // i < min(pushed, size)
    {
        if (log)
            c.log("[%u] ", i);
        int want = m[m.size() - 1 - i];
        int got = B[(int)i];
        VP_CHECK(got == want, "cy_index_value", "buf[%u]=%d, the %u-th previous sample is %d (counter=%d size=%u)", i,
                 got, i, want, B.counter.counter, n);
        const igris::cyclic_buffer<int> &cb = B;
        int got2 = cb[(int)i];
        VP_CHECK(got2 == want, "cy_index_value_const", "const buf[%u]=%d, want %d", i, got2, want);
        int slot = ring_counter_prev(&B.counter, (int)i);
        VP_CHECK(slot >= 0 && slot < (int)n, "cy_prev_out_of_range", "ring_counter_prev(%u)=%d size=%u", i, slot, n);
        VP_CHECK(B.data[(size_t)slot] == want, "cy_prev_slot", "slot ring_counter_prev(%u)=%d holds %d, want %d", i,
                 slot, B.data[(size_t)slot], want);
    }
    void prev(int i, bool log = true) // i in [0, 3n]
    {
        if (log)
            c.log("prev(%d) ", i);
        int got = ring_counter_prev(&B.counter, i), want = mod(B.counter.counter - i, (int)n);
        VP_CHECK(got == want, "cy_prev", "ring_counter_prev(counter=%d,size=%u; %d)=%d, want %d", B.counter.counter, n,
                 i, got, want);
    }
    void last(int no, bool log = true) // no in [-2n, 3n]
    {
        if (log)
            c.log("last(%d) ", no);
        int got = ring_counter_last(&B.counter, no), want = mod(B.counter.counter - no, (int)n);
        VP_CHECK(got == want, "cy_last", "ring_counter_last(counter=%d,size=%u; %d)=%d, want %d", B.counter.counter, n,
                 no, got, want);
    }
    void fixup_pos(int p, bool log = true) // p in [-3n, 3n]
    {
        if (log)
            c.log("fixup_pos(%d) ", p);
        int got = ring_counter_fixup_pos(&B.counter, p), want = mod(p, (int)n);
        VP_CHECK(got == want, "cy_fixup_pos", "ring_counter_fixup_pos(size=%u; %d)=%d, want %d", n, p, got, want);
    }
    void rc_check(const char *op)
    {
        int got = ring_counter_get(&rc);
        VP_CHECK(got == pos && rc.size == (int)n, "cy_counter_value", "after %s: counter=%d size=%d, want %d size %u",
                 op, got, rc.size, pos, n);
    }
    void increment(int a) // a >= 0
    {
        c.log("increment(%d) ", a);
        ring_counter_increment(&rc, a);
        pos = (pos + a) % (int)n;
        rc_check("increment");
    }
    void set(int v) // v >= 0
    {
        c.log("set(%d) ", v);
        ring_counter_set(&rc, v);
        pos = v % (int)n;
        rc_check("set");
    }
    void burst(unsigned k, int first) // k pushes of first, first+1, ...; logged once
    {
        c.log("push x%u from %d ", k, first);
        for (unsigned i = 0; i < k; i++)
        {
            int v = (int)((uint32_t)first + i);
            int ret = B.push(v);
            if (m.size() == n)
            {
                VP_CHECK(ret == m.front(), "cy_push_overwritten", "push #%u of a burst (%d) returned %d, the overwritten sample is %d", i, v, ret, m.front());
                m.pop_front();
            }
            m.push_back(v);
            pushed++;
            if ((i & 1023) == 0 || i + 1 == k)
                check("burst push");
        }
    }
    void sweep()
    {
        c.log("sweep ");
        for (unsigned i = 0; i < m.size(); i++)
            at(i, false);
        for (int i = 0; i <= 3 * (int)n; i++)
            prev(i, false);
        for (int i = -2 * (int)n; i <= 3 * (int)n; i++)
            last(i, false);
        for (int i = -3 * (int)n; i <= 3 * (int)n; i++)
            fixup_pos(i, false);
    }
};

void t_cyclic(Src &s, Case &c)
{
    unsigned n = gen_size(s);
    uint32_t base = (uint32_t)s.biased_int<int32_t>(), seq = 0;
    c.log("cyclic_buffer<int>(%u): ", n);
    CY Y(c, n);
    Y.check("construction");
    for (unsigned i = 0, ops = max_ops(n); i < ops; i++)
    {
        unsigned o = (unsigned)s.below(32);
        if (o == 0 && s.u8() == 0)
            break;
        if (o < 14)
            Y.push((int)(base + seq++));
        else if (o < 20)
        {
            if (!Y.m.empty())
                Y.at((unsigned)s.below(Y.m.size()));
        }
        else if (o < 22)
            Y.sweep();
        else if (o < 24)
            Y.prev((int)s.range(0, 3 * (int)n));
        else if (o < 26)
            Y.last((int)s.range(-2 * (int)n, 3 * (int)n));
        else if (o < 28)
            Y.fixup_pos((int)s.range(-3 * (int)n, 3 * (int)n));
        else if (o < 30)
            Y.increment((int)s.range(0, 2 * (int)n));
        else
            Y.set((int)s.range(0, 3 * (int)n));
    }
    Y.sweep();
    c.nontrivial = Y.pushed > n;
    if (Y.pushed > n)
        c.label("wrapped");
    if (Y.pushed >= n)
        c.label("filled");
    c.label(is_pow2(n) ? "pow2" : "non_pow2");
}
VP_TARGET("cyclic", t_cyclic,
          "cyclic_buffer<int>(n), n 2..40: history <= 200 of push (returned sample = the one overwritten) and "
          "operator[](i), i < min(pushed,n), against the last-n model; ring_counter_prev/last/fixup_pos/increment/set "
          "against modular arithmetic; non-trivial = more samples pushed than the buffer holds (counter wrapped)");

void t_cxx_ring_direct(Src &s, Case &c)
{
    unsigned size = gen_size(s);
    c.log("ring<int> size=%u, bursts written into the storage + set_last_index: ", size);
    XR<int> X(c, false, size - 1);
    X.check("construction");
    int next = (int)s.range(-5, 1000);
    bool hit_last = false;
    for (unsigned i = 0; i < 80; i++)
    {
        unsigned o = (unsigned)s.below(8);
        if (o == 0 && s.u8() == 0)
            break;
        unsigned room = (unsigned)X.room();
        if (o < 2)
        {
            if (room)
                X.push(next++, 0);
        }
        else if (o < 4)
        {
            if (!X.q.empty())
                X.pop(0);
        }
        else if (room)
        {
            // o 4,5: any burst that fits; o 6,7: the burst that ends exactly in the last storage slot, when it fits
            unsigned k = 1 + (unsigned)s.below(room);
            unsigned to_last = (size - 1 - (unsigned)X.R->head_index()) + 1;
            if (o >= 6 && to_last <= room)
            {
                k = to_last;
                hit_last = true;
            }
            std::vector<int> vals;
            for (unsigned j = 0; j < k; j++)
                vals.push_back(next++);
            X.direct(vals);
        }
    }
    c.nontrivial = hit_last;
    if (hit_last)
        c.label("burst_ends_in_last_slot");
}
VP_TARGET("cxx_ring_direct", t_cxx_ring_direct,
          "igris::ring<int>, size 2..40: push/pop mixed with bursts of 1..room values written straight into the storage and announced through "
          "set_last_index (half of them ending exactly in the last slot); same reference and checks; non-trivial = a burst ended in the last slot");

// Copy assignment of whole rings followed by reset(): a ring that received the content of another ring must from then
// on behave as a ring of that other ring's size.
void t_cxx_ring_assign(Src &s, Case &c)
{
    unsigned sa = gen_size(s), sb = gen_size(s);
    c.log("ring<int> A(size %u) = B(size %u): ", sa, sb);
    XR<int> A(c, false, sa - 1), B(c, false, sb - 1);
    int next = 1;
    for (unsigned i = 0, k = (unsigned)s.below(sa + 2); i < k && A.room(); i++)
        A.push(next++, 0);
    for (unsigned i = 0, k = (unsigned)s.below(sb + 2); i < k && B.room(); i++)
        B.push(next++, 0);
    for (unsigned i = 0, k = (unsigned)s.below(4); i < k && !B.q.empty(); i++)
        B.pop(0);
    c.log("| assign ");
    *A.R = *B.R;
    A.cap = B.cap;
    A.q = B.q;
    A.check("copy assignment");
    c.nontrivial = sa != sb;
    c.label(sa > sb ? "assigned_from_smaller" : sa < sb ? "assigned_from_larger" : "same_size");
    if (s.coin())
    {
        c.log("reset ");
        A.R->reset();
        A.q.clear();
        A.check("reset after assignment");
    }
    // the assigned ring is filled to the brim and drained
    while (A.room())
        A.push(next++, 0);
    A.check("filled");
    while (!A.q.empty())
        A.pop(0);
    A.check("drained");
}
VP_TARGET("cxx_ring_assign", t_cxx_ring_assign,
          "igris::ring<int>: ring A (size 2..40, partly filled) is copy-assigned ring B (another size, partly filled and drained), optionally reset(), then filled to the brim and "
          "drained: size, indices, fill/free counts and content against the reference of B; non-trivial = the sizes differ");

void t_cxx_ring_large(Src &s, Case &c)
{
    LargeMode lm;
    t_cxx_ring(s, c);
}
VP_TARGET("cxx_ring_large", t_cxx_ring_large,
          "igris::ring<int> / ring<char> with sizes 250..262, 508..516, 41..300 (ring<char> also 65530..65542), histories of "
          "3*size+40 operations; same reference and checks as cxx_ring");
void t_cyclic_large(Src &s, Case &c)
{
    LargeMode lm;
    t_cyclic(s, c);
}
VP_TARGET("cyclic_large", t_cyclic_large,
          "cyclic_buffer<int>(n) and the ring_counter helpers with n 250..262, 508..516, 41..300 and 3n+40 operations; same model "
          "as cyclic");

// A ring of strings that own heap memory (messages, file names): contents against a deque. The ring is never destroyed
// (its buffer's destructor would end the lifetime of popped slots a second time, which is not what is examined here).
void t_cxx_ring_strings(Src &s, Case &c)
{
    unsigned cap = (unsigned)s.range(1, 8);
    auto *R = new igris::ring<std::string>((int)cap);
    std::deque<std::string> q;
    unsigned seq = 0;
    bool wrapped = false, refilled = false, drained = false;
    auto mk = [&](unsigned k) { return std::string(20 + k % 40, (char)('a' + k % 26)) + std::to_string(k); };
    c.log("ring<std::string>(%u): ", cap);
    for (unsigned i = 0, n = (unsigned)s.range(0, 60); i < n; i++)
    {
        unsigned o = (unsigned)s.below(8);
        bool want_push = o < 4;
        if (want_push && q.size() == cap)
            want_push = false;
        if (!want_push && q.empty() && o < 6)
            want_push = true;
        if (want_push)
        {
            std::string v = mk(seq++);
            unsigned h0 = R->r.head;
            if (o & 1)
            {
                c.log("push ");
                R->push(v);
            }
            else
            {
                c.log("emplace ");
                R->emplace(v);
            }
            if (R->r.head < h0)
                wrapped = true;
            if (drained)
                refilled = true;
            q.push_back(v);
        }
        else if (o < 6)
        {
            c.log("pop ");
            VP_CHECK(R->tail() == q.front(), "xs_tail", "tail() is \"%s\", the oldest string is \"%s\"", R->tail().c_str(), q.front().c_str());
            R->pop();
            q.pop_front();
            if (q.empty())
                drained = true;
        }
        else if (!q.empty())
        {
            unsigned off = (unsigned)s.below(q.size() + 1), cnt = (unsigned)s.below(q.size() - off + 1);
            bool from_end = o == 7;
            c.log("get_last(%u,%u,%d) ", off, cnt, (int)from_end);
            std::vector<std::string> got = R->get_last((int)off, (int)cnt, from_end);
            std::vector<std::string> want;
            for (unsigned k = 0; k < cnt; k++)
                want.push_back(from_end ? q[q.size() - 1 - off - k] : q[q.size() - off - cnt + k]);
            VP_CHECK(got == want, "xs_get_last", "get_last(%u,%u,%d) returned other strings than the reference", off, cnt, (int)from_end);
        }
        VP_CHECK(R->avail() == q.size() && R->room() == cap - q.size(), "xs_counts", "avail=%u room=%u, the reference holds %zu of %u", R->avail(), R->room(), q.size(), cap);
        if (!q.empty())
            VP_CHECK(R->last() == q.back() && R->tail() == q.front(), "xs_ends", "last()/tail() differ from the reference's newest/oldest string");
    }
    // everything still stored, oldest first
    for (size_t k = 0; !q.empty(); k++)
    {
        VP_CHECK(R->tail() == q.front(), "xs_drain", "draining: string #%zu differs from the reference", k);
        R->pop();
        q.pop_front();
    }
    c.nontrivial = wrapped && refilled;
    if (wrapped)
        c.label("wrapped");
    // deliberately leaked (see above)
}
VP_TARGET("cxx_ring_strings", t_cxx_ring_strings,
          "igris::ring<std::string> of capacity 1..8 with strings of 20..60 characters (heap owning): history <= 60 of push / emplace / pop / get_last, then a drain; tail(), "
          "last(), get_last, avail/room against a deque; slots are re-used after pop (the sanitizer sees a write through a destroyed string); non-trivial = the head wrapped "
          "and the ring was refilled after a complete drain");

// A ring handed over by move construction (returned from a factory, stored in a container); the source is destroyed and the
// new owner keeps working.
void t_cxx_ring_moved(Src &s, Case &c)
{
    unsigned cap = (unsigned)s.range(1, 40);
    auto *A = new igris::ring<int>((int)cap);
    std::deque<int> q;
    int seq = (int)s.biased_int<int16_t>();
    unsigned pre = (unsigned)s.below(cap + 1), drop = (unsigned)s.below(pre + 1);
    for (unsigned i = 0; i < pre; i++)
    {
        A->push(seq);
        q.push_back(seq++);
    }
    for (unsigned i = 0; i < drop; i++)
    {
        A->pop();
        q.pop_front();
    }
    c.log("ring<int>(%u) with %u pushed, %u popped; B(std::move(A)); delete A; then on B: ", cap, pre, drop);
    auto *B = new igris::ring<int>(std::move(*A));
    bool early = s.coin();
    if (early)
        delete A; // the moved-from ring goes away first ...
    auto check = [&](const char *when) {
        VP_CHECK(B->avail() == q.size() && B->room() == cap - q.size() && B->size() == cap + 1, "xm_counts", "%s: avail=%u room=%u size=%u, reference holds %zu of %u", when,
                 B->avail(), B->room(), B->size(), q.size(), cap);
        if (!q.empty())
            VP_CHECK(B->last() == q.back() && B->tail() == q.front(), "xm_ends", "%s: last()=%d tail()=%d, reference %d / %d", when, B->last(), B->tail(), q.back(), q.front());
    };
    check("after the move");
    for (unsigned i = 0, n = (unsigned)s.range(0, 60); i < n; i++)
    {
        if ((s.coin() && q.size() < cap) || q.empty())
        {
            c.log("push ");
            B->push(seq);
            q.push_back(seq++);
        }
        else
        {
            c.log("pop ");
            VP_CHECK(B->tail() == q.front(), "xm_tail", "tail()=%d, reference %d", B->tail(), q.front());
            B->pop();
            q.pop_front();
        }
        check("history");
    }
    if (!early)
        delete A; // ... or last
    check("after the source is gone");
    c.nontrivial = pre > drop;
    c.label(early ? "source_destroyed_first" : "source_destroyed_last");
    delete B;
}
VP_TARGET("cxx_ring_moved", t_cxx_ring_moved,
          "igris::ring<int> (capacity 1..40, partly filled and drained) move-constructed into a second ring; the source is destroyed before or after a history <= 60 of push / pop "
          "on the new owner: counts, size, last(), tail() against the reference; non-trivial = elements were stored at the time of the move");

void t_cyclic_huge(Src &s, Case &c)
{
    unsigned n = s.coin() ? s.pick<uint32_t>({32766, 32767, 32768, 32769, 44100, 48000, 65535, 65536, 65537, 96000})
                          : (unsigned)s.range(30000, 70000);
    uint32_t base = (uint32_t)s.biased_int<int32_t>();
    c.log("cyclic_buffer<int>(%u): ", n);
    CY Y(c, n);
    Y.check("construction");
    unsigned rounds = 2 + (unsigned)s.below(4);
    for (unsigned r = 0; r < rounds; r++)
    {
        unsigned k;
        switch (s.below(5))
        {
        case 0:
            k = 1 + (unsigned)s.below(40);
            break;
        case 1:
            k = n / 2 + (unsigned)s.below(3);
            break;
        case 2:
            k = n - 1 + (unsigned)s.below(3);
            break;
        default:
            k = (unsigned)s.range(0, (int)n);
        }
        Y.burst(k, (int)(base + (uint32_t)Y.pushed));
        for (unsigned q = 0, nq = 1 + (unsigned)s.below(6); q < nq && !Y.m.empty(); q++)
        {
            unsigned sz = (unsigned)Y.m.size();
            Y.at(s.coin() ? (unsigned)s.below(sz) : s.coin() ? sz - 1 - (unsigned)s.below(sz < 4 ? sz : 4) : (unsigned)s.below(sz < 4 ? sz : 4));
        }
        Y.prev((int)s.range(0, 3 * (int)n));
        Y.last((int)s.range(-2 * (int)n, 3 * (int)n));
        Y.fixup_pos((int)s.range(-3 * (int)n, 3 * (int)n));
        Y.increment((int)s.range(0, 2 * (int)n));
        Y.set((int)s.range(0, 3 * (int)n));
    }
    // every index once
    for (unsigned i = 0; i < Y.m.size(); i++)
        Y.at(i, false);
    c.nontrivial = Y.pushed > n;
    if (Y.pushed > n)
        c.label("wrapped");
    c.label(n >= 65536 ? "n>=65536" : n >= 32768 ? "n>=32768" : "n<32768");
}
VP_TARGET("cyclic_huge", t_cyclic_huge,
          "cyclic_buffer<int>(n) and the ring_counter helpers with n 30000..70000 and 44100 / 48000 / 96000 / the neighbours of 2^15 and 2^16 (audio-rate delay lines): 2..5 "
          "rounds of a push burst (up to n+1 samples, each return value against the model) followed by index reads, prev/last/fixup_pos/increment/set, then every index "
          "once; non-trivial = the buffer wrapped");

// ============================================================== enumeration
// A  c ring:      size n x (head,tail) x fill pattern(3) x op(4n+12)
// B  ring<int>:   cfg(2) x size sz x (head,tail) x op(8)
// C  ring<char>:  cfg(2) x pattern(2) x size sz x (head,tail) x {write k, read k : k 0..sz}
// D  cyclic:      size n x pushed 0..3n x {push, sweep}
unsigned enum_max(int tr)
{
    return tr ? 24 : 17;
}
uint64_t space_a(unsigned n)
{
    return (uint64_t)n * n * 3 * (4 * n + 12);
}
uint64_t space_b(unsigned sz)
{
    return 2ull * sz * sz * 8;
}
uint64_t space_c(unsigned sz)
{
    return 2ull * 2 * sz * sz * (2 * (sz + 1));
}
uint64_t space_d(unsigned n)
{
    return (3ull * n + 1) * 2;
}
unsigned __int128 ring_enum_size(int tr)
{
    uint64_t t = 0;
    for (unsigned n = 2; n <= enum_max(tr); n++)
        t += space_a(n) + space_b(n) + space_c(n) + space_d(n);
    return t;
}

uint8_t pat_byte(unsigned pat, unsigned j)
{
    switch (pat)
    {
    case 0:
        return (uint8_t)(0xFD + j); // fd fe ff 00 01 ...
    case 1:
        return 0xFF;
    default:
        return (uint8_t)(0x7E + j); // 7e 7f 80 81 ...
    }
}

void enum_a(Case &c, unsigned n, uint64_t k)
{
    unsigned pat = (unsigned)(k % 3);
    k /= 3;
    unsigned nop = 4 * n + 12;
    unsigned o = (unsigned)(k % nop);
    k /= nop;
    unsigned t = (unsigned)(k % n), h = (unsigned)(k / n);
    unsigned avail = (h + n - t) % n;
    c.log("enum c_ring size=%u head=%u tail=%u (%u stored, pattern %u): ", n, h, t, avail, pat);
    CR R(c, n);
    bool wd = c.want_desc;
    c.want_desc = false;
    // reach (head, tail) through the API: advance both by `tail`, then store `avail` bytes
    R.move_head(std::vector<uint8_t>(t, 0x11));
    R.move_tail(t);
    for (unsigned j = 0; j < avail; j++)
        R.putc(pat_byte(pat, j));
    c.want_desc = wd;
    VP_CHECK(R.r.head == h && R.r.tail == t, "enum_setup_c", "reached (head,tail)=(%u,%u), wanted (%u,%u)", R.r.head,
             R.r.tail, h, t);
    static const uint8_t special[5] = {0x00, 0xFF, 0x80, 0x7F, 0x01};
    bool applicable = true;
    if (o < 5)
        R.putc(special[o]);
    else if (o == 5)
        R.getc();
    else if (o == 6)
    {
        if ((applicable = R.room() > 0))
            R.move_head_one(0xFF);
    }
    else if (o == 7)
    {
        if ((applicable = !R.q.empty()))
            R.move_tail_one();
    }
    else if (o == 8)
        R.clean();
    else if (o == 9)
    {
        c.log("for_each ");
        R.check("for_each");
    }
    else if (o < 11 + n)
    {
        unsigned len = o - 10; // 0..n
        std::vector<uint8_t> d(len);
        for (unsigned j = 0; j < len; j++)
            d[j] = (uint8_t)(0xFE + j);
        R.write(d);
    }
    else if (o < 12 + 2 * n)
        R.read(o - (11 + n)); // 0..n
    else if (o < 12 + 3 * n)
    {
        unsigned b = o - (12 + 2 * n); // 0..n-1
        if ((applicable = b <= R.room()))
        {
            std::vector<uint8_t> d(b);
            for (unsigned j = 0; j < b; j++)
                d[j] = (uint8_t)(0xFE + j);
            R.move_head(d);
        }
    }
    else
    {
        unsigned b = o - (12 + 3 * n); // 0..n-1
        if ((applicable = b <= R.q.size()))
            R.move_tail(b);
    }
    c.nontrivial = applicable;
    c.label("enum_c_ring");
    if (!applicable)
        c.label("op_precondition_not_met");
}

// bring an XR to (head, tail) through push/pop; false when the known resize defect
// makes the state unreachable without leaving the allocation
template <class T> bool reach(XR<T> &X, unsigned h, unsigned t, unsigned pat)
{
    Case &c = X.c;
    unsigned sz = X.size();
    bool wd = c.want_desc;
    c.want_desc = false;
    bool ok = true;
    for (unsigned j = 0; j < t && ok; j++)
    {
        unsigned h0 = X.R->r.head;
        X.push((T)0x11, 0);
        ok = X.R->r.head != h0;
        if (ok)
            X.pop(0);
    }
    unsigned avail = (h + sz - t) % sz;
    for (unsigned j = 0; j < avail && ok; j++)
    {
        unsigned h0 = X.R->r.head;
        X.push(sizeof(T) == 1 ? (T)pat_byte(pat, j) : (T)(1000 + j), 0);
        ok = X.R->r.head != h0;
    }
    c.want_desc = wd;
    if (ok)
        VP_CHECK(X.R->r.head == h && X.R->r.tail == t, "enum_setup_x", "reached (head,tail)=(%u,%u), wanted (%u,%u)",
                 X.R->r.head, X.R->r.tail, h, t);
    return ok;
}

void enum_b(Case &c, unsigned sz, uint64_t k)
{
    bool resize_cfg = k % 2;
    k /= 2;
    unsigned o = (unsigned)(k % 8);
    k /= 8;
    unsigned t = (unsigned)(k % sz), h = (unsigned)(k / sz);
    c.log("enum ring<int> %s size=%u head=%u tail=%u: ", resize_cfg ? "default+resize(size-1)" : "ring(size-1)", sz, h,
          t);
    c.label("enum_ring_int");
    if (resize_cfg)
        c.label("resize_cfg");
    XR<int> X(c, resize_cfg, sz - 1);
    if (!reach(X, h, t, 0))
    {
        c.label("state_excluded_by_known_finding");
        return;
    }
    bool applicable = true;
    switch (o)
    {
    case 0:
    case 1:
        if ((applicable = X.room() > 0))
            X.push(-7, (int)o);
        break;
    case 2:
        if ((applicable = !X.q.empty()))
            X.pop(0);
        break;
    case 3:
    {
        bool wd = c.want_desc;
        c.log("accessor sweep ");
        c.want_desc = false;
        X.sweep();
        c.want_desc = wd;
        break;
    }
    case 4:
        X.reset();
        break;
    case 5:
        X.clear();
        break;
    case 6:
        if ((applicable = X.room() > 0))
            X.push(-7, 2);
        break;
    default:
        if ((applicable = !X.q.empty()))
            X.pop(1);
    }
    c.nontrivial = applicable;
    if (!applicable)
        c.label("op_precondition_not_met");
}

void enum_c(Case &c, unsigned sz, uint64_t k)
{
    bool resize_cfg = k % 2;
    k /= 2;
    unsigned pat = (unsigned)(k % 2);
    k /= 2;
    unsigned nop = 2 * (sz + 1);
    unsigned o = (unsigned)(k % nop);
    k /= nop;
    unsigned t = (unsigned)(k % sz), h = (unsigned)(k / sz);
    c.log("enum ring<char> %s size=%u head=%u tail=%u pattern %u: ",
          resize_cfg ? "default+resize(size-1)" : "ring(size-1)", sz, h, t, pat);
    c.label("enum_ring_char");
    if (resize_cfg)
        c.label("resize_cfg");
    XR<char> X(c, resize_cfg, sz - 1);
    if (!reach(X, h, t, pat))
    {
        c.label("state_excluded_by_known_finding");
        return;
    }
    if (o <= sz)
    {
        std::vector<uint8_t> d(o);
        for (unsigned j = 0; j < o; j++)
            d[j] = (uint8_t)(0xFE + j);
        X.write(d);
    }
    else
        X.read(o - (sz + 1));
    if (!X.q.empty())
    {
        X.tail();
        X.last();
    }
    c.nontrivial = true;
}

void enum_d(Case &c, unsigned n, uint64_t k)
{
    unsigned o = (unsigned)(k % 2);
    unsigned p = (unsigned)(k / 2); // 0..3n
    c.log("enum cyclic_buffer<int>(%u) after %u pushes: ", n, p);
    c.label("enum_cyclic");
    CY Y(c, n);
    bool wd = c.want_desc;
    c.want_desc = false;
    for (unsigned j = 0; j < p; j++)
        Y.push((int)(100 + j));
    c.want_desc = wd;
    if (o == 0)
        Y.push(-5);
    Y.sweep();
    c.nontrivial = true;
}

void t_ring_enum(Src &s, Case &c)
{
    uint64_t total = (uint64_t)ring_enum_size(tier());
    uint64_t k = s.below(total);
    for (unsigned n = 2; n <= enum_max(tier()); n++)
    {
        if (k < space_a(n))
            return enum_a(c, n, k);
        k -= space_a(n);
        if (k < space_b(n))
            return enum_b(c, n, k);
        k -= space_b(n);
        if (k < space_c(n))
            return enum_c(c, n, k);
        k -= space_c(n);
        if (k < space_d(n))
            return enum_d(c, n, k);
        k -= space_d(n);
    }
}
} // namespace

VP_TARGET("ring_enum", t_ring_enum,
          "exhaustive for ring sizes 2..17 (thorough: 2..24): every (head, tail) pair, reached through the API, x "
          "every single operation with every argument (c ring: 3 fill patterns incl. all-FF; ring<int>: both "
          "configurations, mutators + a sweep of every relative accessor over its whole argument range; ring<char>: "
          "write/read of every length; cyclic_buffer: every fill count 0..3n x push/sweep); non-trivial = the "
          "operation's precondition holds in that state",
          ring_enum_size);
