// C08 smoke (to be replaced): memrchr / strlcpy through the igc_ prefixed shim
#include "vpbt.h"
#include <string.h>
extern "C" {
void *igc_memrchr(const void *s, int c, size_t n);
size_t igc_strlcpy(char *dst, const char *src, size_t size);
char *igc_strndup(const char *s, size_t n);
}
using namespace vpbt;
static void t_memrchr(Src &s, Case &c)
{
    size_t n = s.range(0, 16);
    Exact b(n);
    for (size_t i = 0; i < n; i++) b.p[i] = (uint8_t)s.range(0, 3);
    int ch = (int)s.range(0, 3);
    c.log("memrchr n=%zu c=%d buf=%s", n, ch, hexdump(b.p, n).c_str());
    c.nontrivial = n > 1;
    void *r = igc_memrchr(b.p, ch, n), *h = memrchr(b.p, ch, n);
    VP_CHECK(r == h, "memrchr_result", "got %p want %p", r, h);
}
VP_TARGET("memrchr", t_memrchr, "n>1");
