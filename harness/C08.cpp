// C08 — libc shim mem*/str* functions obey their ISO C / POSIX definitions.
//
// Every function of /repo/compat/libc/string/*.c is called through its igc_
// prefixed object and compared with the host (glibc) function of the same name
// (strlcpy/strlwr/strupr/strdup/strndup: definitional references). Return values
// are normalised (sign / offset-or-NULL), destination blocks are compared byte
// for byte including 32-byte canary zones, read-only operands live in
// exactly-sized heap blocks whose end (or start, for backward scanners)
// coincides with the last (first) byte the definition allows to be read.
//
// Structure: chk_<fn>(explicit arguments) = igris call + oracle;
//            f_<fn>(Src, Case)            = generator + labels + non-trivial rule;
//            str_enum                     = exhaustive small space through the same chk_*;
//            all                          = multiplexer over the f_* (libFuzzer entry).
#include "vpbt.h"
#include <algorithm>
#include <climits>
#include <cstdlib>
#include <functional>
#include <memory>
#include <string.h>
#include <string>
#include <strings.h>
#include <vector>

extern "C"
{
    void *igc_memcpy(void *, const void *, size_t);
    void *igc_memmove(void *, const void *, size_t);
    void *igc_memset(void *, int, size_t);
    int igc_memcmp(const void *, const void *, size_t);
    void *igc_memchr(const void *, int, size_t);
    void *igc_memrchr(const void *, int, size_t);
    size_t igc_strlen(const char *);
    size_t igc_strnlen(const char *, size_t);
    char *igc_strcpy(char *, const char *);
    char *igc_strncpy(char *, const char *, size_t);
    size_t igc_strlcpy(char *, const char *, size_t);
    char *igc_strcat(char *, const char *);
    char *igc_strncat(char *, const char *, size_t);
    int igc_strcmp(const char *, const char *);
    int igc_strncmp(const char *, const char *, size_t);
    int igc_strcasecmp(const char *, const char *);
    int igc_strncasecmp(const char *, const char *, size_t);
    char *igc_strchr(const char *, int);
    char *igc_strrchr(const char *, int);
    char *igc_strchrnul(const char *, int);
    char *igc_strstr(const char *, const char *);
    char *igc_strcasestr(const char *, const char *);
    size_t igc_strspn(const char *, const char *);
    size_t igc_strcspn(const char *, const char *);
    char *igc_strpbrk(const char *, const char *);
    char *igc_strtok(char *, const char *);
    char *igc_strtok_r(char *, const char *, char **);
    char *igc_strdup(const char *);
    char *igc_strndup(const char *, size_t);
    char *igc_strlwr(char *);
    char *igc_strupr(char *);
    // C08_hdr.c: the same functions called through the names the bundled <string.h> / <strings.h> provide, every
    // argument an expression with a side effect; ev[k] counts the evaluations of argument k
    void *igc_vp_hdr_memcpy(void *, const void *, size_t, unsigned *);
    void *igc_vp_hdr_memmove(void *, const void *, size_t, unsigned *);
    void *igc_vp_hdr_memset(void *, int, size_t, unsigned *);
    int igc_vp_hdr_memcmp(const void *, const void *, size_t, unsigned *);
    void *igc_vp_hdr_memchr(const void *, int, size_t, unsigned *);
    void *igc_vp_hdr_memrchr(const void *, int, size_t, unsigned *);
    size_t igc_vp_hdr_strlen(const char *, unsigned *);
    size_t igc_vp_hdr_strnlen(const char *, size_t, unsigned *);
    char *igc_vp_hdr_strcpy(char *, const char *, unsigned *);
    char *igc_vp_hdr_strncpy(char *, const char *, size_t, unsigned *);
    size_t igc_vp_hdr_strlcpy(char *, const char *, size_t, unsigned *);
    char *igc_vp_hdr_strcat(char *, const char *, unsigned *);
    char *igc_vp_hdr_strncat(char *, const char *, size_t, unsigned *);
    int igc_vp_hdr_strcmp(const char *, const char *, unsigned *);
    int igc_vp_hdr_strncmp(const char *, const char *, size_t, unsigned *);
    int igc_vp_hdr_strcasecmp(const char *, const char *, unsigned *);
    int igc_vp_hdr_strncasecmp(const char *, const char *, size_t, unsigned *);
    char *igc_vp_hdr_strchr(const char *, int, unsigned *);
    char *igc_vp_hdr_strrchr(const char *, int, unsigned *);
    char *igc_vp_hdr_strchrnul(const char *, int, unsigned *);
    char *igc_vp_hdr_strstr(const char *, const char *, unsigned *);
    char *igc_vp_hdr_strcasestr(const char *, const char *, unsigned *);
    size_t igc_vp_hdr_strspn(const char *, const char *, unsigned *);
    size_t igc_vp_hdr_strcspn(const char *, const char *, unsigned *);
    char *igc_vp_hdr_strpbrk(const char *, const char *, unsigned *);
    char *igc_vp_hdr_strlwr(char *, unsigned *);
    char *igc_vp_hdr_strupr(char *, unsigned *);
}

using namespace vpbt;

namespace
{

typedef std::vector<uint8_t> Bytes;

// ------------------------------------------------------------------ helpers
const size_t CAN = 32; // canary bytes on each side of a destination region
const long NOPTR = LONG_MIN;

int sgn(int v) { return (v > 0) - (v < 0); }
long poff(const void *r, const void *base)
{
    return r ? (long)((const char *)r - (const char *)base) : NOPTR;
}
std::string offs(long o) { return o == NOPTR ? std::string("NULL") : fmt("+%ld", o); }
std::string hx(const Bytes &b, size_t max = 40)
{
    return hexdump(b.empty() ? (const void *)"" : (const void *)b.data(), b.size(), max);
}
[[noreturn]] void fail(const char *fn, const char *what, const std::string &msg)
{
    throw Fail{std::string(fn) + "_" + what, msg};
}

// Read-only operand in an exactly-sized heap block: `off` pad bytes, then the
// data flush against the END of the block (at_start: data flush against the
// START, pad behind it). A zero-sized allocation would have one addressable
// byte under ASan, so an empty operand gets 16 pad bytes (same alignment).
struct Tight
{
    Exact blk;
    char *p;
    size_t n;
    static size_t eff(size_t n, size_t off) { return n + off == 0 ? 16 : off; }
    Tight(const Bytes &d, size_t off, bool at_start = false)
        : blk(d.size() + eff(d.size(), off)),
          p(at_start ? blk.c() : blk.c() + eff(d.size(), off)), n(d.size())
    {
        memset(blk.p, 0xEE, blk.n);
        if (n)
            memcpy(p, d.data(), n);
    }
    bool same(const Bytes &d) const { return n == 0 || memcmp(p, d.data(), n) == 0; }
};

// Host-side copy of an operand: the data followed by 48 zero bytes, never
// empty, so that no host reference call can touch indeterminate memory.
struct Roomy
{
    char small[192];
    std::vector<char> big;
    char *q;
    explicit Roomy(const Bytes &d)
    {
        if (d.size() + 48 <= sizeof small)
        {
            memset(small, 0, d.size() + 48);
            q = small;
        }
        else
        {
            big.assign(d.size() + 48, 0);
            q = big.data();
        }
        if (!d.empty())
            memcpy(q, d.data(), d.size());
    }
    Roomy(const Roomy &) = delete;
    Roomy &operator=(const Roomy &) = delete;
    char *p() { return q; }
};

// Destination: [CAN + off canary][region][CAN canary], filled with a
// position-dependent non-zero pattern. The twin (same layout) receives the
// host / reference result; the two blocks must end up identical.
struct Dst
{
    Exact blk;
    size_t off, region;
    uint8_t *d;
    Dst(size_t region_, size_t off_)
        : blk(CAN + off_ + region_ + CAN), off(off_), region(region_), d(blk.p + CAN + off_)
    {
        for (size_t i = 0; i < blk.n; i++)
            blk.p[i] = (uint8_t)(0x80 | ((i * 29) & 0x7f));
    }
    char *c() { return (char *)d; }
};

template <class A> void check_dst(const char *fn, const Dst &g, const Dst &w, const A &args)
{
    if (!memcmp(g.blk.p, w.blk.p, g.blk.n))
        return;
    size_t i = 0;
    while (g.blk.p[i] == w.blk.p[i])
        i++;
    long rel = (long)i - (long)(CAN + g.off);
    const char *zone = rel < 0 ? "left_canary" : (size_t)rel >= g.region ? "right_canary" : "dest";
    fail(fn, zone,
         fmt("first wrong byte at dest%+ld: got %02x want %02x; region=%zu got=%s want=%s; %s", rel,
             g.blk.p[i], w.blk.p[i], g.region, hexdump(g.d, g.region, 48).c_str(),
             hexdump(w.d, w.region, 48).c_str(), args().c_str()));
}
template <class A> void check_src(const char *fn, const Tight &t, const Bytes &orig, const A &args)
{
    if (!t.same(orig))
        fail(fn, "source_modified", "a read-only operand was written; " + args());
}

// ---------------------------------------------------------------- generators
enum Style
{
    BIN = 0,  // {'a','b'}: repeated partial matches
    TINY,     // {'a','b','A',0xFF}
    SPECIAL,  // 0x00 0x7F 0x80 0xFF, both letter cases and their neighbours
    LETTERS,  // letters of both cases, a few others
    FULL      // any byte
};
uint8_t mapb(uint8_t b, int style, bool nz)
{
    static const uint8_t tiny[4] = {'a', 'b', 'A', 0xFF};
    static const uint8_t special[16] = {'a', 0x00, 0x7F, 0x80, 0xFF, 'A', 'z', 'Z',
                                        '@', '[',  '`',  '{',  0x01, 'b', 'B', 0xFE};
    static const uint8_t letters[16] = {'a', 'A', 'b', 'B', 'z', 'Z', 'm', 'M',
                                        '@', '[', '`', '{', '1', ' ', 0xE1, 0xC1};
    uint8_t r;
    switch (style)
    {
    case BIN:
        r = (b & 1) ? 'b' : 'a';
        break;
    case TINY:
        r = tiny[b & 3];
        break;
    case SPECIAL:
        r = special[b & 15];
        break;
    case LETTERS:
        r = letters[b & 15];
        break;
    default:
        r = b;
    }
    return (nz && r == 0) ? 'a' : r;
}
// n content bytes: drawn one by one when short, otherwise a periodic block
// with a few point mutations (keeps long operands cheap in choice bytes)
void fill(Src &s, uint8_t *o, size_t n, int style, bool nz)
{
    if (n <= 24 || (n <= 96 && !s.coin()))
    {
        for (size_t i = 0; i < n; i++)
            o[i] = mapb(s.u8(), style, nz);
        return;
    }
    uint8_t blk[32];
    size_t m = 1 + (size_t)s.below(32);
    for (size_t i = 0; i < m; i++)
        blk[i] = mapb(s.u8(), style, nz);
    for (size_t i = 0; i < n; i++)
        o[i] = blk[i % m];
    size_t k = (size_t)s.below(4);
    for (size_t i = 0; i < k; i++)
        o[s.below(n)] = mapb(s.u8(), style, nz);
}
Bytes gen(Src &s, size_t n, int style, bool nz)
{
    Bytes b(n);
    fill(s, b.data(), n, style, nz);
    return b;
}
// length schedule: 0..8, 0..32, 0..96, (thorough) 0..1024; big: favour the long ones
// (the all_long target: lengths around 256 and 512 and up to 1100 in every tier)
static bool g_long = false;
size_t pick_len(Src &s, bool big = false)
{
    size_t w = big ? s.weighted({2, 2, 5, 1}) : s.weighted({4, 3, 2, 1});
    if (g_long)
    {
        static const int lo_[4] = {250, 0, 508, 0}, hi_[4] = {262, 300, 520, 1100};
        return (size_t)s.range(lo_[w], hi_[w]);
    }
    if (w == 3 && !tier())
        w = 2;
    static const int hi[4] = {8, 32, 96, 1024};
    return (size_t)s.range(0, hi[w]);
}
size_t pick_short(Src &s) { return (size_t)s.range(0, s.weighted({3, 2}) ? 24 : 6); }
// start offset inside a 16-aligned block: 0, 8 (word aligned) or anything 0..15
size_t pick_off(Src &s)
{
    switch (s.weighted({3, 2, 3}))
    {
    case 0:
        return 0;
    case 1:
        return 8;
    default:
        return (size_t)s.below(16);
    }
}
// n relative to a length L: equal / one above / one below / 0 / inside / beyond
size_t pick_n(Src &s, size_t L)
{
    switch (s.below(7))
    {
    case 0:
        return L;
    case 1:
        return L + 1;
    case 2:
        return L ? L - 1 : 0;
    case 3:
        return 0;
    case 4:
        return (size_t)s.below(L + 1);
    case 5:
        return L + 2 + (size_t)s.below(8);
    default:
        return L ? 1 + (size_t)s.below(L) : 1;
    }
}
// character argument: a character of the string / any / the terminator, passed
// as unsigned-char value, as (negative) plain-char value, or with high bits set
// (the definitions convert the int argument to char / unsigned char)
int pick_ch(Src &s, const Bytes &str, int style, bool *highbits)
{
    uint8_t b;
    switch (s.weighted({5, 2, 1}))
    {
    case 0:
        b = str.empty() ? mapb(s.u8(), style, true) : str[s.below(str.size())];
        break;
    case 1:
        b = mapb(s.u8(), style, false);
        break;
    default:
        b = 0;
    }
    *highbits = false;
    switch (s.weighted({5, 3, 2}))
    {
    case 0:
        return b;
    case 1:
        return (int)(signed char)b;
    default:
    {
        static const int add[5] = {256, -256, 512, 0x10000, INT_MIN};
        *highbits = true;
        return (int)b + add[s.below(5)];
    }
    }
}
uint8_t mutate(Src &s, uint8_t old, int style, bool nz)
{
    uint8_t r;
    switch (s.below(4))
    {
    case 0:
        r = (uint8_t)(old ^ 0x80);
        break;
    case 1:
        r = (uint8_t)(old ^ 0x20);
        break;
    case 2:
        r = (uint8_t)(old + 1);
        break;
    default:
        r = mapb(s.u8(), style, nz);
    }
    if (nz && r == 0)
        r = 0x01;
    return r;
}
// second operand of a comparison: equal / one byte changed / prefix / longer / unrelated
Bytes derive(Src &s, const Bytes &a, int style, bool nz)
{
    Bytes b = a;
    switch (s.weighted({2, 5, 2, 2, 2}))
    {
    case 0:
        break;
    case 1:
        if (!b.empty())
        {
            size_t p = (size_t)s.below(b.size());
            b[p] = mutate(s, b[p], style, nz);
        }
        break;
    case 2:
        b.resize((size_t)s.below(a.size() + 1));
        break;
    case 3:
    {
        size_t k = 1 + (size_t)s.below(4);
        for (size_t i = 0; i < k; i++)
            b.push_back(mapb(s.u8(), style, nz));
        break;
    }
    default:
        b = gen(s, pick_short(s), style, nz);
    }
    return b;
}
bool is_alpha(uint8_t c) { return (c >= 'a' && c <= 'z') || (c >= 'A' && c <= 'Z'); }
uint8_t lo(uint8_t c) { return (c >= 'A' && c <= 'Z') ? (uint8_t)(c + 32) : c; }
void flip_cases(Src &s, Bytes &b)
{
    if (!s.coin())
        return;
    for (auto &c : b)
        if (is_alpha(c) && s.coin())
            c ^= 0x20;
}
// Array operand of an n-function built from a string `str` (no NUL inside):
// either the terminated string, or — when the string has at least n characters
// — exactly its first n bytes without terminator (the definition may not read
// further). Optionally bytes after the terminator that n still covers.
struct NArr
{
    Bytes data;
    bool unterminated = false, junk = false;
};
NArr narr(Src &s, const Bytes &str, size_t n, unsigned unterm_num = 2)
{
    NArr r;
    if (str.size() >= n && s.chance(unterm_num, 3))
    {
        r.unterminated = true;
        r.data.assign(str.begin(), str.begin() + (long)n);
        return r;
    }
    r.data = str;
    r.data.push_back(0);
    if (n > str.size() + 1 && s.chance(1, 4))
    {
        r.junk = true;
        size_t k = 1 + (size_t)s.below(3);
        for (size_t i = 0; i < k; i++)
            r.data.push_back(mapb(s.u8(), SPECIAL, false));
    }
    return r;
}
size_t slen(const Bytes &arr) // length of the string held in a terminated array
{
    size_t i = 0;
    while (i < arr.size() && arr[i])
        i++;
    return i;
}
Bytes cstr(const Bytes &str) // append the terminator
{
    Bytes r = str;
    r.push_back(0);
    return r;
}

// =============================================================== chk_* (oracles)
// ---- memcpy: returns true when the word-copy path was taken
bool chk_memcpy(const Bytes &src, size_t so, size_t doff, size_t slack)
{
    size_t n = src.size();
    Tight S(src, so);
    Roomy R(src);
    Dst G(n + slack, doff), W(n + slack, doff);
    auto args = [&]() -> std::string { return fmt("memcpy n=%zu src_off=%zu dst_off=%zu src=%s", n, so, doff, hx(src).c_str()); };
    bool word = n >= 4 * sizeof(long) && (uintptr_t)S.p % sizeof(long) == 0 &&
                (uintptr_t)G.d % sizeof(long) == 0;
    void *r = igc_memcpy(G.d, S.p, n);
    memcpy(W.d, R.p(), n);
    if (r != G.d)
        fail("memcpy", "ret", fmt("returned dest%s; ", offs(poff(r, G.d)).c_str()) + args());
    check_dst("memcpy", G, W, args);
    check_src("memcpy", S, src, args);
    return word;
}

// ---- memmove inside one block; d = dst - src. can = 0: the accessed span is
// flush against both ends of the heap block. Returns true on the word path.
bool chk_memmove(const Bytes &content, long d, size_t base, size_t can)
{
    size_t n = content.size();
    size_t srcpos = base + (d < 0 ? (size_t)-d : 0);
    size_t dstpos = (size_t)((long)srcpos + d);
    size_t total = std::max(srcpos, dstpos) + n;
    if (can + total == 0)
        can = CAN;
    Exact G(can + total + can), W(can + total + can);
    for (size_t i = 0; i < G.n; i++)
        G.p[i] = W.p[i] = (uint8_t)(0x80 | ((i * 29) & 0x7f));
    if (n)
    {
        memcpy(G.p + can + srcpos, content.data(), n);
        memcpy(W.p + can + srcpos, content.data(), n);
    }
    uint8_t *gs = G.p + can + srcpos, *gd = G.p + can + dstpos;
    bool word = !(d > 0 && (size_t)d < n) && n >= 4 * sizeof(long) &&
                (uintptr_t)gs % sizeof(long) == 0 && (uintptr_t)gd % sizeof(long) == 0;
    void *r = igc_memmove(gd, gs, n);
    memmove(W.p + can + dstpos, W.p + can + srcpos, n);
    auto args = [&]() -> std::string { return fmt("memmove n=%zu dst-src=%ld base=%zu canary=%zu content=%s", n, d, base, can,
                           hx(content).c_str()); };
    if (r != gd)
        fail("memmove", "ret", fmt("returned dest%s; ", offs(poff(r, gd)).c_str()) + args());
    if (memcmp(G.p, W.p, G.n))
    {
        size_t i = 0;
        while (G.p[i] == W.p[i])
            i++;
        long rel = (long)i - (long)(can + dstpos);
        fail("memmove", rel >= 0 && (size_t)rel < n ? "dest" : "outside",
             fmt("first wrong byte at dest%+ld: got %02x want %02x; ", rel, G.p[i], W.p[i]) + args());
    }
    return word;
}

void chk_memset(size_t n, int ch, size_t doff, size_t slack)
{
    Dst G(n + slack, doff), W(n + slack, doff);
    auto args = [&]() -> std::string { return fmt("memset n=%zu c=%d dst_off=%zu", n, ch, doff); };
    void *r = igc_memset(G.d, ch, n);
    memset(W.d, ch, n);
    if (r != G.d)
        fail("memset", "ret", fmt("returned dest%s; ", offs(poff(r, G.d)).c_str()) + args());
    check_dst("memset", G, W, args);
}

void chk_memcmp(const Bytes &a, const Bytes &b, size_t n, size_t ao, size_t bo)
{
    // a and b both hold at least n bytes; the blocks expose exactly n
    Bytes a_(a.begin(), a.begin() + (long)n), b_(b.begin(), b.begin() + (long)n);
    Tight A(a_, ao), B(b_, bo);
    Roomy RA(a_), RB(b_);
    int g = sgn(igc_memcmp(A.p, B.p, n)), w = sgn(memcmp(RA.p(), RB.p(), n));
    if (g != w)
        fail("memcmp", "sign",
             fmt("sign got %d want %d; memcmp n=%zu a=%s b=%s", g, w, n, hx(a_).c_str(), hx(b_).c_str()));
}

// memchr: `avail` readable bytes, n may exceed avail only if a match lies inside
void chk_memchr(const Bytes &buf, int ch, size_t n, size_t off)
{
    Tight S(buf, off);
    Roomy R(buf);
    long g = poff(igc_memchr(S.p, ch, n), S.p), w = poff(memchr(R.p(), ch, n), R.p());
    if (g != w)
        fail("memchr", "ret",
             fmt("got %s want %s; memchr c=%d n=%zu avail=%zu buf=%s", offs(g).c_str(), offs(w).c_str(), ch,
                 n, buf.size(), hx(buf).c_str()));
}

void chk_memrchr(const Bytes &buf, int ch, size_t off, bool at_start)
{
    size_t n = buf.size();
    Tight S(buf, off, at_start);
    Roomy R(buf);
    long g = poff(igc_memrchr(S.p, ch, n), S.p), w = poff(memrchr(R.p(), ch, n), R.p());
    if (g != w)
        fail("memrchr", "ret",
             fmt("got %s want %s; memrchr c=%d n=%zu buf=%s", offs(g).c_str(), offs(w).c_str(), ch, n,
                 hx(buf).c_str()));
}

void chk_strlen(const Bytes &str, size_t off)
{
    Bytes z = cstr(str);
    Tight S(z, off);
    Roomy R(z);
    size_t g = igc_strlen(S.p), w = strlen(R.p());
    if (g != w)
        fail("strlen", "value", fmt("got %zu want %zu; s=%s", g, w, hx(str).c_str()));
}

// arr: terminated, or unterminated with arr.size() >= maxlen
void chk_strnlen(const Bytes &arr, size_t maxlen, size_t off)
{
    Tight S(arr, off);
    Roomy R(arr);
    size_t g = igc_strnlen(S.p, maxlen), w = strnlen(R.p(), maxlen);
    if (g != w)
        fail("strnlen", "value", fmt("got %zu want %zu; maxlen=%zu arr=%s", g, w, maxlen, hx(arr).c_str()));
}

void chk_strcpy(const Bytes &str, size_t so, size_t doff, size_t slack)
{
    Bytes z = cstr(str);
    Tight S(z, so);
    Roomy R(z);
    Dst G(z.size() + slack, doff), W(z.size() + slack, doff);
    auto args = [&]() -> std::string { return fmt("strcpy src=%s", hx(str).c_str()); };
    char *r = igc_strcpy(G.c(), S.p);
    strcpy(W.c(), R.p());
    if (r != G.c())
        fail("strcpy", "ret", fmt("returned dest%s; ", offs(poff(r, G.d)).c_str()) + args());
    check_dst("strcpy", G, W, args);
    check_src("strcpy", S, z, args);
}

void chk_strncpy(const Bytes &arr, size_t n, size_t so, size_t doff, size_t slack)
{
    Tight S(arr, so);
    Roomy R(arr);
    Dst G(n + slack, doff), W(n + slack, doff);
    auto args = [&]() -> std::string { return fmt("strncpy n=%zu src=%s", n, hx(arr).c_str()); };
    char *r = igc_strncpy(G.c(), S.p, n);
    strncpy(W.c(), R.p(), n);
    if (r != G.c())
        fail("strncpy", "ret", fmt("returned dest%s; ", offs(poff(r, G.d)).c_str()) + args());
    check_dst("strncpy", G, W, args);
    check_src("strncpy", S, arr, args);
}

// BSD definition: copy min(strlen(src), size-1) bytes and terminate (size>0);
// return strlen(src). Returns true when the known return-value class was hit.
bool chk_strlcpy(const Bytes &str, size_t size, size_t so, size_t doff, size_t slack)
{
    Bytes z = cstr(str);
    size_t L = str.size();
    Tight S(z, so);
    Dst G(size + slack, doff), W(size + slack, doff);
    auto args = [&]() -> std::string { return fmt("strlcpy size=%zu src=%s", size, hx(str).c_str()); };
    size_t r = igc_strlcpy(G.c(), S.p, size);
    if (size)
    {
        size_t k = std::min(L, size - 1);
        if (k)
            memcpy(W.d, str.data(), k);
        W.d[k] = 0;
    }
    check_dst("strlcpy", G, W, args);
    check_src("strlcpy", S, z, args);
    bool truncated = size > 0 && L >= size;
    if (truncated && known_active("C08-strlcpy-return"))
        return true;
    if (r != L)
        fail("strlcpy", truncated ? "ret_truncated" : "ret",
             fmt("returned %zu, strlen(src)=%zu; ", r, L) + args());
    return false;
}

// A read-only operand prepared once: tight igris-side block + roomy host-side
// copy (the enumeration reuses one Op for many calls).
struct Op
{
    const Bytes &d; // must outlive the Op
    Tight t;
    Roomy r;
    Op(const Bytes &d_, size_t off, bool at_start = false) : d(d_), t(d_, off, at_start), r(d_) {}
    void unchanged(const char *fn) const
    {
        if (!t.same(d))
            fail(fn, "source_modified", "a read-only operand was written: " + hx(d));
    }
};
// what a terminated array shows as a string
std::string sx(const Bytes &z) { return hexdump(z.data(), slen(z), 40); }

// ---- strcat / strncat: S holds the source (strcat: terminated string; strncat:
// terminated, or unterminated with >= n bytes)
void strcat_core(const Bytes &dstr, Op &S, size_t doff, size_t slack)
{
    size_t region = dstr.size() + slen(S.d) + 1 + slack;
    Dst G(region, doff), W(region, doff);
    if (!dstr.empty())
    {
        memcpy(G.d, dstr.data(), dstr.size());
        memcpy(W.d, dstr.data(), dstr.size());
    }
    G.d[dstr.size()] = W.d[dstr.size()] = 0;
    auto args = [&]() -> std::string { return fmt("strcat dest=%s src=%s", hx(dstr).c_str(), sx(S.d).c_str()); };
    char *r = igc_strcat(G.c(), S.t.p);
    strcat(W.c(), S.r.p());
    if (r != G.c())
        fail("strcat", "ret", fmt("returned dest%s; ", offs(poff(r, G.d)).c_str()) + args());
    check_dst("strcat", G, W, args);
    S.unchanged("strcat");
}
void chk_strcat(const Bytes &dstr, const Bytes &str, size_t so, size_t doff, size_t slack)
{
    Bytes z = cstr(str);
    Op S(z, so);
    strcat_core(dstr, S, doff, slack);
}
void strncat_core(const Bytes &dstr, Op &S, size_t n, size_t doff, size_t slack)
{
    size_t copied = std::min(slen(S.d), n);
    size_t region = dstr.size() + copied + 1 + slack;
    Dst G(region, doff), W(region, doff);
    if (!dstr.empty())
    {
        memcpy(G.d, dstr.data(), dstr.size());
        memcpy(W.d, dstr.data(), dstr.size());
    }
    G.d[dstr.size()] = W.d[dstr.size()] = 0;
    auto args = [&]() -> std::string {
        return fmt("strncat n=%zu dest=%s src=%s", n, hx(dstr).c_str(), hx(S.d).c_str());
    };
    char *r = igc_strncat(G.c(), S.t.p, n);
    strncat(W.c(), S.r.p(), n);
    if (r != G.c())
        fail("strncat", "ret", fmt("returned dest%s; ", offs(poff(r, G.d)).c_str()) + args());
    check_dst("strncat", G, W, args);
    S.unchanged("strncat");
}
void chk_strncat(const Bytes &dstr, const Bytes &arr, size_t n, size_t so, size_t doff, size_t slack)
{
    Op S(arr, so);
    strncat_core(dstr, S, n, doff, slack);
}

// ---- comparisons; cs = case-insensitive. Operands hold terminated strings.
void cmp_core(bool cs, Op &A, Op &B)
{
    int g = sgn(cs ? igc_strcasecmp(A.t.p, B.t.p) : igc_strcmp(A.t.p, B.t.p));
    int w = sgn(cs ? strcasecmp(A.r.p(), B.r.p()) : strcmp(A.r.p(), B.r.p()));
    if (g != w)
        fail(cs ? "strcasecmp" : "strcmp", "sign",
             fmt("sign got %d want %d; a=%s b=%s", g, w, sx(A.d).c_str(), sx(B.d).c_str()));
}
void chk_cmp(bool cs, const Bytes &a, const Bytes &b, size_t ao, size_t bo)
{
    Bytes az = cstr(a), bz = cstr(b);
    Op A(az, ao), B(bz, bo);
    cmp_core(cs, A, B);
}
// arrays: terminated, or unterminated holding >= n bytes
void ncmp_core(bool cs, Op &A, Op &B, size_t n)
{
    int g = sgn(cs ? igc_strncasecmp(A.t.p, B.t.p, n) : igc_strncmp(A.t.p, B.t.p, n));
    int w = sgn(cs ? strncasecmp(A.r.p(), B.r.p(), n) : strncmp(A.r.p(), B.r.p(), n));
    if (g != w)
        fail(cs ? "strncasecmp" : "strncmp", "sign",
             fmt("sign got %d want %d; n=%zu a=%s b=%s", g, w, n, hx(A.d).c_str(), hx(B.d).c_str()));
}
void chk_ncmp(bool cs, const Bytes &a, const Bytes &b, size_t n, size_t ao, size_t bo)
{
    Op A(a, ao), B(b, bo);
    ncmp_core(cs, A, B, n);
}

// ---- character searches: which = 0 strchr, 1 strrchr, 2 strchrnul. S holds a
// terminated string. Returns the host offset.
long chr_core(int which, Op &S, int ch)
{
    static const char *const names[3] = {"strchr", "strrchr", "strchrnul"};
    long g, w;
    switch (which)
    {
    case 0:
        g = poff(igc_strchr(S.t.p, ch), S.t.p);
        w = poff(strchr(S.r.p(), ch), S.r.p());
        break;
    case 1:
        g = poff(igc_strrchr(S.t.p, ch), S.t.p);
        w = poff(strrchr(S.r.p(), ch), S.r.p());
        break;
    default:
        g = poff(igc_strchrnul(S.t.p, ch), S.t.p);
        w = poff(strchrnul(S.r.p(), ch), S.r.p());
    }
    if (g != w)
        fail(names[which], (char)ch == 0 ? "ret_terminator" : "ret",
             fmt("got %s want %s; c=%d (char %02x) s=%s", offs(g).c_str(), offs(w).c_str(), ch,
                 (unsigned)(uint8_t)ch, sx(S.d).c_str()));
    return w;
}
long chk_chr(int which, const Bytes &str, int ch, size_t off, bool at_start)
{
    Bytes z = cstr(str);
    Op S(z, off, at_start);
    return chr_core(which, S, ch);
}

// ---- substring searches on terminated strings. Returns the host offset.
long str_core(bool cs, Op &H, Op &N)
{
    long g = poff(cs ? igc_strcasestr(H.t.p, N.t.p) : igc_strstr(H.t.p, N.t.p), H.t.p);
    long w = poff(cs ? strcasestr(H.r.p(), N.r.p()) : strstr(H.r.p(), N.r.p()), H.r.p());
    if (g != w)
        fail(cs ? "strcasestr" : "strstr", "ret",
             fmt("got %s want %s; haystack=%s needle=%s", offs(g).c_str(), offs(w).c_str(), sx(H.d).c_str(),
                 sx(N.d).c_str()));
    return w;
}
long chk_str(bool cs, const Bytes &hay, const Bytes &needle, size_t ho, size_t no)
{
    Bytes hz = cstr(hay), nz = cstr(needle);
    Op H(hz, ho), N(nz, no);
    return str_core(cs, H, N);
}

// ---- span functions: which = 0 strspn, 1 strcspn, 2 strpbrk. Returns the host result.
long span_core(int which, Op &S, Op &T)
{
    static const char *const names[3] = {"strspn", "strcspn", "strpbrk"};
    long g, w;
    switch (which)
    {
    case 0:
        g = (long)igc_strspn(S.t.p, T.t.p);
        w = (long)strspn(S.r.p(), T.r.p());
        break;
    case 1:
        g = (long)igc_strcspn(S.t.p, T.t.p);
        w = (long)strcspn(S.r.p(), T.r.p());
        break;
    default:
        g = poff(igc_strpbrk(S.t.p, T.t.p), S.t.p);
        w = poff(strpbrk(S.r.p(), T.r.p()), S.r.p());
    }
    if (g != w)
        fail(names[which], "ret",
             fmt("got %s want %s; s=%s set=%s", which == 2 ? offs(g).c_str() : fmt("%ld", g).c_str(),
                 which == 2 ? offs(w).c_str() : fmt("%ld", w).c_str(), sx(S.d).c_str(), sx(T.d).c_str()));
    return w;
}
long chk_span(int which, const Bytes &str, const Bytes &set, size_t so, size_t to)
{
    Bytes sz = cstr(str), tz = cstr(set);
    Op S(sz, so), T(tz, to);
    long w = span_core(which, S, T);
    S.unchanged("strspn_family");
    T.unchanged("strspn_family");
    return w;
}

// ---- strtok / strtok_r: one call sequence to exhaustion over one string.
// next_set() yields the index of the delimiter set for each call. After the
// first NULL the call is repeated once with the same set (must stay NULL) when
// a token has been returned before (so that a save pointer into this string
// exists under every reading of the definition). The delimiter set is not
// changed after a NULL: the standards leave open where the search then resumes.
struct TokStat
{
    int tokens = 0, calls = 0, set_changes = 0;
};
struct TokSets // delimiter strings: igris-side and host-side pointers, printable form
{
    std::vector<const char *> g, w;
};
TokStat tok_core(bool reent, const Bytes &str, size_t off, const TokSets &sets,
                 const std::function<size_t()> &next_set)
{
    const char *fn = reent ? "strtok_r" : "strtok";
    Bytes z = cstr(str);
    Tight G(z, off);
    Roomy W(z);
    // the first call must ignore *saveptr: start from a poisoned value
    char *gsave = (char *)(uintptr_t)0x10, *wsave = (char *)(uintptr_t)0x10;
    TokStat st;
    size_t hist_set[8];
    long hist_ret[8];
    size_t nh = 0;
    auto trace = [&]() {
        std::string t = nh > 8 ? " ..." : "";
        for (size_t i = nh > 8 ? nh - 8 : 0; i < nh; i++)
            t += fmt(" #%zu delim=%s->%s", i,
                     hexdump(sets.w[hist_set[i % 8]], strlen(sets.w[hist_set[i % 8]]), 20).c_str(),
                     offs(hist_ret[i % 8]).c_str());
        return t;
    };
    size_t prev = (size_t)-1;
    size_t maxcalls = str.size() + 3;
    bool done = false;
    for (size_t call = 0; call < maxcalls; call++)
    {
        size_t si = done ? prev : next_set() % sets.g.size();
        if (prev != (size_t)-1 && si != prev)
            st.set_changes++;
        prev = si;
        char *ga = call == 0 ? G.p : nullptr, *wa = call == 0 ? W.p() : nullptr;
        char *gr = reent ? igc_strtok_r(ga, sets.g[si], &gsave) : igc_strtok(ga, sets.g[si]);
        char *wr = reent ? strtok_r(wa, sets.w[si], &wsave) : strtok(wa, sets.w[si]);
        st.calls++;
        long g = poff(gr, G.p), w = poff(wr, W.p());
        hist_set[nh % 8] = si;
        hist_ret[nh % 8] = w;
        nh++;
        if (g != w)
            fail(fn, done ? "ret_after_null" : "ret",
                 fmt("call %zu returned %s want %s; s=%s calls:%s", call, offs(g).c_str(), offs(w).c_str(),
                     hx(str).c_str(), trace().c_str()));
        if (memcmp(G.p, W.p(), z.size()))
            fail(fn, "buffer",
                 fmt("string buffer differs after call %zu: got %s want %s; s=%s calls:%s", call,
                     hexdump(G.p, z.size(), 48).c_str(), hexdump(W.p(), z.size(), 48).c_str(),
                     hx(str).c_str(), trace().c_str()));
        if (done)
            break;
        if (wr)
            st.tokens++;
        else
        {
            if (st.tokens == 0)
                break;
            done = true;
        }
    }
    return st;
}
TokStat chk_strtok(bool reent, const Bytes &str, size_t off, const std::vector<Bytes> &sets,
                   const std::function<size_t()> &next_set)
{
    std::vector<Bytes> setz;
    for (auto &d : sets)
        setz.push_back(cstr(d));
    std::vector<std::unique_ptr<Op>> ops;
    TokSets ts;
    for (size_t i = 0; i < setz.size(); i++)
    {
        ops.emplace_back(new Op(setz[i], (i * 5) & 15));
        ts.g.push_back(ops[i]->t.p);
        ts.w.push_back(ops[i]->r.p());
    }
    TokStat st = tok_core(reent, str, off, ts, next_set);
    for (auto &o : ops)
        o->unchanged(reent ? "strtok_r" : "strtok");
    return st;
}

void chk_strdup(const Bytes &str, size_t off)
{
    Bytes z = cstr(str);
    Tight S(z, off);
    char *r = igc_strdup(S.p);
    if (!r)
        fail("strdup", "null", "returned NULL; s=" + hx(str));
    if (r == S.p)
        fail("strdup", "alias", "returned its argument");
    bool ok = memcmp(r, z.data(), z.size()) == 0; // ASan: the allocation holds strlen+1 bytes
    std::string got = ok ? std::string() : hexdump(r, z.size(), 48);
    free(r); // ASan: r came from malloc
    if (!ok)
        fail("strdup", "content", "copy differs: got " + got + " s=" + hx(str));
    check_src("strdup", S, z, [&]() { return "s=" + hx(str); });
}

// arr: terminated, or unterminated with arr.size() >= n
void chk_strndup(const Bytes &arr, size_t n, size_t off)
{
    Tight S(arr, off);
    size_t want = std::min(slen(arr), n);
    char *r = igc_strndup(S.p, n);
    auto args = [&]() -> std::string { return fmt("n=%zu s=%s", n, hx(arr).c_str()); };
    if (!r)
        fail("strndup", "null", "returned NULL; " + args());
    bool ok = (want == 0 || memcmp(r, arr.data(), want) == 0) && r[want] == 0;
    std::string got = ok ? std::string() : hexdump(r, want + 1, 48);
    free(r);
    if (!ok)
        fail("strndup", "content", "copy differs: got " + got + " " + args());
    check_src("strndup", S, arr, args);
}

// strlwr / strupr: ASCII letters of the other case are mapped, everything else
// (including bytes >= 0x80) is left alone; returns its argument. Returns the
// number of characters the reference changed.
size_t chk_case(bool upper, const Bytes &str, size_t doff, size_t slack)
{
    const char *fn = upper ? "strupr" : "strlwr";
    size_t L = str.size(), changed = 0;
    Dst G(L + 1 + slack, doff), W(L + 1 + slack, doff);
    for (size_t i = 0; i < L; i++)
    {
        uint8_t ch = str[i];
        G.d[i] = ch;
        if (upper ? (ch >= 'a' && ch <= 'z') : (ch >= 'A' && ch <= 'Z'))
        {
            ch ^= 0x20;
            changed++;
        }
        W.d[i] = ch;
    }
    G.d[L] = W.d[L] = 0;
    auto args = [&]() -> std::string { return "s=" + hx(str); };
    char *r = upper ? igc_strupr(G.c()) : igc_strlwr(G.c());
    if (r != G.c())
        fail(fn, "ret", fmt("returned arg%s; ", offs(poff(r, G.d)).c_str()) + args());
    check_dst(fn, G, W, args);
    return changed;
}

// ============================================================ f_* (generators)
void f_memcpy(Src &s, Case &c)
{
    c.label("memcpy");
    size_t n, so, doff, slack = (size_t)s.below(4);
    if (s.coin())
    {
        // general: any length, any pair of offsets
        n = pick_len(s, true);
        so = pick_off(s);
        doff = pick_off(s);
    }
    else
    {
        // aimed at the word-copy path: both pointers long-aligned, n >= 4 words
        n = 4 * sizeof(long) + (size_t)s.range(0, (tier() || g_long) && s.chance(1, g_long ? 2 : 6) ? 1000 : 72);
        so = s.coin() ? 8 : 0;
        doff = s.coin() ? 8 : 0;
    }
    Bytes src = gen(s, n, (int)s.pick({FULL, SPECIAL}), false);
    c.log("memcpy n=%zu src_off=%zu dst_off=%zu slack=%zu src=%s", n, so, doff, slack, hx(src, 200).c_str());
    bool word = chk_memcpy(src, so, doff, slack);
    c.nontrivial = word;
    if (word)
        c.label(n % sizeof(long) ? "memcpy:word_path+tail" : "memcpy:word_path");
    else if (n >= 4 * sizeof(long))
        c.label("memcpy:long_unaligned");
    if (n == 0)
        c.label("memcpy:n0");
}

void f_memmove(Src &s, Case &c)
{
    c.label("memmove");
    size_t n = pick_len(s, true), base = pick_off(s);
    long d;
    size_t kind = n ? s.weighted({4, 4, 2, 1}) : 3;
    switch (kind)
    {
    case 0:
        d = (long)s.range(1, (long)n); // dst above src; d == n: adjacent
        break;
    case 1:
        d = -(long)s.range(1, (long)n);
        break;
    case 2:
        d = (s.coin() ? 1 : -1) * (long)(n + (size_t)s.below(17));
        break;
    default:
        d = s.range(-3, 3);
    }
    // word-aligned distances exercise the forward word copy over overlapping ranges
    if (kind <= 1 && s.chance(1, 3))
    {
        long a = d < 0 ? -d : d;
        a = (a + 7) / 8 * 8;
        if ((size_t)a <= n)
            d = d < 0 ? -a : a;
    }
    size_t can = s.coin() ? CAN : 0;
    Bytes content = gen(s, n, (int)s.pick({FULL, SPECIAL}), false);
    c.log("memmove n=%zu dst-src=%ld base=%zu canary=%zu content=%s", n, d, base, can, hx(content, 200).c_str());
    bool word = chk_memmove(content, d, base, can);
    bool overlap = d != 0 && (size_t)(d < 0 ? -d : d) < n;
    c.nontrivial = overlap || word;
    if (overlap)
        c.label(d > 0 ? "memmove:overlap_dst_above" : "memmove:overlap_dst_below");
    else if (d == 0 && n)
        c.label("memmove:same");
    else
        c.label("memmove:disjoint");
    if (word)
        c.label(overlap ? "memmove:word_path_overlap" : "memmove:word_path");
}

void f_memset(Src &s, Case &c)
{
    c.label("memset");
    size_t n = pick_len(s), doff = pick_off(s), slack = (size_t)s.below(4);
    int ch;
    switch (s.weighted({4, 2, 2}))
    {
    case 0:
        ch = mapb(s.u8(), SPECIAL, false);
        break;
    case 1:
        ch = (int)s.range(-128, 255);
        break;
    default:
        ch = s.biased_int<int32_t>();
    }
    c.log("memset n=%zu c=%d dst_off=%zu slack=%zu", n, ch, doff, slack);
    chk_memset(n, ch, doff, slack);
    c.nontrivial = n >= 1;
    if (ch < 0 || ch > 255)
        c.label("memset:c_outside_uchar");
    if (n == 0)
        c.label("memset:n0");
}

void f_memcmp(Src &s, Case &c)
{
    c.label("memcmp");
    size_t n = pick_len(s), ao = pick_off(s), bo = pick_off(s);
    int style = (int)s.pick({SPECIAL, FULL, TINY});
    Bytes a = gen(s, n, style, false), b = a;
    switch (s.weighted({2, 5, 2}))
    {
    case 0:
        break;
    case 1:
        if (n)
        {
            size_t p = (size_t)s.below(n);
            b[p] = mutate(s, b[p], style, false);
        }
        break;
    default:
        b = gen(s, n, style, false);
    }
    size_t p = 0;
    while (p < n && a[p] == b[p])
        p++;
    c.log("memcmp n=%zu a_off=%zu b_off=%zu a=%s b=%s", n, ao, bo, hx(a, 200).c_str(), hx(b, 200).c_str());
    chk_memcmp(a, b, n, ao, bo);
    bool high = p < n && ((a[p] | b[p]) & 0x80);
    c.nontrivial = n > 0 && (p == n || high);
    if (p == n)
        c.label(n ? "memcmp:equal" : "memcmp:n0");
    else
        c.label(high ? "memcmp:diff_highbit" : "memcmp:diff_ascii");
}

void f_memchr(Src &s, Case &c)
{
    c.label("memchr");
    size_t n = pick_len(s), off = pick_off(s);
    int style = (int)s.pick({TINY, SPECIAL, FULL});
    Bytes buf = gen(s, n, style, false);
    bool hb;
    int ch = pick_ch(s, buf, style, &hb);
    size_t m = 0;
    while (m < n && buf[m] != (uint8_t)ch)
        m++;
    // C11 7.24.5.1p2: reads sequentially and stops at the match, so n may exceed the object then
    size_t nn = n;
    if (m < n && s.chance(1, 5))
    {
        nn = n + 1 + (size_t)s.below(16);
        c.label("memchr:n_beyond_object_after_match");
    }
    else if (s.chance(1, 4))
    {
        nn = (size_t)s.below(n + 1);
        buf.resize(nn);
        if (m >= nn)
            m = nn;
        n = nn;
    }
    c.log("memchr c=%d n=%zu avail=%zu off=%zu buf=%s", ch, nn, buf.size(), off, hx(buf, 200).c_str());
    chk_memchr(buf, ch, nn, off);
    c.nontrivial = m < n && m >= 1;
    c.label(m >= n ? "memchr:absent" : m ? "memchr:found_later" : "memchr:found_first");
    if (hb)
        c.label("memchr:c_highbits");
}

void f_memrchr(Src &s, Case &c)
{
    c.label("memrchr");
    size_t n = pick_len(s), off = pick_off(s);
    bool at_start = s.coin();
    int style = (int)s.pick({TINY, SPECIAL, FULL});
    Bytes buf = gen(s, n, style, false);
    bool hb;
    int ch = pick_ch(s, buf, style, &hb);
    c.log("memrchr c=%d n=%zu off=%zu flush=%s buf=%s", ch, n, off, at_start ? "start" : "end",
          hx(buf, 200).c_str());
    if (n == 0)
    {
        c.label("memrchr:n0");
        if (known_active("C08-memrchr-n0"))
        {
            c.known_hit("C08-memrchr-n0");
            return;
        }
    }
    chk_memrchr(buf, ch, off, at_start);
    size_t cnt = 0, last = 0;
    for (size_t i = 0; i < n; i++)
        if (buf[i] == (uint8_t)ch)
        {
            cnt++;
            last = i;
        }
    c.nontrivial = cnt >= 1 && n >= 2 && last + 1 < n;
    c.label(!cnt ? "memrchr:absent" : cnt > 1 ? "memrchr:several" : "memrchr:one");
    if (cnt && last == 0)
        c.label("memrchr:only_at_index0");
}

void f_strlen(Src &s, Case &c)
{
    c.label("strlen");
    size_t L = pick_len(s), off = pick_off(s);
    Bytes str = gen(s, L, (int)s.pick({SPECIAL, FULL, TINY}), true);
    c.log("strlen off=%zu s=%s", off, hx(str, 200).c_str());
    chk_strlen(str, off);
    c.nontrivial = L >= 1;
    if (!L)
        c.label("strlen:empty");
}

void f_strnlen(Src &s, Case &c)
{
    c.label("strnlen");
    size_t L = pick_len(s), off = pick_off(s);
    Bytes str = gen(s, L, (int)s.pick({SPECIAL, FULL, TINY}), true);
    size_t n = s.chance(1, 12) ? SIZE_MAX : pick_n(s, L);
    NArr a = narr(s, str, n);
    c.log("strnlen maxlen=%zu off=%zu %s arr=%s", n, off, a.unterminated ? "unterminated" : "terminated",
          hx(a.data, 200).c_str());
    chk_strnlen(a.data, n, off);
    c.nontrivial = n <= L && n >= 1;
    c.label(a.unterminated ? "strnlen:unterminated" : n <= L ? "strnlen:cut_terminated" : "strnlen:full");
    if (n == 0)
        c.label("strnlen:n0");
}

void f_strcpy(Src &s, Case &c)
{
    c.label("strcpy");
    size_t L = pick_len(s), so = pick_off(s), doff = pick_off(s), slack = (size_t)s.below(4);
    Bytes str = gen(s, L, (int)s.pick({SPECIAL, FULL, LETTERS}), true);
    c.log("strcpy src_off=%zu dst_off=%zu slack=%zu src=%s", so, doff, slack, hx(str, 200).c_str());
    chk_strcpy(str, so, doff, slack);
    c.nontrivial = L >= 1;
    if (!L)
        c.label("strcpy:empty");
}

void f_strncpy(Src &s, Case &c)
{
    c.label("strncpy");
    size_t L = pick_len(s), so = pick_off(s), doff = pick_off(s), slack = (size_t)s.below(4);
    Bytes str = gen(s, L, (int)s.pick({SPECIAL, FULL, LETTERS}), true);
    size_t n = pick_n(s, L);
    NArr a = narr(s, str, n);
    c.log("strncpy n=%zu src_off=%zu dst_off=%zu slack=%zu %s src=%s", n, so, doff, slack,
          a.unterminated ? "unterminated" : "terminated", hx(a.data, 200).c_str());
    chk_strncpy(a.data, n, so, doff, slack);
    c.nontrivial = n >= 1 && (n <= L || n > L + 1);
    c.label(n <= L ? (a.unterminated ? "strncpy:truncated_unterminated_src" : "strncpy:truncated")
                   : n == L + 1 ? "strncpy:exact" : "strncpy:padded");
    if (a.junk)
        c.label("strncpy:junk_after_nul");
    if (n == 0)
        c.label("strncpy:n0");
}

void f_strlcpy(Src &s, Case &c)
{
    c.label("strlcpy");
    size_t L = pick_len(s), so = pick_off(s), doff = pick_off(s), slack = (size_t)s.below(4);
    Bytes str = gen(s, L, (int)s.pick({SPECIAL, FULL, LETTERS}), true);
    size_t size = pick_n(s, L);
    c.log("strlcpy size=%zu src_off=%zu dst_off=%zu slack=%zu src=%s", size, so, doff, slack,
          hx(str, 200).c_str());
    if (chk_strlcpy(str, size, so, doff, slack))
        c.known_hit("C08-strlcpy-return");
    bool trunc = L >= size;
    c.nontrivial = trunc && L >= 1;
    c.label(size == 0 ? "strlcpy:size0" : trunc ? "strlcpy:truncated" : "strlcpy:fits");
}

void f_strcat(Src &s, Case &c)
{
    c.label("strcat");
    size_t D = pick_len(s), L = pick_len(s), so = pick_off(s), doff = pick_off(s), slack = (size_t)s.below(4);
    int style = (int)s.pick({SPECIAL, FULL, LETTERS});
    Bytes dstr = gen(s, D, style, true), str = gen(s, L, style, true);
    c.log("strcat src_off=%zu dst_off=%zu slack=%zu dest=%s src=%s", so, doff, slack, hx(dstr, 200).c_str(),
          hx(str, 200).c_str());
    chk_strcat(dstr, str, so, doff, slack);
    c.nontrivial = D >= 1 && L >= 1;
    if (!D)
        c.label("strcat:empty_dest");
    if (!L)
        c.label("strcat:empty_src");
}

void f_strncat(Src &s, Case &c)
{
    c.label("strncat");
    size_t D = pick_short(s), L = pick_len(s), so = pick_off(s), doff = pick_off(s), slack = (size_t)s.below(4);
    int style = (int)s.pick({SPECIAL, FULL, LETTERS});
    Bytes dstr = gen(s, D, style, true), str = gen(s, L, style, true);
    size_t n = s.chance(1, 12) ? SIZE_MAX : pick_n(s, L);
    NArr a = narr(s, str, n);
    c.log("strncat n=%zu src_off=%zu dst_off=%zu slack=%zu %s dest=%s src=%s", n, so, doff, slack,
          a.unterminated ? "unterminated" : "terminated", hx(dstr, 200).c_str(), hx(a.data, 200).c_str());
    chk_strncat(dstr, a.data, n, so, doff, slack);
    c.nontrivial = n >= 1 && L >= 1 && (n < L || n >= 4);
    c.label(n < L ? "strncat:truncated" : n == L ? "strncat:n_eq_len" : "strncat:whole");
    if (a.unterminated)
        c.label("strncat:unterminated_src");
    if (n >= 4)
        c.label(n % 4 ? "strncat:unrolled+tail" : "strncat:unrolled");
    if (n == 0)
        c.label("strncat:n0");
    if (!D)
        c.label("strncat:empty_dest");
}

// shared by strcmp / strncmp / strcasecmp / strncasecmp
void f_cmp_common(Src &s, Case &c, bool cs, bool withn, const char *fn, const char *const lab[6])
{
    c.label(fn);
    size_t L = pick_len(s), ao = pick_off(s), bo = pick_off(s);
    int style = cs ? (int)s.pick({LETTERS, SPECIAL, TINY}) : (int)s.pick({SPECIAL, FULL, TINY, LETTERS});
    Bytes a = gen(s, L, style, true);
    Bytes b = derive(s, a, style, true);
    if (cs)
        flip_cases(s, b);
    if (s.coin())
        std::swap(a, b);
    // first difference (under the function's equivalence) in the terminated strings
    Bytes az = cstr(a), bz = cstr(b);
    size_t p = 0;
    bool folded = false;
    for (;; p++)
    {
        uint8_t x = az[p], y = bz[p];
        if (cs ? lo(x) != lo(y) : x != y)
            break;
        if (x != y)
            folded = true;
        if (!x)
            break;
    }
    bool differ = cs ? lo(az[p]) != lo(bz[p]) : az[p] != bz[p];
    bool high = differ && ((az[p] | bz[p]) & 0x80);
    if (!withn)
    {
        c.log("%s a_off=%zu b_off=%zu a=%s b=%s", fn, ao, bo, hx(a, 200).c_str(), hx(b, 200).c_str());
        chk_cmp(cs, a, b, ao, bo);
        c.nontrivial = p >= 1 && (high || !differ || (cs && folded) || !az[p] || !bz[p]);
        c.label(!differ ? lab[0] : high ? lab[1] : (!az[p] || !bz[p]) ? lab[2] : lab[3]);
        if (cs && folded)
            c.label(lab[4]);
        return;
    }
    size_t n;
    switch (s.below(8))
    {
    case 0:
        n = p;
        break;
    case 1:
        n = p + 1;
        break;
    case 2:
        n = p ? p - 1 : 0;
        break;
    case 3:
        n = 0;
        break;
    case 4:
        n = SIZE_MAX;
        break;
    case 5:
        n = std::max(a.size(), b.size()) + 1 + (size_t)s.below(4);
        break;
    default:
        n = (size_t)s.below(std::max(a.size(), b.size()) + 2);
    }
    NArr xa = narr(s, a, n), xb = narr(s, b, n);
    c.log("%s n=%zu a_off=%zu b_off=%zu a(%s)=%s b(%s)=%s", fn, n, ao, bo,
          xa.unterminated ? "unterminated" : "terminated", hx(xa.data, 200).c_str(),
          xb.unterminated ? "unterminated" : "terminated", hx(xb.data, 200).c_str());
    chk_ncmp(cs, xa.data, xb.data, n, ao, bo);
    bool cut = n <= p; // n ends the comparison before the first difference / the terminator
    c.nontrivial = n >= 1 && (cut || (p < n && high) || (cs && folded && p >= 1));
    c.label(n == 0 ? lab[5] : cut ? lab[0] : !differ ? lab[2] : high ? lab[1] : lab[3]);
    if (cs && folded)
        c.label(lab[4]);
    if (xa.unterminated || xb.unterminated)
        c.label(cs ? "strncasecmp:unterminated" : "strncmp:unterminated");
    if (xa.junk || xb.junk)
        c.label(cs ? "strncasecmp:junk_after_nul" : "strncmp:junk_after_nul");
}
void f_strcmp(Src &s, Case &c)
{
    static const char *const lab[6] = {"strcmp:equal", "strcmp:diff_highbit", "strcmp:prefix",
                                       "strcmp:diff_ascii", "", ""};
    f_cmp_common(s, c, false, false, "strcmp", lab);
}
void f_strncmp(Src &s, Case &c)
{
    static const char *const lab[6] = {"strncmp:n_cuts", "strncmp:diff_highbit", "strncmp:equal",
                                       "strncmp:diff_other", "", "strncmp:n0"};
    f_cmp_common(s, c, false, true, "strncmp", lab);
}
void f_strcasecmp(Src &s, Case &c)
{
    static const char *const lab[6] = {"strcasecmp:equal", "strcasecmp:diff_highbit", "strcasecmp:prefix",
                                       "strcasecmp:diff_ascii", "strcasecmp:case_folded", ""};
    f_cmp_common(s, c, true, false, "strcasecmp", lab);
}
void f_strncasecmp(Src &s, Case &c)
{
    static const char *const lab[6] = {"strncasecmp:n_cuts",     "strncasecmp:diff_highbit",
                                       "strncasecmp:equal",      "strncasecmp:diff_other",
                                       "strncasecmp:case_folded", "strncasecmp:n0"};
    f_cmp_common(s, c, true, true, "strncasecmp", lab);
}

void f_chr_common(Src &s, Case &c, int which, const char *fn, const char *const lab[6])
{
    c.label(fn);
    size_t L = pick_len(s), off = pick_off(s);
    bool at_start = which == 1 && s.coin();
    int style = (int)s.pick({TINY, SPECIAL, FULL, BIN});
    Bytes str = gen(s, L, style, true);
    bool hb;
    int ch = pick_ch(s, str, style, &hb);
    c.log("%s c=%d off=%zu flush=%s s=%s", fn, ch, off, at_start ? "start" : "end", hx(str, 200).c_str());
    bool term = (char)ch == 0;
    if (which == 0 && term && ch != 0)
    {
        // c != 0 whose conversion to char is 0 (256, -256, ...): must find the terminator
        c.label("strchr:nonzero_int_converting_to_nul");
        if (known_active("C08-strchr-int-nul"))
        {
            c.known_hit("C08-strchr-int-nul");
            return;
        }
    }
    long w = chk_chr(which, str, ch, off, at_start);
    size_t cnt = 0;
    for (auto x : str)
        cnt += x == (uint8_t)ch;
    if (which == 1)
        c.nontrivial = !term && cnt >= 2;
    else
        c.nontrivial = !term && cnt >= 1 && w >= 1;
    c.label(term ? lab[0] : !cnt ? lab[1] : (which == 1 ? cnt >= 2 : w >= 1) ? lab[2] : lab[3]);
    if (hb)
        c.label(lab[4]);
    if ((uint8_t)ch >= 0x80)
        c.label(lab[5]);
}
void f_strchr(Src &s, Case &c)
{
    static const char *const lab[6] = {"strchr:terminator", "strchr:absent",     "strchr:found_later",
                                       "strchr:found_first", "strchr:c_highbits", "strchr:c_ge_0x80"};
    f_chr_common(s, c, 0, "strchr", lab);
}
void f_strrchr(Src &s, Case &c)
{
    static const char *const lab[6] = {"strrchr:terminator", "strrchr:absent",     "strrchr:several",
                                       "strrchr:one",        "strrchr:c_highbits", "strrchr:c_ge_0x80"};
    f_chr_common(s, c, 1, "strrchr", lab);
}
void f_strchrnul(Src &s, Case &c)
{
    static const char *const lab[6] = {"strchrnul:terminator",  "strchrnul:absent",
                                       "strchrnul:found_later", "strchrnul:found_first",
                                       "strchrnul:c_highbits",  "strchrnul:c_ge_0x80"};
    f_chr_common(s, c, 2, "strchrnul", lab);
}

void f_str_common(Src &s, Case &c, bool cs, const char *fn, const char *const lab[8])
{
    c.label(fn);
    size_t L = pick_len(s), ho = pick_off(s), no = pick_off(s);
    int style = cs ? (int)s.pick({LETTERS, BIN, TINY}) : (int)s.pick({BIN, TINY, SPECIAL, LETTERS});
    Bytes hay = gen(s, L, style, true), needle;
    size_t kind = s.weighted({5, 4, 3, 1, 2, 1, 1});
    switch (kind)
    {
    case 0: // substring (start / middle / end)
    case 1: // substring whose last character is changed: a partial match
    {
        size_t a = 0, len = 0;
        if (L)
        {
            a = s.chance(1, 4) ? 0 : (size_t)s.below(L);
            len = s.chance(1, 4) ? L - a : 1 + (size_t)s.below(std::min<size_t>(L - a, 8));
        }
        needle.assign(hay.begin() + (long)a, hay.begin() + (long)(a + len));
        if (kind == 1 && len)
            needle[len - 1] = mutate(s, needle[len - 1], style, true);
        break;
    }
    case 2: // tail of the haystack continued past its end: partial match at the end
    {
        size_t len = L ? 1 + (size_t)s.below(std::min<size_t>(L, 6)) : 0;
        needle.assign(hay.end() - (long)len, hay.end());
        needle.push_back(mapb(s.u8(), style, true));
        break;
    }
    case 3:
        break; // empty needle
    case 4:
        needle = gen(s, 1 + (size_t)s.below(4), style, true);
        break;
    case 5: // longer than the haystack
        needle = hay;
        needle.push_back(mapb(s.u8(), style, true));
        break;
    default:
        needle = hay;
    }
    if (cs)
        flip_cases(s, needle);
    c.log("%s hay_off=%zu needle_off=%zu haystack=%s needle=%s", fn, ho, no, hx(hay, 200).c_str(),
          hx(needle, 100).c_str());
    long w = chk_str(cs, hay, needle, ho, no);
    // did an earlier attempt match at least one character and then fail?
    bool partial = false;
    if (!needle.empty())
    {
        size_t lim = w == NOPTR ? L : (size_t)w;
        for (size_t i = 0; i < lim && !partial; i++)
            partial = cs ? lo(hay[i]) == lo(needle[0]) : hay[i] == needle[0];
    }
    c.nontrivial = !needle.empty() && (w >= 1 || (partial && needle.size() >= 2));
    c.label(needle.empty() ? lab[0] : w == NOPTR ? lab[1] : w == 0 ? lab[2] : lab[3]);
    if (partial && needle.size() >= 2)
        c.label(lab[4]);
    if (w != NOPTR && !needle.empty() && (size_t)w + needle.size() == L)
        c.label(lab[5]);
    if (needle.size() > L)
        c.label(lab[6]);
    if (cs && w != NOPTR && !needle.empty() && memcmp(hay.data() + w, needle.data(), needle.size()) != 0)
        c.label(lab[7]);
}
void f_strstr(Src &s, Case &c)
{
    static const char *const lab[8] = {"strstr:empty_needle",    "strstr:absent",      "strstr:at_start",
                                       "strstr:found_later",     "strstr:restart_after_partial",
                                       "strstr:match_at_end",    "strstr:needle_longer", ""};
    f_str_common(s, c, false, "strstr", lab);
}
void f_strcasestr(Src &s, Case &c)
{
    static const char *const lab[8] = {"strcasestr:empty_needle", "strcasestr:absent",
                                       "strcasestr:at_start",     "strcasestr:found_later",
                                       "strcasestr:restart_after_partial", "strcasestr:match_at_end",
                                       "strcasestr:needle_longer", "strcasestr:case_folded_match"};
    f_str_common(s, c, true, "strcasestr", lab);
}

Bytes gen_set(Src &s, const Bytes &str, int style)
{
    Bytes set;
    size_t m;
    switch (s.weighted({4, 1, 2, 1}))
    {
    case 0: // some characters of the string
        m = 1 + (size_t)s.below(3);
        for (size_t i = 0; i < m; i++)
            set.push_back(str.empty() ? mapb(s.u8(), style, true) : str[s.below(str.size())]);
        break;
    case 1:
        break; // empty set
    case 2: // arbitrary characters
        m = 1 + (size_t)s.below(4);
        for (size_t i = 0; i < m; i++)
            set.push_back(mapb(s.u8(), style, true));
        break;
    default: // every character of the string (if short)
        for (size_t i = 0; i < str.size() && i < 12; i++)
            set.push_back(str[i]);
    }
    return set;
}
void f_span_common(Src &s, Case &c, int which, const char *fn, const char *const lab[5])
{
    c.label(fn);
    size_t L = pick_len(s), so = pick_off(s), to = pick_off(s);
    int style = (int)s.pick({TINY, SPECIAL, LETTERS, FULL});
    Bytes str = gen(s, L, style, true);
    Bytes set = gen_set(s, str, style);
    c.log("%s s_off=%zu set_off=%zu s=%s set=%s", fn, so, to, hx(str, 200).c_str(), hx(set, 60).c_str());
    long w = chk_span(which, str, set, so, to);
    bool stop_inside = which == 2 ? (w != NOPTR && w >= 1) : (w >= 1 && (size_t)w < L);
    c.nontrivial = stop_inside;
    if (set.empty())
        c.label(lab[0]);
    else if (stop_inside)
        c.label(lab[1]);
    else if (which == 2 ? w == NOPTR : (size_t)w == L)
        c.label(lab[2]);
    else
        c.label(lab[3]);
    for (auto x : set)
        if (x >= 0x80)
        {
            c.label(lab[4]);
            break;
        }
}
void f_strspn(Src &s, Case &c)
{
    static const char *const lab[5] = {"strspn:empty_set", "strspn:stops_inside", "strspn:whole_string",
                                       "strspn:zero", "strspn:set_highbit"};
    f_span_common(s, c, 0, "strspn", lab);
}
void f_strcspn(Src &s, Case &c)
{
    static const char *const lab[5] = {"strcspn:empty_set", "strcspn:stops_inside", "strcspn:whole_string",
                                       "strcspn:zero", "strcspn:set_highbit"};
    f_span_common(s, c, 1, "strcspn", lab);
}
void f_strpbrk(Src &s, Case &c)
{
    static const char *const lab[5] = {"strpbrk:empty_set", "strpbrk:found_later", "strpbrk:absent",
                                       "strpbrk:found_first", "strpbrk:set_highbit"};
    f_span_common(s, c, 2, "strpbrk", lab);
}

void f_tok_common(Src &s, Case &c, bool reent, const char *fn, const char *const lab[5])
{
    c.label(fn);
    size_t L = pick_len(s), off = pick_off(s);
    int style = (int)s.pick({TINY, BIN, SPECIAL, LETTERS});
    Bytes str = gen(s, L, style, true);
    std::vector<Bytes> sets(3);
    for (auto &d : sets)
        d = gen_set(s, str, style);
    std::string desc;
    for (auto &d : sets)
        desc += " {" + hx(d, 20) + "}";
    size_t cur = 0;
    std::string order;
    auto next = [&]() -> size_t {
        if (s.chance(1, 4))
            cur = (size_t)s.below(3);
        order += (char)('0' + cur);
        return cur;
    };
    // the per-call choice of delimiter set is drawn while the sequence runs
    c.log("%s off=%zu s=%s sets=%s", fn, off, hx(str, 200).c_str(), desc.c_str());
    TokStat st = chk_strtok(reent, str, off, sets, next);
    c.log(" order=%s", order.c_str());
    c.nontrivial = st.tokens >= 2 || (st.tokens >= 1 && st.set_changes >= 1);
    c.label(st.tokens == 0 ? lab[0] : st.tokens == 1 ? lab[1] : lab[2]);
    if (st.set_changes)
        c.label(lab[3]);
    if (st.tokens >= 1)
        c.label(lab[4]);
}
void f_strtok(Src &s, Case &c)
{
    static const char *const lab[5] = {"strtok:no_token", "strtok:one_token", "strtok:several_tokens",
                                       "strtok:delimiters_changed", "strtok:null_is_sticky_checked"};
    f_tok_common(s, c, false, "strtok", lab);
}
void f_strtok_r(Src &s, Case &c)
{
    static const char *const lab[5] = {"strtok_r:no_token", "strtok_r:one_token", "strtok_r:several_tokens",
                                       "strtok_r:delimiters_changed", "strtok_r:null_is_sticky_checked"};
    f_tok_common(s, c, true, "strtok_r", lab);
}

void f_strdup(Src &s, Case &c)
{
    c.label("strdup");
    size_t L = pick_len(s), off = pick_off(s);
    Bytes str = gen(s, L, (int)s.pick({SPECIAL, FULL, LETTERS}), true);
    c.log("strdup off=%zu s=%s", off, hx(str, 200).c_str());
    chk_strdup(str, off);
    c.nontrivial = L >= 1;
    if (!L)
        c.label("strdup:empty");
}

void f_strndup(Src &s, Case &c)
{
    c.label("strndup");
    size_t L = pick_len(s), off = pick_off(s);
    Bytes str = gen(s, L, (int)s.pick({SPECIAL, FULL, LETTERS}), true);
    size_t n = s.chance(1, 12) ? SIZE_MAX : pick_n(s, L);
    NArr a = narr(s, str, n, 1);
    c.log("strndup n=%zu off=%zu %s s=%s", n, off, a.unterminated ? "unterminated" : "terminated",
          hx(a.data, 200).c_str());
    if (a.unterminated)
    {
        c.label("strndup:unterminated");
        if (known_active("C08-strndup-unterminated"))
        {
            c.known_hit("C08-strndup-unterminated");
            return;
        }
    }
    chk_strndup(a.data, n, off);
    c.nontrivial = n <= L && L >= 1;
    c.label(n < L ? "strndup:truncated" : n == L ? "strndup:n_eq_len" : "strndup:whole");
    if (n == 0)
        c.label("strndup:n0");
}

void f_case_common(Src &s, Case &c, bool upper, const char *fn, const char *l_changed, const char *l_high)
{
    c.label(fn);
    size_t L = pick_len(s), doff = pick_off(s), slack = (size_t)s.below(4);
    Bytes str = gen(s, L, (int)s.pick({LETTERS, SPECIAL, FULL}), true);
    c.log("%s dst_off=%zu slack=%zu s=%s", fn, doff, slack, hx(str, 200).c_str());
    size_t changed = chk_case(upper, str, doff, slack);
    c.nontrivial = changed >= 1;
    if (changed)
        c.label(l_changed);
    for (auto x : str)
        if (x >= 0x80)
        {
            c.label(l_high);
            break;
        }
}
void f_strlwr(Src &s, Case &c) { f_case_common(s, c, false, "strlwr", "strlwr:changed", "strlwr:highbit_bytes"); }
void f_strupr(Src &s, Case &c) { f_case_common(s, c, true, "strupr", "strupr:changed", "strupr:highbit_bytes"); }

// ---------------------------------------------------------------- multiplexer
typedef void (*Fn)(Src &, Case &);
const Fn ALL[] = {f_memcpy,  f_memmove,    f_memset,  f_memcmp,      f_memchr,  f_memrchr,    f_strlen,  f_strnlen,
                  f_strcpy,  f_strncpy,    f_strlcpy, f_strcat,      f_strncat, f_strcmp,     f_strncmp, f_strcasecmp,
                  f_strncasecmp, f_strchr, f_strrchr, f_strchrnul,   f_strstr,  f_strcasestr, f_strspn,  f_strcspn,
                  f_strpbrk, f_strtok,     f_strtok_r, f_strdup,     f_strndup, f_strlwr,     f_strupr};
const size_t NALL = sizeof ALL / sizeof ALL[0];
void f_all(Src &s, Case &c) { ALL[s.below(NALL)](s, c); }

// ---------------------------------------------------------------- enumeration
// All pairs (A, B) of N-byte arrays over {0,'a','A',0xFF} (N = 5 quick, 6
// thorough), each followed by a terminator. As strings they are every string of
// length <= N over {'a','A',0xFF}; as arrays they also carry every combination
// of bytes after an early terminator (n-functions must not look at them).
const uint8_t EALPHA[4] = {0, 'a', 'A', 0xFF};
int enum_n(int t) { return t ? 6 : 5; }
unsigned __int128 enum_size(int t)
{
    uint64_t cnt = 1ull << (2 * enum_n(t));
    return (unsigned __int128)cnt * cnt;
}
Bytes enum_arr(uint64_t idx, int N)
{
    Bytes r((size_t)N + 1, 0);
    for (int i = 0; i < N; i++)
    {
        r[(size_t)i] = EALPHA[idx & 3];
        idx >>= 2;
    }
    return r;
}
void f_enum(Src &s, Case &c)
{
    int N = enum_n(tier());
    uint64_t cnt = 1ull << (2 * N);
    uint64_t k = s.below(cnt * cnt);
    uint64_t ai = k % cnt, bi = k / cnt;
    Bytes A = enum_arr(ai, N), B = enum_arr(bi, N); // N+1 bytes, last is NUL
    Bytes a(A.begin(), A.begin() + (long)slen(A)), b(B.begin(), B.begin() + (long)slen(B));
    size_t La = a.size(), Lb = b.size();
    c.log("enum A=%s B=%s", hx(A).c_str(), hx(B).c_str());
    c.nontrivial = true;
    size_t o1 = (size_t)(ai & 7), o2 = (size_t)(bi & 7);
    const bool k_strlcpy = known_active("C08-strlcpy-return");

    Bytes az = cstr(a), bz = cstr(b);
    Op sa(az, o1), sb(bz, o2); // the strings: blocks end at the terminator
    Op fa(A, o1), fb(B, o2);   // the full arrays: bytes after an early terminator present

    // --- two-string functions on the strings
    cmp_core(false, sa, sb);
    cmp_core(true, sa, sb);
    str_core(false, sa, sb);
    str_core(true, sa, sb);
    for (int w = 0; w < 3; w++)
        span_core(w, sa, sb);
    strcat_core(a, sb, o1, 1);
    // --- n-functions on the full arrays, every n up to one past the last byte
    for (size_t n = 0; n <= (size_t)N + 1; n++)
    {
        ncmp_core(false, fa, fb, n);
        ncmp_core(true, fa, fb, n);
        strncat_core(a, fb, n, o1, 1);
        chk_memcmp(A, B, n, o1, o2);
        // unterminated operands: exactly n bytes, when the strings are that long
        if (Lb >= n)
        {
            Bytes ub(b.begin(), b.begin() + (long)n);
            Op xb(ub, o2);
            strncat_core(a, xb, n, o1, 0);
            if (La >= n)
            {
                Bytes ua(a.begin(), a.begin() + (long)n);
                Op xa(ua, o1);
                ncmp_core(false, xa, xb, n);
                ncmp_core(true, xa, xb, n);
            }
        }
    }
    // --- strtok(_r): string a, delimiter sets b and b without its first character
    {
        TokSets ts;
        ts.g = {sb.t.p, sb.t.p + (Lb ? 1 : 0)};
        ts.w = {sb.r.p(), sb.r.p() + (Lb ? 1 : 0)};
        size_t i = 0;
        auto same = [&]() -> size_t { return 0; };
        auto alt = [&]() -> size_t { return i++ & 1; };
        TokStat st = tok_core(true, a, o1, ts, same);
        tok_core(false, a, o1, ts, same);
        if (st.tokens)
            c.label("enum:tokens");
        if (Lb >= 2 && st.tokens)
        {
            tok_core(true, a, o1, ts, alt);
            i = 0;
            tok_core(false, a, o1, ts, alt);
        }
    }
    sa.unchanged("enum");
    sb.unchanged("enum");
    fa.unchanged("enum");
    fb.unchanged("enum");
    c.label("enum:pair");
    if (bi >= 4)
        return;
    // --- one-string functions: string a / array A with character EALPHA[bi]
    c.label("enum:unary");
    int base = EALPHA[bi];
    const int chs[4] = {base, (int)(signed char)base, base + 256, base - 512};
    chk_strlen(a, o1);
    chk_strcpy(a, o1, o2, 1);
    chk_strdup(a, o1);
    chk_case(false, a, o1, 1);
    chk_case(true, a, o1, 1);
    for (int ch : chs)
    {
        for (int w = 0; w < 3; w++)
        {
            if (w == 0 && ch != 0 && (char)ch == 0 && known_active("C08-strchr-int-nul"))
            {
                c.known_hit("C08-strchr-int-nul");
                continue;
            }
            chk_chr(w, a, ch, o1, false);
            if (w == 1)
                chk_chr(w, a, ch, 0, true);
        }
        for (size_t n = 0; n <= (size_t)N + 1; n++)
        {
            Bytes pre(A.begin(), A.begin() + (long)n);
            chk_memchr(pre, ch, n, o1);
            if (n == 0 && known_active("C08-memrchr-n0"))
            {
                c.known_hit("C08-memrchr-n0");
                continue;
            }
            chk_memrchr(pre, ch, o1, false);
            chk_memrchr(pre, ch, 0, true);
        }
        chk_memset(La, ch, o1, 1);
    }
    chk_memcpy(A, o1, o2, 1);
    for (size_t n = 0; n <= (size_t)N + 3; n++)
    {
        chk_strnlen(A, n, o1);
        chk_strncpy(A, n, o1, o2, 1);
        chk_strndup(A, n, o1);
        if (chk_strlcpy(a, n, o1, o2, 1) && k_strlcpy)
            c.known_hit("C08-strlcpy-return");
        if (La >= n)
        {
            Bytes ua(a.begin(), a.begin() + (long)n);
            chk_strnlen(ua, n, o1);
            chk_strncpy(ua, n, o1, o2, 0);
            if (known_active("C08-strndup-unterminated"))
                c.known_hit("C08-strndup-unterminated");
            else
                chk_strndup(ua, n, o1);
        }
    }
    for (long d = -(long)(N + 1); d <= (long)(N + 1); d++)
        chk_memmove(A, d, o1, (d & 1) ? CAN : 0);
}

} // namespace

#define C08_T(fn, rule) VP_TARGET(#fn, f_##fn, rule)
C08_T(memcpy, "n 0..96 (1k thorough), src/dst at offsets 0..15 of 16-aligned blocks; non-trivial = word-copy "
              "path taken (n >= 4*sizeof(long), both pointers long-aligned)");
C08_T(memmove, "every overlap distance -n..+n, adjacent, disjoint, same; span optionally flush against both "
               "block ends; non-trivial = ranges overlap or word path");
C08_T(memset, "n 0..96, c over int incl. negative and > 255; non-trivial = n >= 1");
C08_T(memcmp, "equal / one byte changed (bit 7, case bit, +1, any) / unrelated; non-trivial = n > 0 and "
              "(equal or first difference involves a byte >= 0x80)");
C08_T(memchr, "c from the buffer / absent / 0, as uchar, negative char or with high bits; n may exceed the "
              "object after a match (C11); non-trivial = first match beyond index 0");
C08_T(memrchr, "buffer flush against start or end of its block; non-trivial = a match exists and the last "
               "byte is not it");
C08_T(strlen, "string flush against block end at offsets 0..15; non-trivial = length >= 1");
C08_T(strnlen, "maxlen below/equal/above length, SIZE_MAX, unterminated arrays of exactly maxlen bytes; "
               "non-trivial = maxlen cuts (1 <= maxlen <= length)");
C08_T(strcpy, "exactly-sized destination with canaries; non-trivial = length >= 1");
C08_T(strncpy, "n below/equal/above length, unterminated source of exactly n bytes; non-trivial = truncation "
               "(n <= length) or NUL padding (n > length+1)");
C08_T(strlcpy, "size 0 / <= length / length+1 / larger; non-trivial = truncation occurred");
C08_T(strcat, "destination holds a string, region exactly sized; non-trivial = both strings non-empty");
C08_T(strncat, "n below/equal/above source length, SIZE_MAX, unterminated source; non-trivial = truncation "
               "or n >= 4 (unrolled loop)");
C08_T(strcmp, "second string derived from the first (equal/changed byte/prefix/longer/unrelated); "
              "non-trivial = common prefix >= 1 and (equal, prefix relation or difference at a byte >= 0x80)");
C08_T(strncmp, "as strcmp with n around the first difference, 0, SIZE_MAX, unterminated arrays of n bytes; "
               "non-trivial = n cuts the comparison or difference at a byte >= 0x80 inside n");
C08_T(strcasecmp, "letters of both cases and neighbours of the letter ranges, random case flips; "
                  "non-trivial = common prefix >= 1 and (case-folded pair passed, equal, prefix or high-bit difference)");
C08_T(strncasecmp, "as strcasecmp with n; non-trivial = n cuts, high-bit difference inside n, or a case-folded pair passed");
C08_T(strchr, "c from the string / absent / terminator, as uchar, negative char, or with high bits; "
              "non-trivial = first match beyond index 0");
C08_T(strrchr, "string flush against block start or end; non-trivial = at least two matches");
C08_T(strchrnul, "as strchr; non-trivial = first match beyond index 0");
C08_T(strstr, "needle: substring at start/middle/end, substring with last char changed, tail continued past "
              "the end, empty, longer than haystack; non-trivial = match beyond index 0 or an earlier partial match");
C08_T(strcasestr, "as strstr with case flips; non-trivial = match beyond index 0 or an earlier partial match");
C08_T(strspn, "accept set: chars of the string / empty / arbitrary / all; non-trivial = 1 <= result < length");
C08_T(strcspn, "reject set likewise; non-trivial = 1 <= result < length");
C08_T(strpbrk, "set likewise; non-trivial = match beyond index 0");
C08_T(strtok, "call sequence to exhaustion (+1 repeat after NULL), delimiter set may change between calls; "
              "non-trivial = >= 2 tokens or a set change with >= 1 token");
C08_T(strtok_r, "as strtok with a poisoned initial save pointer; non-trivial = >= 2 tokens or a set change with >= 1 token");
C08_T(strdup, "copy must be a fresh malloc block equal to the string; non-trivial = length >= 1");
C08_T(strndup, "n below/equal/above length, SIZE_MAX, unterminated arrays of exactly n bytes; non-trivial = n <= length");
C08_T(strlwr, "letters, bytes next to the letter ranges, bytes >= 0x80; non-trivial = at least one character changes");
C08_T(strupr, "as strlwr; non-trivial = at least one character changes");
VP_TARGET("all", f_all, "first choice selects one of the 31 functions, then that function's generator and rule");
// Soak: one of the span functions is called once with one set and then 65534..131071 more times on the same string with
// another set — a function that keeps a table across calls (stamps, generations, lazily cleared marks) must still
// answer every single call like the host.
void f_span_soak(Src &s, Case &c)
{
    int which = (int)s.below(3);
    static const char *const names[3] = {"strspn", "strcspn", "strpbrk"};
    int style = (int)s.pick({FULL, SPECIAL});
    Bytes str = gen(s, (size_t)s.range(1, 12), style, true);
    Bytes set_a = gen(s, (size_t)s.range(1, 6), style, true), set_b = gen(s, (size_t)s.range(0, 4), style, true);
    // make the first set contain a character of the string and the second one not contain it (the interesting stale mark)
    if (s.coin())
    {
        set_a.push_back(str[s.below(str.size())]);
        Bytes nb;
        for (uint8_t b : set_b)
            if (b != set_a.back())
                nb.push_back(b);
        set_b = nb;
    }
    size_t reps = (size_t)s.pick<uint32_t>({65534, 65535, 65536, 65537, 131071});
    c.log("%s: once with set %s, then %zu times with set %s on %s", names[which], sx(set_a).c_str(), reps, sx(set_b).c_str(), sx(str).c_str());
    c.label(names[which]);
    c.nontrivial = true;
    Bytes sz = cstr(str), az = cstr(set_a), bz = cstr(set_b);
    Op S(sz, 0), A(az, 0), B(bz, 0);
    span_core(which, S, A);
    long want = span_core(which, S, B);
    for (size_t i = 1; i < reps; i++)
    {
        long g = which == 0 ? (long)igc_strspn(S.t.p, B.t.p) : which == 1 ? (long)igc_strcspn(S.t.p, B.t.p) : poff(igc_strpbrk(S.t.p, B.t.p), S.t.p);
        if (g != want)
            fail(names[which], "ret_after_many_calls",
                 fmt("call %zu with the same arguments gives %ld, the host and the earlier calls %ld; s=%s set=%s (first call used set %s)", i + 2, g, want, sx(S.d).c_str(),
                     sx(B.d).c_str(), sx(A.d).c_str()));
    }
}

void f_all_long(Src &s, Case &c)
{
    struct G
    {
        G() { g_long = true; }
        ~G() { g_long = false; }
    } g;
    f_all(s, c);
    c.label("long_operands");
}
// ------------------------------------------------------------ one needle in a long haystack
// The scanning functions on 200..1300 bytes of filler with the searched byte at exactly one place: the first bytes, the last
// bytes, or a multiple of 64 / 256 (+-1) away from either end — chunked and word-at-a-time scanners change gear there.
void f_needle_scan(Src &s, Case &c)
{
    size_t n = s.coin() ? (size_t)s.range(200, 1300) : (size_t)(256 * s.range(1, 4) + s.range(-2, 2));
    size_t step = s.pick<uint32_t>({64, 128, 256, 256, 512});
    size_t k = (size_t)s.range(0, (int64_t)(n / step));
    size_t pos;
    switch (s.below(6))
    {
    case 0:
        pos = (size_t)s.below(3);
        break;
    case 1:
        pos = n - 1 - (size_t)s.below(3);
        break;
    case 2:
        pos = k * step + (size_t)s.below(3); // from the start
        break;
    case 3:
        pos = n - k * step - (size_t)s.below(3); // from the end (n - 256k, n - 256k - 1, ...)
        break;
    default:
        pos = (size_t)s.below(n);
    }
    if (pos >= n)
        pos = n - 1;
    uint8_t needle = s.pick<uint8_t>({'x', 0x80, 0xFF, 0x01, 'A'});
    uint8_t fill = s.pick<uint8_t>({'a', 0x7F, 0xFE, ' ', 'b'});
    bool present = s.below(8) != 0;
    Bytes buf(n, fill);
    if (s.coin())
        for (size_t i = 0; i < n; i++)
            buf[i] = (uint8_t)(fill ^ (uint8_t)((i * 5) & 6)); // a little texture; never the needle, never 0
    for (size_t i = 0; i < n; i++)
        if (buf[i] == needle || buf[i] == 0)
            buf[i] = fill;
    if (present)
        buf[pos] = needle;
    size_t off = pick_off(s);
    bool at_start = s.coin();
    int fn = (int)s.below(5);
    static const char *names[5] = {"memchr", "memrchr", "strchr", "strrchr", "strchrnul"};
    c.label(names[fn]);
    c.label(present ? "needle_present" : "needle_absent");
    c.nontrivial = present;
    c.log("%s: %zu bytes of filler, %02x %s%zu (= n-%zu), off=%zu flush=%s", names[fn], n, needle, present ? "only at " : "absent; would be at ", pos, n - pos, off,
          at_start ? "start" : "end");
    switch (fn)
    {
    case 0:
        chk_memchr(buf, needle, n, off);
        break;
    case 1:
        chk_memrchr(buf, needle, off, at_start);
        break;
    default:
        chk_chr(fn - 2, buf, needle, off, at_start);
    }
}
VP_TARGET("needle_scan", f_needle_scan,
          "memchr / memrchr / strchr / strrchr / strchrnul on 200..1300 bytes of filler holding the searched byte at one place only (or nowhere): within 3 bytes of either end, "
          "or a multiple of 64 / 128 / 256 / 512 (+0..2) away from the start or from the end; same oracles as the per-function targets");

// ------------------------------------------------------------ through the bundled headers
// Small operands (the per-function targets own lengths, alignment and bounds); what is judged here is the entry point a
// caller of the bundled headers gets: same answer as the host function, every argument expression evaluated once.
void f_via_header(Src &s, Case &c)
{
    static const char *names[27] = {"memcpy", "memmove", "memset", "memcmp", "memchr", "memrchr", "strlen", "strnlen", "strcpy",
                                    "strncpy", "strlcpy", "strcat", "strncat", "strcmp", "strncmp", "strcasecmp", "strncasecmp", "strchr",
                                    "strrchr", "strchrnul", "strstr", "strcasestr", "strspn", "strcspn", "strpbrk", "strlwr", "strupr"};
    int fi = (int)s.below(27);
    const char *fn = names[fi];
    int style = (int)s.below(5);
    auto gen = [&](size_t maxn) {
        std::string t;
        for (size_t k = s.below(maxn + 1); k > 0; k--)
            t.push_back((char)mapb(s.u8(), style, true));
        return t;
    };
    std::string a = gen(20), b = s.below(3) == 0 ? a : gen(s.coin() ? 3 : 20);
    if (s.below(4) == 0 && !a.empty() && b != a)
        b = a.substr(s.below(a.size())) + (s.coin() ? "" : "b"); // shares a suffix / is found inside
    if (s.below(4) == 0 && !b.empty())
        b[0] = a.empty() ? b[0] : a[0]; // same first character
    int ch = a.empty() || s.below(3) == 0 ? (int)mapb(s.u8(), style, false) : (unsigned char)a[s.below(a.size())];
    size_t n = s.below(24);
    // buffers: 64 bytes each, operands at offset 8; igris side and host side
    char ia[96], ib[96], ha[96], hb[96];
    memset(ia, 0, sizeof ia);
    memset(ib, 0, sizeof ib);
    memcpy(ia + 8, a.data(), a.size());
    memcpy(ib + 8, b.data(), b.size());
    memcpy(ha, ia, sizeof ia);
    memcpy(hb, ib, sizeof ib);
    char *A = ia + 8, *B = ib + 8, *HA = ha + 8, *HB = hb + 8;
    size_t nmem = std::min<size_t>(n, 24);
    unsigned ev[3] = {0, 0, 0};
    int nargs = 2;
    long got = 0, want = 0;
    bool sign_only = false;
    c.log("%s via the bundled header: a='%s' b='%s' ch=0x%02x n=%zu", fn, hexdump(a.data(), a.size(), 24).c_str(), hexdump(b.data(), b.size(), 24).c_str(), ch, n);
    switch (fi)
    {
    case 0:
        nargs = 3, got = poff(igc_vp_hdr_memcpy(A, B, nmem, ev), A), want = poff(memcpy(HA, HB, nmem), HA);
        break;
    case 1:
        nargs = 3, got = poff(igc_vp_hdr_memmove(A, A + 1, nmem, ev), A), want = poff(memmove(HA, HA + 1, nmem), HA);
        break;
    case 2:
        nargs = 3, got = poff(igc_vp_hdr_memset(A, ch, nmem, ev), A), want = poff(memset(HA, ch, nmem), HA);
        break;
    case 3:
        nargs = 3, sign_only = true, got = igc_vp_hdr_memcmp(A, B, nmem, ev), want = memcmp(HA, HB, nmem);
        break;
    case 4:
        nargs = 3, got = poff(igc_vp_hdr_memchr(A, ch, nmem, ev), A), want = poff(memchr(HA, ch, nmem), HA);
        break;
    case 5:
        nargs = 3, got = poff(igc_vp_hdr_memrchr(A, ch, nmem, ev), A), want = poff(memrchr(HA, ch, nmem), HA);
        break;
    case 6:
        nargs = 1, got = (long)igc_vp_hdr_strlen(A, ev), want = (long)strlen(HA);
        break;
    case 7:
        got = (long)igc_vp_hdr_strnlen(A, n, ev), want = (long)strnlen(HA, n);
        break;
    case 8:
        got = poff(igc_vp_hdr_strcpy(A, B, ev), A), want = poff(strcpy(HA, HB), HA);
        break;
    case 9:
        nargs = 3, got = poff(igc_vp_hdr_strncpy(A, B, n, ev), A), want = poff(strncpy(HA, HB, n), HA);
        break;
    case 10:
    {
        nargs = 3, got = (long)igc_vp_hdr_strlcpy(A, B, n, ev), want = (long)b.size();
        if (n)
        {
            size_t k = std::min(b.size(), n - 1);
            memcpy(HA, HB, k);
            HA[k] = 0;
        }
        break;
    }
    case 11:
        got = poff(igc_vp_hdr_strcat(A, B, ev), A), want = poff(strcat(HA, HB), HA);
        break;
    case 12:
        nargs = 3, got = poff(igc_vp_hdr_strncat(A, B, n, ev), A), want = poff(strncat(HA, HB, n), HA);
        break;
    case 13:
        sign_only = true, got = igc_vp_hdr_strcmp(A, B, ev), want = strcmp(HA, HB);
        break;
    case 14:
        nargs = 3, sign_only = true, got = igc_vp_hdr_strncmp(A, B, n, ev), want = strncmp(HA, HB, n);
        break;
    case 15:
        sign_only = true, got = igc_vp_hdr_strcasecmp(A, B, ev), want = strcasecmp(HA, HB);
        break;
    case 16:
        nargs = 3, sign_only = true, got = igc_vp_hdr_strncasecmp(A, B, n, ev), want = strncasecmp(HA, HB, n);
        break;
    case 17:
        got = poff(igc_vp_hdr_strchr(A, ch, ev), A), want = poff(strchr(HA, ch), HA);
        break;
    case 18:
        got = poff(igc_vp_hdr_strrchr(A, ch, ev), A), want = poff(strrchr(HA, ch), HA);
        break;
    case 19:
        got = poff(igc_vp_hdr_strchrnul(A, ch, ev), A), want = poff(strchrnul(HA, ch), HA);
        break;
    case 20:
        got = poff(igc_vp_hdr_strstr(A, B, ev), A), want = poff(strstr(HA, HB), HA);
        break;
    case 21:
        got = poff(igc_vp_hdr_strcasestr(A, B, ev), A), want = poff(strcasestr(HA, HB), HA);
        break;
    case 22:
        got = (long)igc_vp_hdr_strspn(A, B, ev), want = (long)strspn(HA, HB);
        break;
    case 23:
        got = (long)igc_vp_hdr_strcspn(A, B, ev), want = (long)strcspn(HA, HB);
        break;
    case 24:
        got = poff(igc_vp_hdr_strpbrk(A, B, ev), A), want = poff(strpbrk(HA, HB), HA);
        break;
    case 25:
    case 26:
    {
        nargs = 1;
        got = poff(fi == 25 ? igc_vp_hdr_strlwr(A, ev) : igc_vp_hdr_strupr(A, ev), A);
        want = 0;
        for (char *q = HA; *q; q++)
            if (fi == 25 ? (*q >= 'A' && *q <= 'Z') : (*q >= 'a' && *q <= 'z'))
                *q = (char)(*q ^ 0x20);
        break;
    }
    }
    c.label(fn);
    bool high = false;
    for (char x : a + b)
        high |= (x & 0x80) != 0;
    if (high)
        c.label("high_bytes");
    c.nontrivial = !a.empty() && !b.empty();
    if (sign_only)
        got = sgn((int)got), want = sgn((int)want);
    if (got != want)
        fail(fn, "header_result", fmt("through the bundled header: result %s, the definition gives %s", sign_only ? fmt("%ld", got).c_str() : offs(got).c_str(),
                                      sign_only ? fmt("%ld", want).c_str() : offs(want).c_str()));
    if (memcmp(ia, ha, sizeof ia) != 0 || memcmp(ib, hb, sizeof ib) != 0)
        fail(fn, "header_bytes", fmt("through the bundled header: first operand afterwards %s, the definition leaves %s", hexdump(ia, 40, 40).c_str(), hexdump(ha, 40, 40).c_str()));
    for (int k = 0; k < nargs; k++)
        if (ev[k] != 1)
            fail(fn, "header_argument_evaluations", fmt("argument %d of %s() was evaluated %u times (ISO C 7.1.4: exactly once)", k + 1, fn, ev[k]));
}
VP_TARGET("via_header", f_via_header,
          "27 functions called through the names the bundled <string.h> / <strings.h> provide (harness/C08_hdr.c is compiled against compat/libc/include), every argument an "
          "expression with a side effect: result and operand bytes as the host function leaves them, and each argument evaluated exactly once; operands of 0..20 bytes, "
          "equal / suffix-sharing / same-first-character pairs over-weighted; non-trivial = both operands non-empty");
VP_TARGET("span_soak", f_span_soak,
          "strspn / strcspn / strpbrk: one call with a first set, then 65534 .. 131071 calls on the same string with a second set (half of the time the first set holds a character of "
          "the string that the second lacks): every call must answer like the host");
VP_TARGET("all_long", f_all_long,
          "the 31 functions with the length schedule moved to 250..262 / 0..300 / 508..520 / 0..1100 (operands longer than any one-byte "
          "counter, word loops of hundreds of iterations); same generators and rules otherwise");
VP_TARGET("str_enum", f_enum,
          "exhaustive: every pair of 5-byte (thorough: 6-byte) arrays over {00,'a','A',FF} through every "
          "two-string function, every n, strtok(_r) with the second as delimiters; every single array "
          "through the one-string functions with every alphabet character and every n",
          enum_size);
