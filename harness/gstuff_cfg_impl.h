// The configurable (C++) receiver as a gs::Receiver. Include in exactly one TU
// per harness binary, after gstuff_common.h.
#pragma once
#include "gstuff_common.h"
#include <igris/protocols/gstuff.h>

namespace gs
{
inline gstuff_context ctx_of(const Alphabet &a)
{
    // the two alphabets the library ships come from the library's own definitions (default-constructed context,
    // gstuff_context_v0()); the harness' Alphabet constants are the independent reference they are measured against
    auto same6 = [](const Alphabet &x, const Alphabet &y) {
        return x.start == y.start && x.stop == y.stop && x.stub == y.stub && x.c_start == y.c_start && x.c_stop == y.c_stop && x.c_stub == y.c_stub;
    };
    if (same6(a, kV1))
        return gstuff_context();
    if (same6(a, kV0))
        return gstuff_context_v0();
    gstuff_context c;
    c.GSTUFF_START = (char)a.start;
    c.GSTUFF_STOP = (char)a.stop;
    c.GSTUFF_STUB = (char)a.stub;
    c.GSTUFF_STUB_START = (char)a.c_start;
    c.GSTUFF_STUB_STOP = (char)a.c_stop;
    c.GSTUFF_STUB_STUB = (char)a.c_stub;
    return c;
}
namespace
{
struct CfgReceiver : Receiver
{
    std::unique_ptr<vpbt::Exact> buf;
    gstuff_autorecv rx;
    CfgReceiver(const Alphabet &a, size_t cap) : buf(new vpbt::Exact(cap)), rx(ctx_of(a)) { rx.init(buf->p, (int)cap); }
    void rearm(size_t cap) override
    {
        if (cap < buf->n && cap % 2 == 0)
        {
            // the same memory announced again with a smaller length (a shared arena carved up differently): only the first
            // `cap` bytes belong to the receiver from now on
            rx.setbuf(buf->p, (int)cap);
            return;
        }
        std::unique_ptr<vpbt::Exact> nb(new vpbt::Exact(cap));
        rx.setbuf(nb->p, (int)cap);
        buf = std::move(nb);
    }
    Status feed(uint8_t c) override
    {
        switch (rx.newchar((char)c))
        {
        case GSTUFF_CONTINUE:
            return S_CONTINUE;
        case GSTUFF_NEWPACKAGE:
            return S_NEWPACKAGE;
        case GSTUFF_CRC_ERROR:
            return S_CRC_ERROR;
        case GSTUFF_OVERFLOW:
            return S_OVERFLOW;
        case GSTUFF_STUFFING_ERROR:
            return S_STUFFING_ERROR;
        case GSTUFF_FORCE_RESTART:
            return S_FORCE_RESTART;
        case GSTUFF_GARBAGE:
            return S_GARBAGE;
        default:
            return S_OTHER;
        }
    }
    size_t size() override { return rx.size(); }
    size_t raw_len() override { return rx.size(); }
    Bytes packet() override
    {
        // NB: cstr() writes a terminator at buf[len]; len <= cap-1 keeps that inside the block
        const uint8_t *p = (const uint8_t *)rx.cstr();
        return Bytes(p, p + rx.size());
    }
};
} // namespace
inline std::unique_ptr<Receiver> make_cfg_receiver(const Alphabet &a, size_t cap) { return std::make_unique<CfgReceiver>(a, cap); }
} // namespace gs
