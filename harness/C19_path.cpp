// C19 (path helpers) — path_next, path_iterate, path_compare_node and
// path_remove_prefix agree with a component-wise reference and stay inside
// the exactly-sized terminated block that holds the path.
//
// Compiled at -O0 (see propdefs/C19.py): path_is_single_dot loads path[1]
// unconditionally; an optimiser may sink that load under the `*path == '.'`
// test and hide the read past the terminator.
//
// Reference model (pathops.h comments + tests/pathops.cpp): a path is a list
// of nodes. A leading '/' is itself a node (the root, "slash counts as a
// node"); after it come the components, i.e. the maximal runs of non-'/'
// characters, with empty and "." components skipped. For a relative path the
// first component is the node the pointer stands on and is taken as it is.
#include "vpbt.h"

#include <igris/util/pathops.h>

#include <algorithm>
#include <cstddef>

#include <string>
#include <vector>

using namespace vpbt;
typedef std::string Str;

static const char K_SINGLE_DOT[] = "C19-path-single-dot-overread";
static const char K_RMPREFIX_EMPTY[] = "C19-path-remove-prefix-empty";

struct Comp
{
    size_t off, len;
};
static std::vector<Comp> comps(const Str &p)
{
    std::vector<Comp> v;
    size_t i = 0, n = p.size();
    while (i < n)
    {
        if (p[i] == '/')
        {
            i++;
            continue;
        }
        size_t st = i;
        while (i < n && p[i] != '/')
            i++;
        v.push_back({st, i - st});
    }
    return v;
}
static bool is_dot(const Str &p, const Comp &c)
{
    return c.len == 1 && p[c.off] == '.';
}

struct Node
{
    size_t off;
    Str name;
};
static std::vector<Node> nodes(const Str &p)
{
    std::vector<Node> v;
    auto cs = comps(p);
    size_t i = 0;
    if (!p.empty() && p[0] == '/')
        v.push_back({0, ""}); // the root node compares like an empty name
    else if (!cs.empty())
    {
        v.push_back({cs[0].off, p.substr(cs[0].off, cs[0].len)});
        i = 1;
    }
    for (; i < cs.size(); i++)
        if (!is_dot(p, cs[i]))
            v.push_back({cs[i].off, p.substr(cs[i].off, cs[i].len)});
    return v;
}

// A path in an exactly-sized terminated block; with the single-dot finding
// active one spare byte follows the terminator.
struct PathBlk
{
    Exact blk;
    size_t n;
    PathBlk(const Str &p, bool pad) : blk(p.size() + 1 + (pad ? 1 : 0)), n(p.size())
    {
        memcpy(blk.p, p.c_str(), p.size() + 1);
        if (pad)
            blk.p[p.size() + 1] = 'x';
    }
    const char *c() { return (const char *)blk.p; }
};
static bool pad_on()
{
    return known_active(K_SINGLE_DOT);
}

static void check_next(Case &c, const Str &p)
{
    auto cs = comps(p);
    const Comp *first = nullptr;
    for (auto &k : cs)
        if (!is_dot(p, k))
        {
            first = &k;
            break;
        }
    // without a real component the skip loop stops on the terminator, where
    // path_is_single_dot reads path[1]
    bool pad = !first && pad_on();
    if (pad)
        c.known_hit(K_SINGLE_DOT);
    PathBlk b(p, pad);
    unsigned int len = 0xdead;
    const char *r = path_next(b.c(), &len);
    if (!first)
    {
        VP_CHECK(r == nullptr, "path_next_value", "path_next(\"%s\") got offset %td want NULL",
                 p.c_str(), r - b.c());
        return;
    }
    VP_CHECK(r == b.c() + first->off && len == first->len, "path_next_value",
             "path_next(\"%s\") got %s off=%td len=%u want off=%zu len=%zu", p.c_str(),
             r ? "" : "NULL", r ? r - b.c() : (std::ptrdiff_t)0, len, first->off, first->len);
    // p_len is optional
    const char *r2 = path_next(b.c(), nullptr);
    VP_CHECK(r2 == r, "path_next_nolen", "path_next(\"%s\", NULL) differs", p.c_str());
}

// reference for one path_iterate step from offset `from` (a node start or the
// terminator): the offset it must return, or (size_t)-1 for NULL
static size_t ref_iterate(const Str &p, size_t from)
{
    if (from >= p.size())
        return (size_t)-1;
    Str rest = p.substr(from);
    auto cs = comps(rest);
    size_t i = 0;
    if (rest[0] != '/')
        i = 1; // skip the node we stand on, whatever it is
    for (; i < cs.size(); i++)
        if (!is_dot(rest, cs[i]))
            return from + cs[i].off;
    return p.size();
}
static void check_iterate(Case &c, const Str &p)
{
    // the first step alone, on an unpadded block whenever it does not end on
    // the terminator
    {
        size_t want = ref_iterate(p, 0);
        bool pad = want == p.size() && pad_on();
        if (pad)
            c.known_hit(K_SINGLE_DOT);
        PathBlk b(p, pad);
        const char *r = path_iterate(b.c());
        if (want == (size_t)-1)
            VP_CHECK(r == nullptr, "path_iterate_value", "path_iterate(\"%s\") got offset %td want NULL",
                     p.c_str(), r - b.c());
        else
            VP_CHECK(r == b.c() + want, "path_iterate_value",
                     "path_iterate(\"%s\") got %s%td want offset %zu", p.c_str(),
                     r ? "offset " : "NULL ", r ? r - b.c() : (std::ptrdiff_t)0, want);
    }
    if (p.empty())
        return;
    // the whole chain down to NULL: its last step but one always ends on the
    // terminator
    if (pad_on())
        c.known_hit(K_SINGLE_DOT);
    PathBlk b(p, pad_on());
    size_t at = 0;
    for (size_t step = 0; step < p.size() + 3; step++)
    {
        size_t want = ref_iterate(p, at);
        const char *r = path_iterate(b.c() + at);
        if (want == (size_t)-1)
        {
            VP_CHECK(r == nullptr, "path_iterate_value",
                     "path_iterate(\"%s\"+%zu) got offset %td want NULL", p.c_str(), at, r - b.c());
            return;
        }
        VP_CHECK(r == b.c() + want, "path_iterate_value",
                 "path_iterate(\"%s\"+%zu) got %s%td want offset %zu", p.c_str(), at,
                 r ? "offset " : "NULL ", r ? r - b.c() : (std::ptrdiff_t)0, want);
        at = want;
    }
    VP_FAIL("path_iterate_no_end", "path_iterate(\"%s\") did not reach NULL", p.c_str());
}

static int sgn(int v)
{
    return v < 0 ? -1 : v > 0 ? 1 : 0;
}
static void check_compare(Case &c, const Str &a, size_t ao, const Str &b, size_t bo)
{
    (void)c;
    PathBlk ba(a, false), bb(b, false);
    Str na = a.substr(ao, std::min(a.find('/', ao), a.size()) - ao);
    Str nb = b.substr(bo, std::min(b.find('/', bo), b.size()) - bo);
    int want = sgn(na.compare(nb));
    int got = path_compare_node(ba.c() + ao, bb.c() + bo);
    VP_CHECK(sgn(got) == want, "path_compare_node_value",
             "path_compare_node(\"%s\"+%zu,\"%s\"+%zu) got %d want sign %d", a.c_str(), ao, b.c_str(),
             bo, got, want);
}

static void check_remove_prefix(Case &c, const Str &path, const Str &prefix)
{
    // an empty string against a string that starts with '/': the root node and
    // the end of the other string compare equal, path_iterate("") is NULL and
    // the loop condition dereferences it
    bool null_deref = (path.empty() && !prefix.empty() && prefix[0] == '/') ||
                      (prefix.empty() && !path.empty() && path[0] == '/');
    if (null_deref && known_active(K_RMPREFIX_EMPTY))
    {
        c.known_hit(K_RMPREFIX_EMPTY);
        return;
    }
    auto np = nodes(path), nq = nodes(prefix);
    size_t i = 0;
    while (i < np.size() && i < nq.size() && np[i].name == nq[i].name)
        i++;
    size_t want = i < np.size() ? np[i].off : path.size();
    // after i matched nodes both pointers have been iterated i times; the one
    // that ran out of nodes stands on its terminator
    bool pad_p = (null_deref || (i > 0 && i == np.size())) && pad_on();
    bool pad_q = (null_deref || (i > 0 && i == nq.size())) && pad_on();
    if (pad_p || pad_q)
        c.known_hit(K_SINGLE_DOT);
    PathBlk bp(path, pad_p), bq(prefix, pad_q);
    const char *r = path_remove_prefix(bp.c(), bq.c());
    VP_CHECK(r == bp.c() + want, "path_remove_prefix_value",
             "path_remove_prefix(\"%s\",\"%s\") got %s%td want offset %zu", path.c_str(),
             prefix.c_str(), r ? "offset " : "NULL ", r ? r - bp.c() : (std::ptrdiff_t)0, want);
}

// ------------------------------------------------------------- generators
// the path_long target: components of 250..1000 characters
static bool g_long_nodes = false;
static Str gen_path(Src &s)
{
    Str p;
    if (s.chance(1, 3))
    {
        static const char al[] = {'a', '/', '.', 'b'};
        size_t n = (size_t)s.range(0, 12);
        for (size_t i = 0; i < n; i++)
            p += al[s.below(4)];
        return p;
    }
    static const char *const cl[] = {"a", "b", "ab", ".", "..", ".a", "a.", "dev"};
    size_t k = (size_t)s.range(0, 5);
    p.append(s.weighted({2, 3, 1}), '/');
    for (size_t i = 0; i < k; i++)
    {
        if (i)
            p.append((size_t)s.range(1, 2), '/');
        if (g_long_nodes && s.coin())
        {
            // a long component (file names of 250..300 and 1000 characters)
            size_t len = s.coin() ? (size_t)s.range(250, 262) : (size_t)s.pick<uint32_t>({255, 256, 257, 300, 1000});
            p.append(len, s.coin() ? 'x' : 'a');
            if (s.coin())
                p += ".c";
            continue;
        }
        p += cl[s.weighted({4, 3, 2, 3, 1, 1, 1, 1})];
    }
    if (s.chance(1, 3))
        p.append((size_t)s.range(1, 2), '/');
    return p;
}
static Str gen_prefix(Src &s, const Str &path)
{
    if (s.chance(1, 4))
        return gen_path(s);
    // the first k nodes of path, re-spelled
    auto cs = comps(path);
    size_t k = cs.empty() ? 0 : s.below(cs.size() + 1);
    Str q;
    if (!path.empty() && path[0] == '/' && !s.chance(1, 8))
        q.append((size_t)s.range(1, 2), '/');
    for (size_t i = 0; i < k; i++)
    {
        if (i)
        {
            q += '/';
            if (s.chance(1, 6))
                q += "./";
            if (s.chance(1, 6))
                q += '/';
        }
        q += path.substr(cs[i].off, cs[i].len);
    }
    switch (s.weighted({4, 2, 2, 1}))
    {
    case 0:
        break;
    case 1:
        q += '/';
        break;
    case 2:
        q += q.empty() || q.back() == '/' ? "zz" : "/zz"; // one component that differs
        break;
    default:
        if (!q.empty() && q.back() != '/')
            q.pop_back(); // last component truncated
    }
    return q;
}

static void t_path(Src &s, Case &c)
{
    int op = (int)s.weighted({3, 3, 2, 4, 1});
    static const char *const opn[] = {"path_next", "path_iterate", "path_compare_node",
                                      "path_remove_prefix", "null"};
    Str p = gen_path(s);
    auto cs = comps(p);
    bool has_dot = false, dbl = p.find("//") != Str::npos;
    for (auto &k : cs)
        has_dot |= is_dot(p, k);
    c.nontrivial = !p.empty() && (p.front() == '/' || p.back() == '/' || dbl || has_dot);
    c.label(opn[op]);
    if (p.empty())
        c.label("empty_path");
    if (has_dot)
        c.label("dot_component");
    switch (op)
    {
    case 0:
        c.log("path_next p=\"%s\"", p.c_str());
        check_next(c, p);
        break;
    case 1:
        c.log("path_iterate p=\"%s\"", p.c_str());
        check_iterate(c, p);
        break;
    case 2:
    {
        Str q = gen_prefix(s, p);
        size_t ao = p.empty() ? 0 : s.below(p.size() + 1);
        size_t bo = q.empty() ? 0 : s.below(q.size() + 1);
        if (s.coin())
            ao = bo = 0;
        c.log("path_compare_node a=\"%s\"+%zu b=\"%s\"+%zu", p.c_str(), ao, q.c_str(), bo);
        check_compare(c, p, ao, q, bo);
        break;
    }
    case 3:
    {
        Str q = gen_prefix(s, p);
        c.log("path_remove_prefix path=\"%s\" prefix=\"%s\"", p.c_str(), q.c_str());
        if (q.empty())
            c.label("empty_prefix");
        check_remove_prefix(c, p, q);
        break;
    }
    default:
    {
        c.log("path_next(NULL) path_iterate(NULL)");
        unsigned int len = 7;
        VP_CHECK(path_next(nullptr, &len) == nullptr, "path_next_null", "not NULL");
        VP_CHECK(path_iterate(nullptr) == nullptr, "path_iterate_null", "not NULL");
    }
    }
}
static void t_path_long(Src &s, Case &c)
{
    struct G
    {
        G() { g_long_nodes = true; }
        ~G() { g_long_nodes = false; }
    } g;
    t_path(s, c);
    c.label("long_components");
}
VP_TARGET("path_long", t_path_long,
          "the path operations on paths whose components are (half of the time) 250..262, 300 or 1000 characters long; same component-wise reference and checks as path");
VP_TARGET("path", t_path,
          "paths built from components {a b ab . .. .a a. dev} with 1-2 slashes, optional "
          "leading/trailing slashes, or raw strings 0..12 over {a b / .}, in exactly-sized "
          "terminated blocks; prefix = first k nodes of the path re-spelled (extra slashes, ./, "
          "trailing slash, differing or truncated last component) or independent; non-trivial = "
          "a slash at either end, a doubled slash or a '.' component");

// ------------------------------------------------------------ enumeration
static uint64_t count_upto(uint64_t asz, int L)
{
    uint64_t t = 0, p = 1;
    for (int l = 0; l <= L; l++)
    {
        t += p;
        p *= asz;
    }
    return t;
}
static Str nth_str(uint64_t k, const char *alpha, uint64_t asz)
{
    size_t n = 0;
    uint64_t p = 1;
    while (k >= p)
    {
        k -= p;
        p *= asz;
        n++;
    }
    Str d(n, 'a');
    for (size_t i = 0; i < n; i++)
    {
        d[i] = alpha[k % asz];
        k /= asz;
    }
    return d;
}
static const char A_PATH[4] = {'a', '/', '.', 'b'};
static unsigned __int128 path_enum_size(int t)
{
    uint64_t pairs = count_upto(4, t ? 4 : 3);
    return (unsigned __int128)count_upto(4, t ? 8 : 6) + pairs * pairs;
}
static void t_path_enum(Src &s, Case &c)
{
    uint64_t k = s.below((uint64_t)path_enum_size(tier()));
    uint64_t singles = count_upto(4, tier() ? 8 : 6);
    c.nontrivial = true;
    if (k < singles)
    {
        Str p = nth_str(k, A_PATH, 4);
        c.log("path_enum p=\"%s\"", p.c_str());
        check_next(c, p);
        check_iterate(c, p);
        return;
    }
    k -= singles;
    uint64_t np = count_upto(4, tier() ? 4 : 3);
    Str a = nth_str(k % np, A_PATH, 4), b = nth_str(k / np, A_PATH, 4);
    c.log("path_enum a=\"%s\" b=\"%s\"", a.c_str(), b.c_str());
    for (size_t ao = 0; ao <= a.size(); ao++)
        check_compare(c, a, ao, b, 0);
    check_remove_prefix(c, a, b);
}
VP_TARGET("path_enum", t_path_enum,
          "exhaustive: every path of length <=6 (quick) / <=8 (thorough) over {a b / .} through "
          "path_next and the whole path_iterate chain; every ordered pair of strings of length <=3 "
          "/ <=4 through path_compare_node (every offset of the first) and path_remove_prefix",
          path_enum_size);
