// C14 — the static_vector / static_string twins inside std_portable.h.
//
// std_portable.h redefines igris::static_vector and igris::static_string, so it cannot
// share a translation unit with the primary headers — and it cannot share a *program*
// with them under the same names either: the inline members of the two different
// `igris::static_vector<int,3>` would be folded into one by the linker and one of the two
// implementations would silently go untested. The whole header is therefore compiled
// into namespace igris_portable (a harness-side rename; the code is unchanged).
#include "C14_common.h"
#define igris igris_portable
#include <igris/container/std_portable.h>
#undef igris

using namespace vpbt;

namespace
{
    struct VecApi
    {
        // the twin has no initializer-list constructor (commented out), no iterator-range
        // constructor and no erase()
        static constexpr bool initlist = false, range = false, erase = false, primary = false;
        static constexpr const char *name = "std_portable";
    };
    struct StrApi
    {
        static constexpr bool portable = true;
        static constexpr const char *name = "std_portable";
    };
}

static void portable_svec_int(Src &s, Case &c) { c14::vec_target<igris_portable::static_vector, int, VecApi>(s, c); }
static void portable_svec_tracked(Src &s, Case &c)
{
    c14::vec_target<igris_portable::static_vector, c14::Tracked, VecApi>(s, c);
}
static void portable_sstring(Src &s, Case &c) { c14::str_target<igris_portable::static_string, StrApi>(s, c); }

#define C14_PVEC_RULE(what)                                                                            \
    "history of <= 40 operations on up to 3 std_portable " what " objects, N in {1,2,3,5,8}: "       \
    "construction (default, copy, move), push_back, emplace_back, back_inserter of 0..2N values, "   \
    "resize(0..2N), clear, copy/move assignment incl. self, destruction; non-trivial = at least one " \
    "operation offered more elements than the remaining room"

static void portable_svec_small(Src &s, Case &c)
{
    if (s.coin())
        c14::vec_target<igris_portable::static_vector, signed char, VecApi>(s, c);
    else
        c14::vec_target<igris_portable::static_vector, short, VecApi>(s, c);
}
VP_TARGET("portable_svec_small", portable_svec_small, C14_PVEC_RULE("static_vector<signed char,N> / static_vector<short,N>"));
VP_TARGET("portable_svec_int", portable_svec_int, C14_PVEC_RULE("static_vector<int,N>"));
VP_TARGET("portable_svec_tracked", portable_svec_tracked, C14_PVEC_RULE("static_vector<Tracked,N>"));
VP_TARGET("portable_sstring", portable_sstring,
          "history of <= 40 operations on up to 3 std_portable static_string<N> objects, N in {1,2,3,5,8,12}: "
          "construction (default, C string of 0..2N chars, (pointer,length) of 0..2N chars, copy, move), "
          "push_back / operator+= incl. on a full string, clear, operator[] writes, split<2,(N+1)/2>, "
          "copy/move assignment incl. self, c_str, iteration, destruction; non-trivial = at least one "
          "operation offered more characters than the remaining room");
