/* Prototypes of the non-ISO functions of /repo/compat/libc, for compiling its
 * sources against the host headers (pre-included with -include). */
#ifndef VERIF_LIBC_PROTOS_H
#define VERIF_LIBC_PROTOS_H
#include <stddef.h>
#ifdef __cplusplus
extern "C" {
#endif
size_t strlcpy(char *dst, const char *src, size_t size);
char *strlwr(char *s);
char *strupr(char *s);
char *itoa(int num, char *buf, unsigned short int base);
char *utoa(unsigned int num, char *buf, unsigned short int base);
char *ltoa(long num, char *buf, unsigned short int base);
char *ultoa(unsigned long num, char *buf, unsigned short int base);
#include <stdarg.h>
int fdputc(int c, int fd);
int vfdprintf(int fd, const char *format, va_list args);
int fdprintf(int fd, const char *format, ...);
#ifdef __cplusplus
}
#endif
#endif
