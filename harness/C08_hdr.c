/* C08 — the bundled libc's string functions called the way a program built against the bundled headers calls
 * them: this file is compiled with compat/libc/include in front of the host's include path, so every name below is
 * whatever <string.h> / <strings.h> of the shim make of it (a function, or a macro in front of one). Each argument is an
 * expression with a side effect (a counter), as in strcmp(*p++, key): ISO C 7.1.4 requires a library macro to evaluate
 * each argument exactly once. The object joins the igc_ symbol group, so the calls bind to the shim's functions. */
#include <string.h>
#include <strings.h>

#define EV(k, e) (ev[k]++, (e))

void *vp_hdr_memcpy(void *d, const void *s, size_t n, unsigned *ev) { return memcpy(EV(0, d), EV(1, s), EV(2, n)); }
void *vp_hdr_memmove(void *d, const void *s, size_t n, unsigned *ev) { return memmove(EV(0, d), EV(1, s), EV(2, n)); }
void *vp_hdr_memset(void *d, int c, size_t n, unsigned *ev) { return memset(EV(0, d), EV(1, c), EV(2, n)); }
int vp_hdr_memcmp(const void *a, const void *b, size_t n, unsigned *ev) { return memcmp(EV(0, a), EV(1, b), EV(2, n)); }
void *vp_hdr_memchr(const void *a, int c, size_t n, unsigned *ev) { return memchr(EV(0, a), EV(1, c), EV(2, n)); }
void *vp_hdr_memrchr(const void *a, int c, size_t n, unsigned *ev) { return memrchr(EV(0, a), EV(1, c), EV(2, n)); }
size_t vp_hdr_strlen(const char *a, unsigned *ev) { return strlen(EV(0, a)); }
size_t vp_hdr_strnlen(const char *a, size_t n, unsigned *ev) { return strnlen(EV(0, a), EV(1, n)); }
char *vp_hdr_strcpy(char *d, const char *s, unsigned *ev) { return strcpy(EV(0, d), EV(1, s)); }
char *vp_hdr_strncpy(char *d, const char *s, size_t n, unsigned *ev) { return strncpy(EV(0, d), EV(1, s), EV(2, n)); }
size_t vp_hdr_strlcpy(char *d, const char *s, size_t n, unsigned *ev) { return strlcpy(EV(0, d), EV(1, s), EV(2, n)); }
char *vp_hdr_strcat(char *d, const char *s, unsigned *ev) { return strcat(EV(0, d), EV(1, s)); }
char *vp_hdr_strncat(char *d, const char *s, size_t n, unsigned *ev) { return strncat(EV(0, d), EV(1, s), EV(2, n)); }
int vp_hdr_strcmp(const char *a, const char *b, unsigned *ev) { return strcmp(EV(0, a), EV(1, b)); }
int vp_hdr_strncmp(const char *a, const char *b, size_t n, unsigned *ev) { return strncmp(EV(0, a), EV(1, b), EV(2, n)); }
int vp_hdr_strcasecmp(const char *a, const char *b, unsigned *ev) { return strcasecmp(EV(0, a), EV(1, b)); }
int vp_hdr_strncasecmp(const char *a, const char *b, size_t n, unsigned *ev) { return strncasecmp(EV(0, a), EV(1, b), EV(2, n)); }
char *vp_hdr_strchr(const char *a, int c, unsigned *ev) { return strchr(EV(0, a), EV(1, c)); }
char *vp_hdr_strrchr(const char *a, int c, unsigned *ev) { return strrchr(EV(0, a), EV(1, c)); }
char *vp_hdr_strchrnul(const char *a, int c, unsigned *ev) { return strchrnul(EV(0, a), EV(1, c)); }
char *vp_hdr_strstr(const char *a, const char *b, unsigned *ev) { return strstr(EV(0, a), EV(1, b)); }
char *vp_hdr_strcasestr(const char *a, const char *b, unsigned *ev) { return strcasestr(EV(0, a), EV(1, b)); }
size_t vp_hdr_strspn(const char *a, const char *b, unsigned *ev) { return strspn(EV(0, a), EV(1, b)); }
size_t vp_hdr_strcspn(const char *a, const char *b, unsigned *ev) { return strcspn(EV(0, a), EV(1, b)); }
char *vp_hdr_strpbrk(const char *a, const char *b, unsigned *ev) { return strpbrk(EV(0, a), EV(1, b)); }
char *vp_hdr_strlwr(char *a, unsigned *ev) { return strlwr(EV(0, a)); }
char *vp_hdr_strupr(char *a, unsigned *ev) { return strupr(EV(0, a)); }
