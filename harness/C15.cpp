// C15 — line editor and terminal deliver exactly what a reference editor would.
// Targets here: sline_api (datastruct/sline.h and igris::sline called directly),
// vterm_c / vterm_c_enum (vterm.c + readline.h). The C++ terminal (vtermxx.cpp +
// readlinexx.h) lives in C15_xx.cpp: the C and C++ headers share their include guards.
#include "C15_common.h"
#include <igris/container/sline.h>
#include <igris/datastruct/sline.h>
#include <igris/shell/vterm.h>

using namespace vpbt;
using namespace c15;

namespace
{

// =========================================================================
// vterm.c
// =========================================================================
// each callback is registered with a private pointer of its own and checks that it is the one it gets
struct Priv
{
    Sink *sink;
    int kind; // 1 write, 2 execute, 3 signal
};
Sink *own(void *priv, int kind, const char *who)
{
    Priv *p = (Priv *)priv;
    if (p->kind != kind && p->sink->priv_err.empty())
        p->sink->priv_err = std::string("the ") + who + " callback was called with the private pointer registered for " +
                            (p->kind == 1 ? "write" : p->kind == 2 ? "execute" : "signal");
    return p->sink;
}
void c_write(void *priv, const char *data, unsigned int n) { own(priv, 1, "write")->on_write(data, n); }
void c_exec(void *priv, const char *line, unsigned int n) { own(priv, 2, "execute")->on_exec(line, n); }
void c_signal(void *priv, int sig) { own(priv, 3, "signal")->on_signal(sig); }

struct CTerm
{
    std::unique_ptr<Exact> linep, histp; // exactly cap and cap*H bytes: the first byte outside is an ASan fault
    vterm_automate vt;
    Priv pw{nullptr, 1}, pe{nullptr, 2}, ps{nullptr, 3};

    CTerm(unsigned cap, unsigned H, Sink *sink)
    {
        memset(&vt, 0xA5, sizeof vt);
        reinit(cap, H, sink);
    }
    // vterm_automate_init on the same object (first use, or a new session over new buffers)
    void reinit(unsigned cap, unsigned H, Sink *sink)
    {
        // the previous session's buffers stay allocated until the new ones are in place: a stale pointer into them is a
        // wrong answer, not a use-after-free report about the harness
        std::unique_ptr<Exact> l2(new Exact(cap)), h2(new Exact((size_t)cap * H));
        memset(l2->p, 0xEE, cap);
        vterm_automate_init(&vt, l2->c(), cap, h2->c(), H);
        pw = Priv{sink, 1};
        pe = Priv{sink, 2};
        ps = Priv{sink, 3};
        vterm_set_write_callback(&vt, c_write, &pw);
        vterm_set_execute_callback(&vt, c_exec, &pe);
        vterm_set_signal_callback(&vt, c_signal, &ps);
        linep = std::move(l2);
        histp = std::move(h2);
    }
    void set_echo(bool on) { vt.echo = on ? 1 : 0; }
    void feed(int16_t ch) { vterm_automate_newdata(&vt, ch); }
    long size() { return sline_size(&vt.rl.line); }
    long cursor() { return (long)sline_size(&vt.rl.line) - (long)sline_rightsize(&vt.rl.line); }
    std::string content()
    {
        unsigned n = vt.rl.line.len;
        return n < vt.rl.line.cap ? std::string(vt.rl.line.buf, n) : std::string();
    }
    void extra_check(const RefEditor &ref, EvKind, const char *when)
    {
        check_linecpy(ref.line, [&](char *d, size_t m) { return readline_linecpy(&vt.rl, d, m); }, when);
        VP_CHECK(vt.rl.line.buf == linep->c() && vt.rl.history_space == histp->c(), "buffers_moved", "the terminal no longer uses the buffers it was given");
    }
};

void t_vterm_c(Src &s, Case &c) { run_terminal<CTerm>(s, c, 0, "vterm_c"); }
void t_vterm_c_enum(Src &s, Case &c) { run_terminal<CTerm>(s, c, 1, "vterm_c"); }
void t_vterm_c_long(Src &s, Case &c) { run_terminal<CTerm>(s, c, 2, "vterm_c"); }
void t_vterm_c_reinit(Src &s, Case &c) { run_terminal<CTerm>(s, c, 3, "vterm_c"); }
void t_vterm_c_silent(Src &s, Case &c) { run_terminal<CTerm>(s, c, 4, "vterm_c"); }

// =========================================================================
// sline: struct sline (exact heap buffer) and igris::sline in lock step with a string
// =========================================================================
// the sline_api_big target: capacities around 256 and around 65536 (beyond one- and two-byte fields)
static bool g_sline_big = false;
void t_sline_api(Src &s, Case &c)
{
    unsigned cap = (unsigned)(s.weighted({3, 1}) == 0 ? s.range(2, 6) : s.range(2, 24));
    if (g_sline_big)
        cap = s.below(3) ? (unsigned)s.range(250, 300) : s.pick<uint32_t>({65535, 65536, 65537, 65538, 70000, 131072});
    size_t nops = (size_t)(s.weighted({3, 1}) == 0 ? s.range(0, 16) : s.range(0, 60));
    c.log("sline cap=%u:", cap);
    const bool k_newdata = known_active(K_NEWDATA);

    // leaked on failure (see C15_common.h)
    Exact *buf = new Exact(cap);
    memset(buf->p, 0xEE, cap);
    struct sline *sl = new struct sline;
    memset(sl, 0xA5, sizeof *sl);
    sline_init(sl, buf->c(), cap);
    igris::sline *xl = new igris::sline(cap);

    std::string line;
    size_t cur = 0;
    bool nt = false;

    auto check = [&](const char *op) {
        // struct sline
        VP_CHECK(sl->cursor <= sl->len && sl->len < cap, "sline_bounds", "after %s: cursor=%u len=%u cap=%u (0 <= cursor <= len < cap)", op, sl->cursor, sl->len, cap);
        VP_CHECK(sl->buf == buf->c() && sl->cap == cap, "sline_buffer", "after %s: buf/cap changed", op);
        VP_CHECK(sl->len == line.size() && memcmp(sl->buf, line.data(), line.size()) == 0, "sline_content", "after %s: line \"%.*s\" (len %u), reference \"%s\"", op,
                 (int)sl->len, sl->buf, sl->len, line.c_str());
        VP_CHECK(sl->cursor == cur, "sline_cursor", "after %s: cursor=%u, reference %zu", op, sl->cursor, cur);
        VP_CHECK((size_t)sline_size(sl) == line.size() && sline_rightsize(sl) == line.size() - cur && sline_rightpart(sl) == sl->buf + cur &&
                     (sline_in_rightpos(sl) != 0) == (cur == line.size()) && (sline_empty(sl) != 0) == line.empty(),
                 "sline_accessors", "after %s: size=%d rightsize=%u in_rightpos=%u empty=%d; reference len=%zu cursor=%zu", op, sline_size(sl), sline_rightsize(sl),
                 sline_in_rightpos(sl), sline_empty(sl), line.size(), cur);
        // igris::sline
        size_t xlen = xl->current_size(), xright = xl->rightsize();
        VP_CHECK(xright <= xlen && xlen < cap, "slinexx_bounds", "after %s: igris::sline cursor=%ld len=%zu cap=%u", op, (long)xlen - (long)xright, xlen, cap);
        VP_CHECK(xl->storage_size() == cap, "slinexx_buffer", "after %s: igris::sline storage_size=%zu", op, xl->storage_size());
        VP_CHECK(xlen == line.size() && memcmp(xl->data(), line.data(), line.size()) == 0, "slinexx_content", "after %s: igris::sline \"%.*s\" (len %zu), reference \"%s\"", op,
                 (int)xlen, xl->data(), xlen, line.c_str());
        VP_CHECK(xlen - xright == cur && xl->rightpart() == xl->data() + cur && xl->in_rightpos() == (cur == line.size()), "slinexx_cursor",
                 "after %s: igris::sline cursor=%zu, reference %zu", op, xlen - xright, cur);
    };
    check("init");

    for (size_t i = 0; i < nops; i++)
    {
        switch (s.weighted({4, 4, 3, 3, 3, 3, 2, 1, 2}))
        {
        case 0: // one character
        {
            char ch = (char)(s.coin() ? s.pick({'a', 'b', 'c'}) : (char)s.range(0x20, 0x7E));
            c.log(" putchar(%c)", ch);
            bool fits = line.size() < cap - 1;
            if (!fits || cur < line.size())
                nt = true;
            int r = sline_putchar(sl, ch);
            xl->newdata(ch);
            if (fits)
                line.insert(cur++, 1, ch);
            VP_CHECK(r == (fits ? 1 : 0), "sline_putchar_ret", "sline_putchar returned %d with %zu of %u characters held", r, line.size() - (fits ? 1 : 0), cap - 1);
            check("putchar");
            break;
        }
        case 1: // bulk insert of 0..2*cap bytes: as many as fit (cap-1-len) are taken
        {
            size_t n = (size_t)s.range(0, 2 * (int64_t)cap);
            size_t room = cap - 1 - line.size();
            if (n > room && k_newdata)
            {
                // excluded by construction: never offer more than fits
                c.known_hit(K_NEWDATA);
                n = room;
            }
            std::string data;
            for (size_t j = 0; j < n; j++)
                data += (char)('p' + (j % 8));
            c.log(" newdata(%zu)", n);
            size_t take = n < room ? n : room;
            if (n > room || (take && cur < line.size()))
                nt = true;
            Exact src(data.data(), n); // exactly n bytes: reading more is an ASan fault
            int r = sline_newdata(sl, src.c(), (int)n);
            xl->newdata(src.c(), n);
            line.insert(cur, data, 0, take);
            cur += take;
            // bounds first: a wrong count is the consequence, not the cause
            check("newdata");
            VP_CHECK(r == (int)take, "sline_newdata_ret", "sline_newdata(%zu bytes) returned %d, %zu fit", n, r, take);
            break;
        }
        case 2: // NUL-terminating accessor
        {
            c.log(" getline");
            const char *g = sline_getline(sl);
            VP_CHECK(g == sl->buf && strlen(g) == line.size() && line == g, "sline_getline", "sline_getline gave \"%s\", reference \"%s\"", g, line.c_str());
            const char *x = xl->getline();
            VP_CHECK(x == xl->data() && strlen(x) == line.size() && line == x, "slinexx_getline", "igris::sline::getline gave \"%s\", reference \"%s\"", x, line.c_str());
            check("getline");
            break;
        }
        case 3:
        {
            unsigned k = (unsigned)s.range(0, (int64_t)cap + 1);
            if (k == cap + 1 && (line.size() & 1))
                k = (line.size() & 2) ? 0xFFFFFFFFu : 0x7FFFFFFFu; // "everything to the left"
            c.log(" backspace(%u)", k);
            size_t take = k < cur ? k : cur;
            if (take && cur < line.size())
                nt = true;
            int r = sline_backspace(sl, k);
            int rx = xl->backspace((int)k);
            line.erase(cur - take, take);
            cur -= take;
            VP_CHECK(r == (int)take && rx == (int)take, "sline_backspace_ret", "backspace(%u) returned %d / %d, reference %zu", k, r, rx, take);
            check("backspace");
            break;
        }
        case 4:
        {
            unsigned k = (unsigned)s.range(0, (int64_t)cap + 1);
            if (k == cap + 1 && (line.size() & 1))
                k = (line.size() & 2) ? 0xFFFFFFFFu : 0x7FFFFFFFu; // "everything to the right", the way a caller says it
            c.log(" delete(%u)", k);
            size_t right = line.size() - cur;
            size_t take = k < right ? k : right;
            if (take)
                nt = true;
            int r = sline_delete(sl, k);
            int rx = xl->del((int)k);
            line.erase(cur, take);
            VP_CHECK(r == (int)take && rx == (int)take, "sline_delete_ret", "delete(%u) returned %d / %d, reference %zu", k, r, rx, take);
            check("delete");
            break;
        }
        case 5:
        {
            c.log(" left");
            int want = cur > 0;
            int r = sline_left(sl), rx = xl->left();
            cur -= (size_t)want;
            VP_CHECK(r == want && rx == want, "sline_left_ret", "left returned %d / %d, reference %d", r, rx, want);
            check("left");
            break;
        }
        case 6:
        {
            c.log(" right");
            int want = cur < line.size();
            int r = sline_right(sl), rx = xl->right();
            cur += (size_t)want;
            VP_CHECK(r == want && rx == want, "sline_right_ret", "right returned %d / %d, reference %d", r, rx, want);
            check("right");
            break;
        }
        case 7:
            c.log(" reset");
            sline_reset(sl);
            xl->reset();
            line.clear();
            cur = 0;
            check("reset");
            break;
        default: // comparison with a NUL-terminated string (what the history de-duplication uses)
        {
            std::string probe = line;
            int how = (int)s.below(4);
            if (how == 1)
                probe += 'a';
            else if (how == 2 && !probe.empty())
                probe.pop_back();
            else if (how == 3 && !probe.empty())
                probe[s.below(probe.size())] ^= 1;
            c.log(" equal(\"%s\")", probe.c_str());
            Exact pz(probe.c_str(), probe.size() + 1);
            int want = probe == line;
            int r = sline_equal(sl, pz.c());
            bool rx = xl->equal(pz.c());
            VP_CHECK((r != 0) == (want != 0) && rx == (want != 0), "sline_equal", "equal(\"%s\") gave %d / %d with line \"%s\"", probe.c_str(), r, (int)rx, line.c_str());
            check("equal");
            break;
        }
        }
    }
    c.nontrivial = nt;
    delete xl;
    delete sl;
    delete buf;
}

} // namespace

VP_TARGET("sline_api", t_sline_api,
          "struct sline over an exactly-sized heap buffer and igris::sline (capacity 2..24) in lock step with a string: putchar, newdata(0..2*cap bytes), "
          "getline, backspace(k), delete(k), left, right, reset, equal; return values, length/cursor/content/accessors after every call; non-trivial = an "
          "insertion that does not fit or an edit with the cursor inside the line");
void t_sline_api_big(Src &s, Case &c)
{
    struct G
    {
        G() { g_sline_big = true; }
        ~G() { g_sline_big = false; }
    } g;
    t_sline_api(s, c);
    c.label("big_capacity");
}
VP_TARGET("sline_api_big", t_sline_api_big,
          "struct sline / igris::sline with capacity 250..300 or 65535, 65536, 65537, 65538, 70000, 131072: the same operations (bulk inserts of up to "
          "2*capacity bytes, so the line fills up) and checks as sline_api");
VP_TARGET("vterm_c", t_vterm_c,
          "vterm.c: capacity 2..24, history depth 1..4, <= 120 keys (text over few letters, BS, arrows, DEL, CR, LF, CRLF, LFCR, ^C, unknown escapes, lone ESC), one "
          "byte per newdata call + idle step; execute/signal callbacks, VT100 screen row and cursor, line bounds and content against the reference editor after "
          "every byte; non-trivial = an edit with the cursor inside the line, a history recall after >= 2 stored lines, or typing into a full line");
VP_TARGET("vterm_c_long", t_vterm_c_long,
          "vterm.c with line capacity 250..262, history depth 1..3: 0..2 short lines, then one run of capacity-8..capacity+1 equal characters (cursor and length "
          "pass 255, the line fills up), then <= 10 random keys (arrows, recalls, BS, DEL, CR, ...); same checks after every byte; non-trivial as for vterm_c");
VP_TARGET("vterm_c_reinit", t_vterm_c_reinit,
          "struct vterm_automate used for a first session (capacity 2..24, history depth 1..8, up to 10 lines entered, possibly ending inside a line, a recall or an escape "
          "sequence), then vterm_automate_init() again over new exactly-sized buffers with another capacity and depth, then up to 40 random keys with all checks of vterm_c "
          "against a fresh reference editor");
VP_TARGET("vterm_c_silent", t_vterm_c_silent,
          "struct vterm_automate with echo switched off: generator of vterm_c; line, cursor, history recall and callbacks as the reference editor, and not one byte written to the "
          "terminal");
VP_TARGET("vterm_c_enum", t_vterm_c_enum,
          "exhaustive (vterm.c): every sequence of <= 5 (quick) / <= 7 (thorough) keys over {a,b,BS,LEFT,RIGHT,DEL,UP,DOWN,CR,LF,^C,ESC-x} x capacity {2,3,4,8} x history depth {1,2}",
          term_enum_size);
